#!/usr/bin/env python3
"""Regenerates /verif/MANIFEST.json from the table below (kept valid at all times).
A property appears under `checks` once harness/checks/<id>/ exists and is listed in BUILT,
otherwise under `not_applicable` with the reason."""
import json, os, sys

ROOT = os.path.dirname(os.path.dirname(os.path.abspath(__file__)))

# id -> (technique, level text, level note, design ref)
CHECKS = {
}

NOT_BUILT_REASON = "check not built yet in this tree (planned in DESIGN.md section 4); nothing is claimed for it"

def load_checks():
    """One JSON file per property in bin/manifest.d/<ID>.json with keys
    technique, level_text, level_note (and optionally thorough_cmd, disabled, reason)."""
    out = {}
    d = os.path.join(ROOT, "bin", "manifest.d")
    for fn in sorted(os.listdir(d)):
        if fn.endswith(".json"):
            with open(os.path.join(d, fn)) as f:
                out[fn[:-5]] = json.load(f)
    return out

def main():
    props = [json.loads(l) for l in open(os.path.join(ROOT, "properties.jsonl"))]
    table = load_checks()
    checks, na = [], []
    for p in props:
        pid = p["id"]
        e = table.get(pid)
        built = e is not None and os.path.isdir(os.path.join(ROOT, "harness", "checks", pid.lower())) and not e.get("disabled")
        if built:
            checks.append({
                "property_id": pid,
                "quick_cmd": f"bin/check {pid} quick",
                "thorough_cmd": e.get("thorough_cmd", f"bin/check {pid} thorough"),
                "evidence_file": f"/verif/evidence/{pid}.json",
                "replay_cmd_template": f"bin/check {pid} quick --replay {{path}}",
                "engine": "vcore",
                "level_claimed": {"category": "exploration", "text": e["level_text"], "design_ref": e.get("design_ref", f"DESIGN.md section 4, {pid}")},
                "level_note": e["level_note"],
                "technique": e["technique"],
            })
        else:
            na.append({"property_id": pid, "reason": (e or {}).get("reason", NOT_BUILT_REASON)})
    hooks_commits = []
    hc = os.path.join(ROOT, "bin", "hook_commits.txt")
    if os.path.exists(hc):
        hooks_commits = [l.split()[0] for l in open(hc) if l.strip()]
    m = {
        "version": 1,
        "setup_cmd": "bin/setup",
        "hooks": {
            "guard": "--cfg concordium_base_verif",
            "enable": "harness/.cargo/config.toml sets build.rustflags = [\"--cfg\", \"concordium_base_verif\"]; every check is built by bin/check through that workspace with path dependencies on /repo",
            "baseline_off_cmd": "cd /repo/rust-src && cargo test --workspace --no-fail-fast --offline",
            "source_commits": hooks_commits,
            "add_only": True,
        },
        "engines": [
            {"name": "vcore", "path": "harness/vcore", "serves_properties": [c["property_id"] for c in checks],
             "kind_free_text": "property-based testing: proptest TestRunner over a choice-sequence strategy with byte-level shrinking; each check = decode(Unstructured)->case + oracle; 16 shards; plain-bytes replay files; libFuzzer targets reuse the same decode+check"},
        ],
        "checks": checks,
        "not_applicable": na,
        "notes": "All checks are exploration-level generated-input search against explicit oracles (reference models, round-trips, differential and metamorphic relations). Exit 2 = inconclusive (build failure, watchdog, generator floor missed), never a violation. See DESIGN.md.",
    }
    with open(os.path.join(ROOT, "MANIFEST.json"), "w") as f:
        json.dump(m, f, indent=1)
        f.write("\n")
    try:
        import jsonschema
        jsonschema.validate(m, json.load(open("/root/.vp/MANIFEST.schema.json")))
        print("MANIFEST.json valid;", len(checks), "checks,", len(na), "not claimed")
    except ImportError:
        print("MANIFEST.json written (jsonschema unavailable)")

if __name__ == "__main__":
    main()
