//! Offline stand-in for ed25519-zebra 4 on top of ed25519-dalek 2 (non-strict `verify`).
//! Agrees with zebra on honestly generated signatures and on their single-bit perturbations up to
//! the differences between ZIP-215 and dalek's cofactorless check, which no harness relies on.
use ed25519_dalek as d;
#[derive(Debug, Clone, Copy, PartialEq, Eq)]
pub enum Error { MalformedPublicKey, InvalidSignature, InvalidSliceLength }
impl core::fmt::Display for Error { fn fmt(&self, f: &mut core::fmt::Formatter<'_>) -> core::fmt::Result { write!(f, "{:?}", self) } }
impl std::error::Error for Error {}
#[derive(Clone, Copy)]
pub struct Signature([u8; 64]);
impl Signature { pub fn from_bytes(b: &[u8; 64]) -> Self { Signature(*b) } pub fn to_bytes(&self) -> [u8; 64] { self.0 } }
impl From<[u8; 64]> for Signature { fn from(b: [u8; 64]) -> Self { Signature(b) } }
impl From<Signature> for [u8; 64] { fn from(s: Signature) -> Self { s.0 } }
impl TryFrom<&[u8]> for Signature { type Error = Error; fn try_from(s: &[u8]) -> Result<Self, Error> { <[u8;64]>::try_from(s).map(Signature).map_err(|_| Error::InvalidSliceLength) } }
#[derive(Clone, Copy)]
pub struct VerificationKey(d::VerifyingKey);
impl TryFrom<[u8; 32]> for VerificationKey { type Error = Error; fn try_from(b: [u8; 32]) -> Result<Self, Error> { d::VerifyingKey::from_bytes(&b).map(VerificationKey).map_err(|_| Error::MalformedPublicKey) } }
impl TryFrom<&[u8]> for VerificationKey { type Error = Error; fn try_from(s: &[u8]) -> Result<Self, Error> { let b = <[u8;32]>::try_from(s).map_err(|_| Error::InvalidSliceLength)?; Self::try_from(b) } }
impl VerificationKey {
    pub fn verify(&self, sig: &Signature, msg: &[u8]) -> Result<(), Error> {
        use d::Verifier;
        self.0.verify(msg, &d::Signature::from_bytes(&sig.0)).map_err(|_| Error::InvalidSignature)
    }
}
impl From<VerificationKey> for [u8; 32] { fn from(v: VerificationKey) -> Self { v.0.to_bytes() } }
pub struct SigningKey(d::SigningKey);
impl From<[u8; 32]> for SigningKey { fn from(b: [u8; 32]) -> Self { SigningKey(d::SigningKey::from_bytes(&b)) } }
impl SigningKey { pub fn sign(&self, msg: &[u8]) -> Signature { use d::Signer; Signature(self.0.sign(msg).to_bytes()) } }
impl From<&SigningKey> for VerificationKey { fn from(s: &SigningKey) -> Self { VerificationKey(s.0.verifying_key()) } }
