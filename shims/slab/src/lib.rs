//! Offline stand-in for slab 0.4: same key-allocation discipline (LIFO reuse of vacated keys).
enum Entry<T> { Vacant(usize), Occupied(T) }
pub struct Slab<T> { entries: Vec<Entry<T>>, len: usize, next: usize }
impl<T> Default for Slab<T> { fn default() -> Self { Self::new() } }
impl<T: Clone> Clone for Slab<T> {
    fn clone(&self) -> Self {
        Slab { entries: self.entries.iter().map(|e| match e { Entry::Vacant(n) => Entry::Vacant(*n), Entry::Occupied(t) => Entry::Occupied(t.clone()) }).collect(), len: self.len, next: self.next }
    }
}
impl<T: core::fmt::Debug> core::fmt::Debug for Slab<T> {
    fn fmt(&self, f: &mut core::fmt::Formatter<'_>) -> core::fmt::Result {
        f.debug_map().entries(self.entries.iter().enumerate().filter_map(|(i,e)| match e { Entry::Occupied(t) => Some((i,t)), _ => None })).finish()
    }
}
impl<T> Slab<T> {
    pub const fn new() -> Self { Slab { entries: Vec::new(), len: 0, next: 0 } }
    pub fn len(&self) -> usize { self.len }
    pub fn is_empty(&self) -> bool { self.len == 0 }
    pub fn insert(&mut self, val: T) -> usize {
        let key = self.next;
        self.len += 1;
        if key == self.entries.len() {
            self.entries.push(Entry::Occupied(val));
            self.next = key + 1;
        } else {
            self.next = match self.entries.get(key) { Some(&Entry::Vacant(next)) => next, _ => unreachable!() };
            self.entries[key] = Entry::Occupied(val);
        }
        key
    }
    pub fn get(&self, key: usize) -> Option<&T> { match self.entries.get(key) { Some(Entry::Occupied(v)) => Some(v), _ => None } }
    pub fn get_mut(&mut self, key: usize) -> Option<&mut T> { match self.entries.get_mut(key) { Some(Entry::Occupied(v)) => Some(v), _ => None } }
    /// # Safety
    /// key must be occupied
    pub unsafe fn get_unchecked(&self, key: usize) -> &T { self.get(key).expect("slab shim: get_unchecked on vacant key") }
    /// # Safety
    /// key must be occupied
    pub unsafe fn get_unchecked_mut(&mut self, key: usize) -> &mut T { self.get_mut(key).expect("slab shim: get_unchecked_mut on vacant key") }
    pub fn contains(&self, key: usize) -> bool { matches!(self.entries.get(key), Some(Entry::Occupied(_))) }
    pub fn try_remove(&mut self, key: usize) -> Option<T> {
        if let Some(entry) = self.entries.get_mut(key) {
            let prev = core::mem::replace(entry, Entry::Vacant(self.next));
            match prev {
                Entry::Occupied(val) => { self.len -= 1; self.next = key; return Some(val); }
                _ => { *entry = prev; }
            }
        }
        None
    }
    pub fn remove(&mut self, key: usize) -> T { self.try_remove(key).expect("invalid key") }
    pub fn clear(&mut self) { self.entries.clear(); self.len = 0; self.next = 0; }
}
