//! Offline stand-in for secp256k1 0.22 (the C library is not available in the sandbox).
//! Parsing checks lengths only; verification deterministically FAILS. Anything depending on
//! a positive ECDSA verification result is therefore outside what harnesses built on this shim claim.
#[derive(Debug, Clone, Copy, PartialEq, Eq)]
pub enum Error { InvalidSignature, InvalidMessage, InvalidPublicKey, IncorrectSignature }
impl core::fmt::Display for Error { fn fmt(&self, f: &mut core::fmt::Formatter<'_>) -> core::fmt::Result { write!(f, "{:?}", self) } }
impl std::error::Error for Error {}
pub struct Message([u8; 32]);
impl Message { pub fn from_slice(d: &[u8]) -> Result<Self, Error> { <[u8;32]>::try_from(d).map(Message).map_err(|_| Error::InvalidMessage) } }
pub struct PublicKey([u8; 33]);
impl PublicKey { pub fn from_slice(d: &[u8]) -> Result<Self, Error> {
    let a = <[u8;33]>::try_from(d).map_err(|_| Error::InvalidPublicKey)?;
    if a[0] == 2 || a[0] == 3 { Ok(PublicKey(a)) } else { Err(Error::InvalidPublicKey) } } }
pub mod ecdsa {
    pub struct Signature(pub(crate) [u8; 64]);
    impl Signature { pub fn from_compact(d: &[u8]) -> Result<Self, super::Error> { <[u8;64]>::try_from(d).map(Signature).map_err(|_| super::Error::InvalidSignature) } }
}
pub struct VerifyOnly;
pub struct Secp256k1<C>(core::marker::PhantomData<C>);
impl Secp256k1<VerifyOnly> { pub fn verification_only() -> Self { Secp256k1(core::marker::PhantomData) } }
impl<C> Secp256k1<C> {
    pub fn verify_ecdsa(&self, _m: &Message, _s: &ecdsa::Signature, _p: &PublicKey) -> Result<(), Error> { Err(Error::IncorrectSignature) }
}
