//! Offline stand-in for num_enum 0.6: only `#[derive(TryFromPrimitive)]` for
//! fieldless `#[repr(u8)]` enums, which is all concordium-wasm uses.
extern crate proc_macro;
use proc_macro::{TokenStream, TokenTree, Delimiter};

#[proc_macro_derive(TryFromPrimitive, attributes(num_enum))]
pub fn derive_try_from_primitive(input: TokenStream) -> TokenStream {
    let mut name = None;
    let mut body = None;
    let mut it = input.into_iter().peekable();
    while let Some(tt) = it.next() {
        if let TokenTree::Ident(id) = &tt {
            if id.to_string() == "enum" {
                if let Some(TokenTree::Ident(n)) = it.next() { name = Some(n.to_string()); }
                for tt in it.by_ref() {
                    if let TokenTree::Group(g) = &tt {
                        if g.delimiter() == Delimiter::Brace { body = Some(g.stream()); break; }
                    }
                }
                break;
            }
        }
    }
    let name = name.expect("enum name");
    let body = body.expect("enum body");
    // collect variant names: an identifier at the start of each comma-separated item (skipping attributes)
    let mut variants = Vec::new();
    let mut at_start = true;
    let mut skip_attr = false;
    for tt in body {
        match &tt {
            TokenTree::Punct(p) if p.as_char() == ',' => { at_start = true; }
            TokenTree::Punct(p) if p.as_char() == '#' && at_start => { skip_attr = true; }
            TokenTree::Group(_) if skip_attr => { skip_attr = false; }
            TokenTree::Ident(id) if at_start => { variants.push(id.to_string()); at_start = false; }
            _ => {}
        }
    }
    let mut arms = String::new();
    for v in &variants {
        arms.push_str(&format!("x if x == {name}::{v} as u8 => ::core::result::Result::Ok({name}::{v}),\n"));
    }
    let out = format!(
        "impl ::core::convert::TryFrom<u8> for {name} {{ type Error = u8; #[allow(non_upper_case_globals)] fn try_from(number: u8) -> ::core::result::Result<Self, u8> {{ match number {{ {arms} other => ::core::result::Result::Err(other) }} }} }}"
    );
    out.parse().unwrap()
}
