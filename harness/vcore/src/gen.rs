//! Decoder helpers over `arbitrary::Unstructured`: every choice is *interpreted* from the choice
//! sequence; an exhausted sequence yields zeros, i.e. the first (simplest) alternative.
use arbitrary::Unstructured;

/// Uniform index in `0..n` (n ≥ 1); 0 when the input is exhausted.
#[inline]
pub fn idx(u: &mut Unstructured, n: usize) -> usize {
    if n <= 1 {
        return 0;
    }
    u.int_in_range(0..=n - 1).unwrap_or(0)
}

#[inline]
pub fn range_u64(u: &mut Unstructured, lo: u64, hi: u64) -> u64 {
    if hi <= lo {
        return lo;
    }
    u.int_in_range(lo..=hi).unwrap_or(lo)
}

#[inline]
pub fn range_usize(u: &mut Unstructured, lo: usize, hi: usize) -> usize {
    if hi <= lo {
        return lo;
    }
    u.int_in_range(lo..=hi).unwrap_or(lo)
}

#[inline]
pub fn byte(u: &mut Unstructured) -> u8 { u.arbitrary::<u8>().unwrap_or(0) }

#[inline]
pub fn boolean(u: &mut Unstructured) -> bool { byte(u) & 1 == 1 }

/// True with probability about num/den.
#[inline]
pub fn ratio(u: &mut Unstructured, num: u8, den: u8) -> bool { (byte(u) as u32 * den as u32) / 256 < num as u32 }

#[inline]
pub fn u16v(u: &mut Unstructured) -> u16 { u.arbitrary::<u16>().unwrap_or(0) }

#[inline]
pub fn u32v(u: &mut Unstructured) -> u32 { u.arbitrary::<u32>().unwrap_or(0) }

#[inline]
pub fn u64v(u: &mut Unstructured) -> u64 { u.arbitrary::<u64>().unwrap_or(0) }

pub fn choose<'a, T>(u: &mut Unstructured, xs: &'a [T]) -> &'a T { &xs[idx(u, xs.len())] }

/// `n` raw bytes (zero padded when the input is exhausted).
pub fn bytes(u: &mut Unstructured, n: usize) -> Vec<u8> {
    let mut v = vec![0u8; n];
    let _ = u.fill_buffer(&mut v);
    v
}

pub fn array<const N: usize>(u: &mut Unstructured) -> [u8; N] {
    let mut v = [0u8; N];
    let _ = u.fill_buffer(&mut v);
    v
}

/// A byte string with length in `0..=max`, biased towards short.
pub fn short_bytes(u: &mut Unstructured, max: usize) -> Vec<u8> {
    let n = match byte(u) % 8 {
        0 => 0,
        1 => 1,
        2..=5 => range_usize(u, 0, max.min(16)),
        6 => range_usize(u, 0, max),
        _ => max,
    };
    bytes(u, n)
}

/// 64-bit integer from the boundary table: 0, 1, -1, MIN, MAX, 2^k, 2^k±1, all-ones windows, random.
pub fn boundary_u64(u: &mut Unstructured) -> u64 {
    match byte(u) % 16 {
        0 => 0,
        1 => 1,
        2 => u64::MAX,
        3 => i64::MIN as u64,
        4 => i64::MAX as u64,
        5 => {
            let k = byte(u) % 64;
            1u64 << k
        }
        6 => {
            let k = byte(u) % 64;
            (1u64 << k).wrapping_sub(1)
        }
        7 => {
            let k = byte(u) % 64;
            (1u64 << k).wrapping_add(1)
        }
        8 => {
            // window of ones
            let a = byte(u) % 64;
            let w = byte(u) % 64 + 1;
            let ones = if w >= 64 { u64::MAX } else { (1u64 << w) - 1 };
            ones.rotate_left(a as u32)
        }
        9 => u32::MAX as u64,
        10 => (u32::MAX as u64) + 1,
        11 => i32::MIN as i64 as u64,
        12 => byte(u) as u64,
        13 => (byte(u) as i8) as i64 as u64,
        _ => u64v(u),
    }
}

pub fn boundary_u32(u: &mut Unstructured) -> u32 {
    match byte(u) % 14 {
        0 => 0,
        1 => 1,
        2 => u32::MAX,
        3 => i32::MIN as u32,
        4 => i32::MAX as u32,
        5 => 1u32 << (byte(u) % 32),
        6 => (1u32 << (byte(u) % 32)).wrapping_sub(1),
        7 => (1u32 << (byte(u) % 32)).wrapping_add(1),
        8 => {
            let a = byte(u) % 32;
            let w = byte(u) % 32 + 1;
            let ones = if w >= 32 { u32::MAX } else { (1u32 << w) - 1 };
            ones.rotate_left(a as u32)
        }
        9 => byte(u) as u32,
        10 => (byte(u) as i8) as i32 as u32,
        _ => u32v(u),
    }
}

/// A deterministic RNG for the code under test, seeded from the choice sequence.
pub fn rng(u: &mut Unstructured) -> rand_chacha::ChaCha20Rng {
    use rand::SeedableRng;
    rand_chacha::ChaCha20Rng::seed_from_u64(u64v(u))
}

pub fn hex(b: &[u8]) -> String {
    let mut s = String::with_capacity(b.len() * 2);
    for x in b {
        s.push_str(&format!("{:02x}", x));
    }
    s
}
