//! A proptest `Strategy` producing the raw choice sequence (`Vec<u8>`) of a case, with a
//! byte-level shrinker (tail truncation, block deletion, block zeroing, byte lowering) that
//! follows proptest's simplify/complicate protocol. All randomness comes from the proptest
//! runner's RNG, so a run is reproducible from the runner seed and failures shrink/replay.
use proptest::strategy::{NewTree, Strategy, ValueTree};
use proptest::test_runner::TestRunner;
use proptest::prelude::{Rng, RngCore};

#[derive(Debug, Clone)]
pub struct BytesStrategy {
    pub min_len: usize,
    pub max_len: usize,
}

impl Strategy for BytesStrategy {
    type Tree = BytesTree;
    type Value = Vec<u8>;

    fn new_tree(&self, runner: &mut TestRunner) -> NewTree<Self> {
        let rng = runner.rng();
        let len = if self.max_len <= self.min_len {
            self.min_len
        } else {
            rng.random_range(self.min_len..=self.max_len)
        };
        let mut v = vec![0u8; len];
        rng.fill_bytes(&mut v);
        // Bias a fraction of the bytes towards small / extreme values so that range choices
        // made by decoders hit their first and last alternatives more often than uniformly.
        let mode = rng.random_range(0u8..4);
        if mode == 0 {
            for b in v.iter_mut() {
                match rng.random_range(0u8..8) {
                    0 => *b = 0,
                    1 => *b = 0xff,
                    2 => *b &= 0x03,
                    _ => {}
                }
            }
        }
        Ok(BytesTree::new(v))
    }
}

#[derive(Debug, Clone, Copy, PartialEq, Eq)]
enum Pass {
    Truncate,
    Delete,
    Zero,
    Lower,
    Done,
}

pub struct BytesTree {
    /// Last value known to fail (or the original).
    base: Vec<u8>,
    /// Value currently offered to the test.
    cur: Vec<u8>,
    pass: Pass,
    /// Block size for the current pass.
    block: usize,
    /// Position within the current pass.
    pos: usize,
    /// For `Lower`: current binary-search bounds of the byte at `pos`.
    lo: u8,
    any_progress: bool,
    rounds: u32,
}

impl BytesTree {
    pub fn new(v: Vec<u8>) -> Self {
        let n = v.len();
        BytesTree {
            base: v.clone(),
            cur: v,
            pass: Pass::Truncate,
            block: n.div_ceil(2).max(1),
            pos: 0,
            lo: 0,
            any_progress: false,
            rounds: 0,
        }
    }

    fn start_pass(&mut self, p: Pass) {
        self.pass = p;
        self.pos = 0;
        self.block = match p {
            Pass::Truncate | Pass::Delete | Pass::Zero => self.base.len().div_ceil(2).max(1),
            _ => 1,
        };
        self.lo = 0;
    }

    /// Produce the next candidate derived from `base`; false if none are left.
    fn next_candidate(&mut self) -> bool {
        loop {
            let n = self.base.len();
            match self.pass {
                Pass::Truncate => {
                    if n == 0 || self.block == 0 {
                        self.start_pass(Pass::Delete);
                        continue;
                    }
                    if self.block > n {
                        self.block = n;
                    }
                    let cand = self.base[..n - self.block].to_vec();
                    // next attempt (if this one is rejected) uses a smaller block
                    self.pos = 1; // marks "candidate outstanding from truncate"
                    self.cur = cand;
                    return true;
                }
                Pass::Delete => {
                    if self.block == 0 || n == 0 {
                        self.start_pass(Pass::Zero);
                        continue;
                    }
                    if self.pos + self.block > n {
                        // finished this block size
                        self.block /= 2;
                        self.pos = 0;
                        continue;
                    }
                    let mut cand = Vec::with_capacity(n - self.block);
                    cand.extend_from_slice(&self.base[..self.pos]);
                    cand.extend_from_slice(&self.base[self.pos + self.block..]);
                    self.cur = cand;
                    return true;
                }
                Pass::Zero => {
                    if self.block == 0 || n == 0 {
                        self.start_pass(Pass::Lower);
                        continue;
                    }
                    if self.pos >= n {
                        self.block /= 2;
                        self.pos = 0;
                        continue;
                    }
                    let end = (self.pos + self.block).min(n);
                    if self.base[self.pos..end].iter().all(|b| *b == 0) {
                        self.pos = end;
                        continue;
                    }
                    let mut cand = self.base.clone();
                    for b in &mut cand[self.pos..end] {
                        *b = 0;
                    }
                    self.cur = cand;
                    return true;
                }
                Pass::Lower => {
                    if self.pos >= n {
                        if self.any_progress && self.rounds < 3 {
                            self.any_progress = false;
                            self.rounds += 1;
                            self.start_pass(Pass::Delete);
                            self.block = 8.min(self.base.len().max(1));
                            continue;
                        }
                        self.pass = Pass::Done;
                        continue;
                    }
                    let b = self.base[self.pos];
                    if b <= self.lo {
                        self.pos += 1;
                        self.lo = 0;
                        continue;
                    }
                    // binary search between lo (inclusive, untested or known passing-1) and b
                    let mid = self.lo + (b - self.lo) / 2;
                    let mut cand = self.base.clone();
                    cand[self.pos] = mid;
                    self.cur = cand;
                    return true;
                }
                Pass::Done => {
                    self.cur = self.base.clone();
                    return false;
                }
            }
        }
    }

    /// The outstanding candidate still failed: adopt it as the new base.
    fn accept(&mut self) {
        self.any_progress = true;
        match self.pass {
            Pass::Truncate => {
                self.base = self.cur.clone();
                // keep same block size (clamped on next call)
                self.block = self.block.min(self.base.len());
            }
            Pass::Delete => {
                self.base = self.cur.clone();
                // same pos now addresses the following block
            }
            Pass::Zero => {
                self.base = self.cur.clone();
                self.pos += self.block;
            }
            Pass::Lower => {
                self.base = self.cur.clone();
                // the byte at pos is now `mid`; continue searching below it
            }
            Pass::Done => {}
        }
    }

    /// The outstanding candidate passed: keep the base, move on.
    fn reject(&mut self) {
        match self.pass {
            Pass::Truncate => {
                self.block /= 2;
            }
            Pass::Delete => {
                self.pos += self.block;
            }
            Pass::Zero => {
                self.pos += self.block;
            }
            Pass::Lower => {
                // value `mid` passes, so the minimal failing value is above mid
                let mid = self.cur[self.pos];
                if mid == u8::MAX {
                    self.pos += 1;
                    self.lo = 0;
                } else {
                    self.lo = mid + 1;
                }
            }
            Pass::Done => {}
        }
    }
}

impl ValueTree for BytesTree {
    type Value = Vec<u8>;

    fn current(&self) -> Vec<u8> { self.cur.clone() }

    fn simplify(&mut self) -> bool {
        if self.cur != self.base {
            self.accept();
        }
        self.next_candidate()
    }

    fn complicate(&mut self) -> bool {
        if self.cur == self.base {
            return false;
        }
        self.reject();
        self.next_candidate()
    }
}
