//! Counting global allocator: per-thread live bytes, peak and largest single request, so that a
//! check can measure what a decode call allocates while 16 shards run in parallel.
//! Install in a check binary with `#[global_allocator] static A: vcore::alloc::Counting = vcore::alloc::Counting;`
use std::alloc::{GlobalAlloc, Layout, System};
use std::cell::Cell;

pub struct Counting;

thread_local! {
    static LIVE: Cell<isize> = const { Cell::new(0) };
    static PEAK: Cell<isize> = const { Cell::new(0) };
    static MAX_SINGLE: Cell<usize> = const { Cell::new(0) };
    static ACTIVE: Cell<bool> = const { Cell::new(false) };
}

#[inline]
fn on_alloc(sz: usize) {
    let _ = ACTIVE.try_with(|a| {
        if a.get() {
            LIVE.with(|l| {
                let v = l.get() + sz as isize;
                l.set(v);
                PEAK.with(|p| {
                    if v > p.get() {
                        p.set(v)
                    }
                });
            });
            MAX_SINGLE.with(|m| {
                if sz > m.get() {
                    m.set(sz)
                }
            });
        }
    });
}

#[inline]
fn on_free(sz: usize) {
    let _ = ACTIVE.try_with(|a| {
        if a.get() {
            LIVE.with(|l| l.set(l.get() - sz as isize));
        }
    });
}

/// Allocations at least this large bypass malloc: they are served from anonymous mappings, and one
/// freed mapping per thread is kept (its pages dropped with MADV_DONTNEED, so it reads as zeros
/// again) and reused for the next request of the same size. The Wasm engine allocates a zeroed
/// 32 MiB buffer for every execution; with 16 shard threads in one process, mapping and unmapping
/// it each time serialises all threads on the address-space lock and costs TLB shootdowns.
const BIG: usize = 8 << 20;

thread_local! {
    static BIG_CACHE: Cell<[(usize, usize); 4]> = const { Cell::new([(0, 0); 4]) };
    static DIRTY_BOUND: Cell<usize> = const { Cell::new(usize::MAX) };
}

/// Announce that big blocks released on this thread from now on have been written to only in
/// their first `bytes` bytes (`usize::MAX` = unknown). With a small bound a released block is
/// re-zeroed over that prefix (plus one Wasm page) with a plain memset instead of a system call:
/// MADV_DONTNEED costs TLB shootdowns on every core that runs a shard thread. The Wasm runner
/// derives the bound from the artifact's maximal memory size, which the engine never exceeds.
pub fn set_dirty_bound(bytes: usize) { let _ = DIRTY_BOUND.try_with(|d| d.set(bytes)); }

const MEMSET_LIMIT: usize = 2 << 20;

unsafe fn big_alloc(size: usize) -> *mut u8 {
    let cached = BIG_CACHE.try_with(|c| {
        let mut slots = c.get();
        for slot in slots.iter_mut() {
            if slot.0 != 0 && slot.1 == size {
                let p = slot.0;
                *slot = (0, 0);
                c.set(slots);
                return p;
            }
        }
        0
    });
    if let Ok(p) = cached {
        if p != 0 {
            return p as *mut u8;
        }
    }
    let p = libc::mmap(
        std::ptr::null_mut(),
        size,
        libc::PROT_READ | libc::PROT_WRITE,
        libc::MAP_PRIVATE | libc::MAP_ANONYMOUS,
        -1,
        0,
    );
    if p == libc::MAP_FAILED {
        std::ptr::null_mut()
    } else {
        p as *mut u8
    }
}

unsafe fn big_free(ptr: *mut u8, size: usize) {
    let bound = DIRTY_BOUND.try_with(|d| d.get()).unwrap_or(usize::MAX);
    let kept = BIG_CACHE.try_with(|c| {
        let mut slots = c.get();
        let Some(free) = slots.iter().position(|s| s.0 == 0) else { return false };
        if bound <= MEMSET_LIMIT {
            std::ptr::write_bytes(ptr, 0, (bound + 65536).min(size));
        } else if libc::madvise(ptr as *mut libc::c_void, size, libc::MADV_DONTNEED) != 0 {
            return false;
        }
        slots[free] = (ptr as usize, size);
        c.set(slots);
        true
    });
    if kept != Ok(true) {
        libc::munmap(ptr as *mut libc::c_void, size);
    }
}

unsafe impl GlobalAlloc for Counting {
    unsafe fn alloc(&self, layout: Layout) -> *mut u8 {
        on_alloc(layout.size());
        if layout.size() >= BIG && layout.align() <= 4096 {
            return big_alloc(layout.size());
        }
        System.alloc(layout)
    }

    unsafe fn dealloc(&self, ptr: *mut u8, layout: Layout) {
        on_free(layout.size());
        if layout.size() >= BIG && layout.align() <= 4096 {
            return big_free(ptr, layout.size());
        }
        System.dealloc(ptr, layout)
    }

    unsafe fn alloc_zeroed(&self, layout: Layout) -> *mut u8 {
        on_alloc(layout.size());
        if layout.size() >= BIG && layout.align() <= 4096 {
            // fresh and recycled mappings both read as zeros
            return big_alloc(layout.size());
        }
        System.alloc_zeroed(layout)
    }

    unsafe fn realloc(&self, ptr: *mut u8, layout: Layout, new_size: usize) -> *mut u8 {
        on_free(layout.size());
        on_alloc(new_size);
        let big_old = layout.size() >= BIG && layout.align() <= 4096;
        let big_new = new_size >= BIG && layout.align() <= 4096;
        if big_old || big_new {
            let new_layout = Layout::from_size_align_unchecked(new_size, layout.align());
            let np = if big_new { big_alloc(new_size) } else { System.alloc(new_layout) };
            if !np.is_null() {
                std::ptr::copy_nonoverlapping(ptr, np, layout.size().min(new_size));
                if big_old {
                    big_free(ptr, layout.size());
                } else {
                    System.dealloc(ptr, layout);
                }
            }
            return np;
        }
        System.realloc(ptr, layout, new_size)
    }
}

#[derive(Debug, Clone, Copy, Default)]
pub struct AllocReport {
    /// Peak of (bytes allocated - bytes freed) on this thread during the measured call.
    pub peak: usize,
    /// Largest single allocation request during the call.
    pub max_single: usize,
}

/// Measure allocations made on the current thread while running `f`. Only meaningful in a
/// binary that installed [`Counting`] as the global allocator (otherwise reports zeros).
pub fn measure<R>(f: impl FnOnce() -> R) -> (R, AllocReport) {
    LIVE.with(|l| l.set(0));
    PEAK.with(|p| p.set(0));
    MAX_SINGLE.with(|m| m.set(0));
    ACTIVE.with(|a| a.set(true));
    struct Guard;
    impl Drop for Guard {
        fn drop(&mut self) { ACTIVE.with(|a| a.set(false)); }
    }
    let g = Guard;
    let r = f();
    drop(g);
    let rep = AllocReport {
        peak:       PEAK.with(|p| p.get()).max(0) as usize,
        max_single: MAX_SINGLE.with(|m| m.get()),
    };
    (r, rep)
}
