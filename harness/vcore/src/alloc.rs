//! Counting global allocator: per-thread live bytes, peak and largest single request, so that a
//! check can measure what a decode call allocates while 16 shards run in parallel.
//! Install in a check binary with `#[global_allocator] static A: vcore::alloc::Counting = vcore::alloc::Counting;`
use std::alloc::{GlobalAlloc, Layout, System};
use std::cell::Cell;

pub struct Counting;

thread_local! {
    static LIVE: Cell<isize> = const { Cell::new(0) };
    static PEAK: Cell<isize> = const { Cell::new(0) };
    static MAX_SINGLE: Cell<usize> = const { Cell::new(0) };
    static ACTIVE: Cell<bool> = const { Cell::new(false) };
}

#[inline]
fn on_alloc(sz: usize) {
    let _ = ACTIVE.try_with(|a| {
        if a.get() {
            LIVE.with(|l| {
                let v = l.get() + sz as isize;
                l.set(v);
                PEAK.with(|p| {
                    if v > p.get() {
                        p.set(v)
                    }
                });
            });
            MAX_SINGLE.with(|m| {
                if sz > m.get() {
                    m.set(sz)
                }
            });
        }
    });
}

#[inline]
fn on_free(sz: usize) {
    let _ = ACTIVE.try_with(|a| {
        if a.get() {
            LIVE.with(|l| l.set(l.get() - sz as isize));
        }
    });
}

unsafe impl GlobalAlloc for Counting {
    unsafe fn alloc(&self, layout: Layout) -> *mut u8 {
        on_alloc(layout.size());
        System.alloc(layout)
    }

    unsafe fn dealloc(&self, ptr: *mut u8, layout: Layout) {
        on_free(layout.size());
        System.dealloc(ptr, layout)
    }

    unsafe fn alloc_zeroed(&self, layout: Layout) -> *mut u8 {
        on_alloc(layout.size());
        System.alloc_zeroed(layout)
    }

    unsafe fn realloc(&self, ptr: *mut u8, layout: Layout, new_size: usize) -> *mut u8 {
        on_free(layout.size());
        on_alloc(new_size);
        System.realloc(ptr, layout, new_size)
    }
}

#[derive(Debug, Clone, Copy, Default)]
pub struct AllocReport {
    /// Peak of (bytes allocated - bytes freed) on this thread during the measured call.
    pub peak: usize,
    /// Largest single allocation request during the call.
    pub max_single: usize,
}

/// Measure allocations made on the current thread while running `f`. Only meaningful in a
/// binary that installed [`Counting`] as the global allocator (otherwise reports zeros).
pub fn measure<R>(f: impl FnOnce() -> R) -> (R, AllocReport) {
    LIVE.with(|l| l.set(0));
    PEAK.with(|p| p.set(0));
    MAX_SINGLE.with(|m| m.set(0));
    ACTIVE.with(|a| a.set(true));
    struct Guard;
    impl Drop for Guard {
        fn drop(&mut self) { ACTIVE.with(|a| a.set(false)); }
    }
    let g = Guard;
    let r = f();
    drop(g);
    let rep = AllocReport {
        peak:       PEAK.with(|p| p.get()).max(0) as usize,
        max_single: MAX_SINGLE.with(|m| m.get()),
    };
    (r, rep)
}
