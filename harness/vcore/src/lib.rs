//! vcore: the engine shared by all checks.
//!
//! A *target* is a pure function `run(bytes, ctx) -> Result<(), Violation>` that decodes the
//! choice sequence `bytes` into a structured case (via `arbitrary::Unstructured`, construction
//! over rejection) and applies the oracle. Three drivers feed it:
//!   * proptest `TestRunner` with [`bytes_strategy::BytesStrategy`] (random generation, shrinking),
//!   * libFuzzer (the fuzz crate calls [`fuzz_one`]),
//!   * replay of a saved choice sequence (`--replay file`), strict, bypassing proptest.
//!
//! `main` supervises a child process running the shards so that an abort, stack overflow or
//! segfault in the code under test still leaves the offending input (journal) behind.
pub mod alloc;
pub mod bytes_strategy;
pub mod gen;

pub use arbitrary::Unstructured;
use proptest::test_runner::{Config, RngAlgorithm, TestCaseError, TestError, TestRng, TestRunner};
use std::cell::{Cell, RefCell};
use std::collections::{BTreeMap, HashSet};
use std::hash::{Hash, Hasher};
use std::io::Write;
use std::panic::{catch_unwind, AssertUnwindSafe};
use std::path::{Path, PathBuf};
use std::sync::atomic::{AtomicBool, AtomicU64, Ordering};
use std::sync::{Arc, Mutex};
use std::time::{Duration, Instant};

pub const SHARDS: usize = 16;
const JOURNAL_SIZE: usize = 1 << 20;

// ------------------------------------------------------------------------------------------
// Public types

#[derive(Debug, Clone)]
pub struct Violation {
    /// Name of the oracle that failed, e.g. "roundtrip" or "panic".
    pub oracle:    String,
    /// Discriminating signature used to match known findings (stable across runs).
    pub signature: String,
    /// Human readable description including the pretty-printed case where available.
    pub detail:    String,
}

impl Violation {
    pub fn new(oracle: &str, detail: impl Into<String>) -> Self {
        Violation {
            oracle:    oracle.to_string(),
            signature: oracle.to_string(),
            detail:    detail.into(),
        }
    }

    pub fn with_signature(mut self, sig: impl Into<String>) -> Self {
        self.signature = sig.into();
        self
    }
}

pub type CheckResult = Result<(), Violation>;

#[macro_export]
macro_rules! vfail {
    ($oracle:expr, $($arg:tt)*) => {
        return Err($crate::Violation::new($oracle, format!($($arg)*)))
    };
}

#[macro_export]
macro_rules! vensure {
    ($cond:expr, $oracle:expr, $($arg:tt)*) => {
        if !($cond) {
            return Err($crate::Violation::new($oracle, format!($($arg)*)));
        }
    };
}

/// Per-shard collector handed to every case.
pub struct Ctx {
    /// True when replaying a saved input (strict: known-panic tolerance off etc.).
    pub strict:      bool,
    pub tier:        Tier,
    counters:        BTreeMap<String, u64>,
    nontrivial_keys: HashSet<u64>,
    key_salt:        u64,
    case_nontrivial: bool,
    samples:         Vec<String>,
    sample_budget:   usize,
    describe:        Option<String>,
    counting:        bool,
    evaluations:     u64,
    nontrivial_evals: u64,
}

impl Ctx {
    fn new(tier: Tier, strict: bool) -> Self {
        Ctx {
            strict,
            tier,
            counters: BTreeMap::new(),
            nontrivial_keys: HashSet::new(),
            key_salt: 0,
            case_nontrivial: false,
            samples: Vec::new(),
            sample_budget: 2,
            describe: None,
            counting: true,
            evaluations: 0,
            nontrivial_evals: 0,
        }
    }

    /// Count this case under a named class (distribution reporting, floors).
    #[inline]
    pub fn class(&mut self, name: &str) {
        if !self.counting {
            return;
        }
        if let Some(c) = self.counters.get_mut(name) {
            *c += 1;
        } else {
            self.counters.insert(name.to_string(), 1);
        }
    }

    #[inline]
    pub fn class_n(&mut self, name: &str, n: u64) {
        if !self.counting || n == 0 {
            return;
        }
        if let Some(c) = self.counters.get_mut(name) {
            *c += n;
        } else {
            self.counters.insert(name.to_string(), n);
        }
    }

    /// Mark the current case non-trivial; `key` identifies the *decoded* case so that distinct
    /// non-trivial cases can be counted.
    pub fn nontrivial<K: Hash + ?Sized>(&mut self, key: &K) {
        if !self.counting {
            return;
        }
        let mut h = std::collections::hash_map::DefaultHasher::new();
        self.key_salt.hash(&mut h);
        key.hash(&mut h);
        if !self.case_nontrivial {
            self.case_nontrivial = true;
            self.nontrivial_evals += 1;
        }
        if self.nontrivial_keys.len() < 8_000_000 {
            self.nontrivial_keys.insert(h.finish());
        }
    }

    pub fn wants_sample(&self) -> bool { self.counting && self.samples.len() < self.sample_budget }

    /// Record a pretty-printed case as an evidence sample (evaluated lazily, a few per shard).
    pub fn sample(&mut self, f: impl FnOnce() -> String) {
        if self.wants_sample() {
            let mut s = f();
            if s.len() > 1500 {
                let mut cut = 1500;
                while !s.is_char_boundary(cut) {
                    cut -= 1;
                }
                s.truncate(cut);
                s.push_str(" …");
            }
            self.samples.push(s);
        }
    }

    /// Pretty description of the current case, stored beside the replay file on failure.
    pub fn describe(&mut self, f: impl FnOnce() -> String) {
        if self.strict {
            self.describe = Some(f());
        }
    }
}

#[derive(Debug, Clone, Copy, PartialEq, Eq)]
pub enum Tier {
    Quick,
    Thorough,
}

impl Tier {
    pub fn name(&self) -> &'static str {
        match self {
            Tier::Quick => "quick",
            Tier::Thorough => "thorough",
        }
    }
}

pub type CheckFn = fn(&[u8], &mut Ctx) -> CheckResult;

pub struct Target {
    pub name:           &'static str,
    pub run:            CheckFn,
    pub min_len:        usize,
    pub max_len:        usize,
    pub quick_cases:    u64,
    pub thorough_cases: u64,
    /// (class, minimal fraction of this target's evaluations). Missing a floor makes the run
    /// *inconclusive* (exit 2): the generator is not reaching what the check claims.
    pub floors:         &'static [(&'static str, f64)],
    /// Seconds after which a single case is considered hung (exit 2, never a violation).
    pub case_timeout_s: u64,
    pub max_shrink_iters: u32,
}

impl Target {
    pub const fn new(name: &'static str, run: CheckFn) -> Self {
        Target {
            name,
            run,
            min_len: 0,
            max_len: 512,
            quick_cases: 1000,
            thorough_cases: 50_000,
            floors: &[],
            case_timeout_s: 600,
            max_shrink_iters: 2000,
        }
    }

    pub const fn len(mut self, min: usize, max: usize) -> Self {
        self.min_len = min;
        self.max_len = max;
        self
    }

    pub const fn cases(mut self, quick: u64, thorough: u64) -> Self {
        self.quick_cases = quick;
        self.thorough_cases = thorough;
        self
    }

    pub const fn floors(mut self, f: &'static [(&'static str, f64)]) -> Self {
        self.floors = f;
        self
    }

    pub const fn timeout(mut self, s: u64) -> Self {
        self.case_timeout_s = s;
        self
    }

    pub const fn shrink_iters(mut self, n: u32) -> Self {
        self.max_shrink_iters = n;
        self
    }
}

pub struct Property {
    pub id:          &'static str,
    pub rule:        &'static str,
    pub assumptions: &'static [&'static str],
    pub targets:     Vec<Target>,
}

// ------------------------------------------------------------------------------------------
// Panic capture

thread_local! {
    static LAST_PANIC: RefCell<Option<String>> = const { RefCell::new(None) };
    static QUIET: Cell<bool> = const { Cell::new(false) };
}

fn install_panic_hook() {
    let default = std::panic::take_hook();
    std::panic::set_hook(Box::new(move |info| {
        let quiet = QUIET.with(|q| q.get());
        if quiet {
            let msg = if let Some(s) = info.payload().downcast_ref::<&str>() {
                s.to_string()
            } else if let Some(s) = info.payload().downcast_ref::<String>() {
                s.clone()
            } else {
                "<non-string panic payload>".to_string()
            };
            let loc = info
                .location()
                .map(|l| format!("{}:{}", l.file(), l.line()))
                .unwrap_or_else(|| "<unknown>".into());
            if std::env::var_os("VERIF_BACKTRACE").is_some() {
                eprintln!("panic: {} at {}\n{}", msg, loc, std::backtrace::Backtrace::force_capture());
            }
            LAST_PANIC.with(|p| *p.borrow_mut() = Some(format!("{} at {}", msg, loc)));
        } else {
            default(info);
        }
    }));
}

/// Run `f`, converting a panic into `Err(message at file:line)`.
pub fn catch<R>(f: impl FnOnce() -> R) -> Result<R, String> {
    let prev = QUIET.with(|q| q.replace(true));
    let r = catch_unwind(AssertUnwindSafe(f));
    QUIET.with(|q| q.set(prev));
    match r {
        Ok(v) => Ok(v),
        Err(_) => Err(LAST_PANIC
            .with(|p| p.borrow_mut().take())
            .unwrap_or_else(|| "<panic without message>".to_string())),
    }
}

fn panic_location(msg: &str) -> String {
    // signature of a panic: the source location (stable) rather than the formatted message
    match msg.rfind(" at ") {
        Some(i) => {
            let loc = &msg[i + 4..];
            // strip absolute prefix up to the repository-relative part
            let loc = loc.rsplit_once("/repo/").map(|x| x.1).unwrap_or(loc);
            loc.to_string()
        }
        None => msg.chars().take(80).collect(),
    }
}

/// Execute one case: decode + check, with panics turned into violations.
pub fn exec_case(run: CheckFn, bytes: &[u8], ctx: &mut Ctx) -> CheckResult {
    ctx.case_nontrivial = false;
    if ctx.counting {
        ctx.evaluations += 1;
    }
    match catch(|| run(bytes, ctx)) {
        Ok(r) => r,
        Err(msg) => Err(Violation {
            oracle:    "panic".into(),
            signature: format!("panic@{}", panic_location(&msg)),
            detail:    format!("panic in the code under test (or harness): {}", msg),
        }),
    }
}

// ------------------------------------------------------------------------------------------
// Journal: a small shared file mapping per shard holding the case currently being executed.

struct Journal {
    ptr: *mut u8,
}
unsafe impl Send for Journal {}

impl Journal {
    fn open(path: &Path) -> Option<Journal> {
        let f = std::fs::OpenOptions::new().read(true).write(true).create(true).truncate(true).open(path).ok()?;
        f.set_len(JOURNAL_SIZE as u64).ok()?;
        use std::os::unix::io::AsRawFd;
        let p = unsafe {
            libc::mmap(
                std::ptr::null_mut(),
                JOURNAL_SIZE,
                libc::PROT_READ | libc::PROT_WRITE,
                libc::MAP_SHARED,
                f.as_raw_fd(),
                0,
            )
        };
        if p == libc::MAP_FAILED {
            return None;
        }
        Some(Journal { ptr: p as *mut u8 })
    }

    /// Layout: u32 target index, u32 length, bytes.
    fn record(&self, target: u32, bytes: &[u8]) {
        let n = bytes.len().min(JOURNAL_SIZE - 8);
        unsafe {
            std::ptr::copy_nonoverlapping(target.to_le_bytes().as_ptr(), self.ptr, 4);
            std::ptr::copy_nonoverlapping((n as u32).to_le_bytes().as_ptr(), self.ptr.add(4), 4);
            std::ptr::copy_nonoverlapping(bytes.as_ptr(), self.ptr.add(8), n);
        }
    }

    fn read(path: &Path) -> Option<(u32, Vec<u8>)> {
        let data = std::fs::read(path).ok()?;
        if data.len() < 8 {
            return None;
        }
        let t = u32::from_le_bytes(data[0..4].try_into().unwrap());
        let n = u32::from_le_bytes(data[4..8].try_into().unwrap()) as usize;
        if 8 + n > data.len() {
            return None;
        }
        Some((t, data[8..8 + n].to_vec()))
    }
}

// ------------------------------------------------------------------------------------------
// Known findings

#[derive(Debug, Clone)]
struct Finding {
    status:    String,
    property:  String,
    signature: String,
    what:      String,
}

fn load_findings(root: &Path) -> Vec<Finding> {
    let mut out = Vec::new();
    if let Ok(s) = std::fs::read_to_string(root.join("known_findings.jsonl")) {
        for line in s.lines() {
            let line = line.trim();
            if line.is_empty() {
                continue;
            }
            if let Ok(v) = serde_json::from_str::<serde_json::Value>(line) {
                out.push(Finding {
                    status:    v["status"].as_str().unwrap_or("").to_string(),
                    property:  v["property"].as_str().unwrap_or("").to_string(),
                    signature: v["signature"].as_str().unwrap_or("").to_string(),
                    what:      v["what"].as_str().unwrap_or("").to_string(),
                });
            }
        }
    }
    out
}

// ------------------------------------------------------------------------------------------
// Paths and options

pub fn verif_root() -> PathBuf {
    if let Ok(r) = std::env::var("VERIF_ROOT") {
        return PathBuf::from(r);
    }
    PathBuf::from("/verif")
}

#[derive(Debug, Clone)]
struct Opts {
    tier:      Tier,
    seed:      u64,
    only:      Option<String>,
    mult:      f64,
    budget_s:  Option<u64>,
    child:     bool,
    replay:    Option<PathBuf>,
    target:    Option<String>,
    no_corpus: bool,
}

fn parse_opts() -> Opts {
    let mut o = Opts {
        tier:      match std::env::var("VERIF_TIER").ok().as_deref() {
            Some("thorough") => Tier::Thorough,
            _ => Tier::Quick,
        },
        seed:      std::env::var("VERIF_SEED").ok().and_then(|s| s.trim().parse::<i128>().ok()).map(|v| v as u64).unwrap_or(0),
        only:      None,
        mult:      std::env::var("VERIF_MULT").ok().and_then(|s| s.parse().ok()).unwrap_or(1.0),
        budget_s:  std::env::var("VERIF_BUDGET_S").ok().and_then(|s| s.parse().ok()),
        child:     false,
        replay:    None,
        target:    None,
        no_corpus: false,
    };
    let args: Vec<String> = std::env::args().skip(1).collect();
    let mut i = 0;
    while i < args.len() {
        match args[i].as_str() {
            "quick" => o.tier = Tier::Quick,
            "thorough" => o.tier = Tier::Thorough,
            "--seed" => {
                i += 1;
                o.seed = args[i].parse::<i128>().expect("seed") as u64;
            }
            "--only" => {
                i += 1;
                o.only = Some(args[i].clone());
            }
            "--mult" => {
                i += 1;
                o.mult = args[i].parse().expect("mult");
            }
            "--budget" => {
                i += 1;
                o.budget_s = Some(args[i].parse().expect("budget"));
            }
            "--child" => o.child = true,
            "--no-corpus" => o.no_corpus = true,
            "--replay" => {
                i += 1;
                o.replay = Some(PathBuf::from(&args[i]));
            }
            "--target" => {
                i += 1;
                o.target = Some(args[i].clone());
            }
            other => {
                eprintln!("unknown argument {other}");
                std::process::exit(2);
            }
        }
        i += 1;
    }
    if o.tier == Tier::Thorough && o.budget_s.is_none() {
        // thorough runs are bounded by wall clock as well as by case counts: when the budget is
        // hit the shards stop and the evidence reports what was covered (never a violation)
        o.budget_s = Some(5400);
    }
    o
}

// ------------------------------------------------------------------------------------------
// Entry points

/// libFuzzer entry: run one input against a target; a violation aborts (so libFuzzer saves it).
pub fn fuzz_one(prop_id: &str, target: &Target, data: &[u8]) {
    thread_local! { static CTX: RefCell<Option<Ctx>> = const { RefCell::new(None) }; }
    static HOOK: std::sync::Once = std::sync::Once::new();
    HOOK.call_once(install_panic_hook);
    CTX.with(|c| {
        let mut c = c.borrow_mut();
        let ctx = c.get_or_insert_with(|| {
            let mut x = Ctx::new(Tier::Thorough, false);
            x.counting = false;
            x
        });
        if let Err(v) = exec_case(target.run, data, ctx) {
            let findings = load_findings(&verif_root());
            if findings.iter().any(|f| f.status == "open" && f.property == prop_id && f.signature == v.signature) {
                return;
            }
            eprintln!("VIOLATION property={} target={} signature={}\n{}", prop_id, target.name, v.signature, v.detail);
            std::process::abort();
        }
    });
}

/// `main` of every check binary.
pub fn main(prop: Property) -> ! {
    // keep freed memory in the process: returning it to the system and mapping it again costs
    // system calls that serialise the shard threads (address-space lock, TLB shootdowns)
    unsafe {
        libc::mallopt(libc::M_TRIM_THRESHOLD, 1 << 30);
        libc::mallopt(libc::M_TOP_PAD, 16 << 20);
        libc::mallopt(libc::M_MMAP_THRESHOLD, 8 << 20);
    }
    let opts = parse_opts();
    install_panic_hook();
    let root = verif_root();
    let code = if let Some(path) = &opts.replay {
        replay_file(&prop, path, opts.target.as_deref(), &root, true)
    } else if opts.child {
        run_child(&prop, &opts, &root)
    } else {
        supervise(&prop, &opts, &root)
    };
    std::process::exit(code)
}

fn out_dir(root: &Path, id: &str) -> PathBuf {
    let d = root.join("out").join(id);
    let _ = std::fs::create_dir_all(&d);
    d
}

fn target_of_file<'a>(prop: &'a Property, path: &Path, explicit: Option<&str>) -> Option<(usize, &'a Target)> {
    let name = match explicit {
        Some(n) => n.to_string(),
        None => {
            let stem = path.file_name()?.to_str()?;
            stem.split("__").next()?.to_string()
        }
    };
    prop.targets.iter().enumerate().find(|(_, t)| t.name == name)
}

/// Replay one saved choice sequence in strict mode. Returns exit code.
fn replay_file(prop: &Property, path: &Path, explicit: Option<&str>, root: &Path, verbose: bool) -> i32 {
    let Some((_, target)) = target_of_file(prop, path, explicit) else {
        eprintln!("cannot determine target for {} (expected <target>__<name>.bin or --target)", path.display());
        return 2;
    };
    let bytes = match std::fs::read(path) {
        Ok(b) => b,
        Err(e) => {
            eprintln!("cannot read {}: {e}", path.display());
            return 2;
        }
    };
    let mut ctx = Ctx::new(Tier::Quick, true);
    let r = exec_case(target.run, &bytes, &mut ctx);
    if verbose {
        if let Some(d) = &ctx.describe {
            println!("case:\n{d}");
        }
    }
    match r {
        Ok(()) => {
            if verbose {
                println!("replay {}: property held", path.display());
            }
            0
        }
        Err(v) => {
            let findings = load_findings(root);
            if let Some(f) = findings.iter().find(|f| f.status == "open" && f.property == prop.id && f.signature == v.signature) {
                println!("KNOWN-FINDING: property={} {} [{}]", prop.id, f.what, f.signature);
                return 0;
            }
            println!("violation detail: [{}] {}", v.signature, v.detail);
            println!("VIOLATION property={} replay={}", prop.id, path.display());
            1
        }
    }
}

fn supervise(prop: &Property, opts: &Opts, root: &Path) -> i32 {
    let exe = std::env::current_exe().expect("current_exe");
    let mut args: Vec<String> = std::env::args().skip(1).collect();
    args.push("--child".into());
    let status = std::process::Command::new(&exe).args(&args).status();
    let status = match status {
        Ok(s) => s,
        Err(e) => {
            eprintln!("INCONCLUSIVE: cannot spawn child: {e}");
            return 2;
        }
    };
    if let Some(code) = status.code() {
        return code;
    }
    // Child died from a signal (abort, segfault, stack overflow, OOM kill). Find the input.
    use std::os::unix::process::ExitStatusExt;
    let sig = status.signal().unwrap_or(0);
    eprintln!("child terminated by signal {sig}; inspecting journals");
    if sig == libc::SIGKILL {
        println!("INCONCLUSIVE: property={} child was killed (SIGKILL; out of memory or external)", prop.id);
        return 2;
    }
    let od = out_dir(root, prop.id);
    for shard in 0..SHARDS {
        let jp = od.join(format!("journal.{shard}"));
        let Some((ti, bytes)) = Journal::read(&jp) else { continue };
        let Some(target) = prop.targets.get(ti as usize) else { continue };
        let name = format!("{}__crash-{:016x}.bin", target.name, hash_bytes(&bytes));
        let path = od.join(&name);
        if std::fs::write(&path, &bytes).is_err() {
            continue;
        }
        let mut deaths = 0;
        for _ in 0..2 {
            let st = std::process::Command::new(&exe).arg("--replay").arg(&path).status();
            match st {
                Ok(s) if s.code().is_none() => deaths += 1,
                Ok(s) if s.code() == Some(1) => {
                    // an ordinary violation on replay
                    return 1;
                }
                _ => break,
            }
        }
        if deaths == 2 {
            println!(
                "violation detail: [crash-signal-{sig}] the process dies (signal) on this input, reproducibly, target {}",
                target.name
            );
            println!("VIOLATION property={} replay={}", prop.id, path.display());
            write_min_evidence(prop, opts, root, 1);
            return 1;
        }
        let _ = std::fs::remove_file(&path);
    }
    let _ = opts;
    println!("INCONCLUSIVE: property={} child died by signal {sig} but no journaled input reproduces it", prop.id);
    2
}

fn hash_bytes(b: &[u8]) -> u64 {
    let mut h = std::collections::hash_map::DefaultHasher::new();
    b.hash(&mut h);
    h.finish()
}

fn write_min_evidence(prop: &Property, opts: &Opts, root: &Path, violations: i64) {
    let ev = serde_json::json!({
        "property_id": prop.id, "tier": opts.tier.name(), "seed": opts.seed as i64, "level": "exploration",
        "coverage": {"evaluations": 1, "distinct_nontrivial": 2, "rule": prop.rule,
                     "samples": ["run ended in a crash of the child process; see VIOLATION line"]},
        "wall_s": 0.0, "violations": violations
    });
    let _ = std::fs::create_dir_all(root.join("evidence"));
    let _ = std::fs::write(root.join("evidence").join(format!("{}.json", prop.id)), serde_json::to_string_pretty(&ev).unwrap());
}

struct ShardResult {
    per_target: Vec<TargetStats>,
    violation:  Option<(usize, Vec<u8>, Violation)>,
    known:      BTreeMap<String, u64>,
}

#[derive(Default, Clone)]
struct TargetStats {
    evaluations: u64,
    nontrivial:  u64,
    keys:        HashSet<u64>,
    counters:    BTreeMap<String, u64>,
    samples:     Vec<String>,
}

fn run_child(prop: &Property, opts: &Opts, root: &Path) -> i32 {
    let start = Instant::now();
    let od = out_dir(root, prop.id);
    let findings: Arc<Vec<Finding>> = Arc::new(load_findings(root));
    for f in findings.iter().filter(|f| f.property == prop.id && f.status == "open") {
        // listed once per run regardless of whether the search re-discovers it
        println!("KNOWN-FINDING: property={} {} [{}]", prop.id, f.what, f.signature);
    }

    // 1. replay corpus (strict), quick and thorough alike
    let mut corpus_replayed = 0u64;
    if !opts.no_corpus {
        let cdir = root.join("corpus").join(prop.id);
        if let Ok(rd) = std::fs::read_dir(&cdir) {
            let mut files: Vec<PathBuf> =
                rd.filter_map(|e| e.ok()).map(|e| e.path()).filter(|p| p.extension().map(|e| e == "bin").unwrap_or(false)).collect();
            files.sort();
            for f in files {
                if let Some(only) = &opts.only {
                    if target_of_file(prop, &f, None).map(|t| t.1.name != only).unwrap_or(true) {
                        continue;
                    }
                }
                corpus_replayed += 1;
                let code = replay_file(prop, &f, None, root, false);
                if code == 1 {
                    write_min_evidence(prop, opts, root, 1);
                    return 1;
                }
            }
        }
    }

    // 2. generated search, sharded
    let stop = Arc::new(AtomicBool::new(false));
    let case_started: Arc<Vec<AtomicU64>> = Arc::new((0..SHARDS).map(|_| AtomicU64::new(0)).collect());
    let case_timeout: Arc<Vec<AtomicU64>> = Arc::new((0..SHARDS).map(|_| AtomicU64::new(0)).collect());
    let results: Arc<Mutex<Vec<Option<ShardResult>>>> = Arc::new(Mutex::new((0..SHARDS).map(|_| None).collect()));
    let budget = opts.budget_s.map(Duration::from_secs);
    let budget_hit = Arc::new(AtomicBool::new(false));

    // watchdog
    {
        let case_started = case_started.clone();
        let case_timeout = case_timeout.clone();
        let id = prop.id;
        let od = od.clone();
        std::thread::spawn(move || loop {
            std::thread::sleep(Duration::from_millis(500));
            let now = start.elapsed().as_millis() as u64;
            for s in 0..SHARDS {
                let st = case_started[s].load(Ordering::Relaxed);
                let to = case_timeout[s].load(Ordering::Relaxed);
                if st != 0 && to != 0 && now.saturating_sub(st) > to * 1000 {
                    let jp = od.join(format!("journal.{s}"));
                    if let Some((_, bytes)) = Journal::read(&jp) {
                        let _ = std::fs::write(od.join(format!("hang-{:016x}.bin", hash_bytes(&bytes))), &bytes);
                    }
                    println!("INCONCLUSIVE: property={id} a case exceeded its {to}s watchdog (shard {s}); input saved under {}", od.display());
                    std::process::exit(2);
                }
            }
        });
    }

    std::thread::scope(|scope| {
        for shard in 0..SHARDS {
            let stop = stop.clone();
            let results = results.clone();
            let findings = findings.clone();
            let case_started = case_started.clone();
            let case_timeout = case_timeout.clone();
            let budget_hit = budget_hit.clone();
            let od = od.clone();
            let builder = std::thread::Builder::new().name(format!("shard{shard}")).stack_size(256 << 20);
            builder
                .spawn_scoped(scope, move || {
                    let journal = Journal::open(&od.join(format!("journal.{shard}")));
                    let mut res = ShardResult { per_target: Vec::new(), violation: None, known: BTreeMap::new() };
                    for (ti, target) in prop.targets.iter().enumerate() {
                        let mut stats = TargetStats::default();
                        if let Some(only) = &opts.only {
                            if only != target.name {
                                res.per_target.push(stats);
                                continue;
                            }
                        }
                        if res.violation.is_some() || stop.load(Ordering::Relaxed) {
                            res.per_target.push(stats);
                            continue;
                        }
                        let total = match opts.tier {
                            Tier::Quick => target.quick_cases,
                            Tier::Thorough => target.thorough_cases,
                        };
                        let total = ((total as f64) * opts.mult).ceil() as u64;
                        // cases for this shard
                        let mine = total / SHARDS as u64 + if (shard as u64) < total % SHARDS as u64 { 1 } else { 0 };
                        if mine == 0 {
                            res.per_target.push(stats);
                            continue;
                        }
                        case_timeout[shard].store(target.case_timeout_s, Ordering::Relaxed);
                        let mut seed = [0u8; 32];
                        seed[0..8].copy_from_slice(&opts.seed.to_le_bytes());
                        seed[8..16].copy_from_slice(&(shard as u64).to_le_bytes());
                        seed[16..24].copy_from_slice(&(ti as u64).to_le_bytes());
                        seed[24..32].copy_from_slice(&hash_bytes(prop.id.as_bytes()).to_le_bytes());
                        let rng = TestRng::from_seed(RngAlgorithm::ChaCha, &seed);
                        let ctx = RefCell::new(Ctx::new(opts.tier, false));
                        ctx.borrow_mut().key_salt = ti as u64;
                        let failed: Cell<bool> = Cell::new(false);
                        let last_violation: RefCell<Option<Violation>> = RefCell::new(None);
                        let known: RefCell<BTreeMap<String, u64>> = RefCell::new(BTreeMap::new());
                        let strategy = bytes_strategy::BytesStrategy { min_len: target.min_len, max_len: target.max_len };
                        let mut done = 0u64;
                        let chunk = 64u64.max(mine / 64).min(mine);
                        let mut config = Config::default();
                        config.failure_persistence = None;
                        config.max_shrink_iters = target.max_shrink_iters;
                        config.verbose = 0;
                        config.source_file = None;
                        config.max_global_rejects = u32::MAX;
                        config.max_local_rejects = u32::MAX;
                        let mut runner = TestRunner::new_with_rng(config, rng);
                        while done < mine {
                            if stop.load(Ordering::Relaxed) {
                                break;
                            }
                            if let Some(b) = budget {
                                // the wall budget is shared out over the targets in order, so that a
                                // slow first target cannot starve the later ones
                                let share = b.mul_f64((ti + 1) as f64 / prop.targets.len() as f64);
                                if start.elapsed() > share {
                                    budget_hit.store(true, Ordering::Relaxed);
                                    break;
                                }
                            }
                            let n = chunk.min(mine - done);
                            // TestRunner::run uses config.cases; rebuild config per chunk
                            let mut cfg = runner.config().clone();
                            cfg.cases = n as u32;
                            let mut chunk_runner = TestRunner::new_with_rng(cfg, runner.new_rng());
                            let r = chunk_runner.run(&strategy, |bytes| {
                                // another shard already has a shrunk failure: finish quickly (also
                                // ends an ongoing shrink of this shard at its current best input)
                                if stop.load(Ordering::Relaxed) {
                                    return Ok(());
                                }
                                if let Some(j) = &journal {
                                    j.record(ti as u32, &bytes);
                                }
                                case_started[shard].store((start.elapsed().as_millis() as u64).max(1), Ordering::Relaxed);
                                let mut c = ctx.borrow_mut();
                                c.counting = !failed.get();
                                let r = exec_case(target.run, &bytes, &mut c);
                                case_started[shard].store(0, Ordering::Relaxed);
                                match r {
                                    Ok(()) => Ok(()),
                                    Err(v) => {
                                        if findings
                                            .iter()
                                            .any(|f| f.status == "open" && f.property == prop.id && f.signature == v.signature)
                                        {
                                            *known.borrow_mut().entry(v.signature.clone()).or_insert(0) += 1;
                                            return Ok(());
                                        }
                                        failed.set(true);
                                        let msg = v.signature.clone();
                                        *last_violation.borrow_mut() = Some(v);
                                        Err(TestCaseError::fail(msg))
                                    }
                                }
                            });
                            done += n;
                            match r {
                                Ok(()) => {}
                                Err(TestError::Fail(_, bytes)) => {
                                    // confirm on the minimal input, strict mode, to get the final detail
                                    let mut sctx = Ctx::new(opts.tier, true);
                                    let v = match exec_case(target.run, &bytes, &mut sctx) {
                                        Err(mut v) => {
                                            if let Some(d) = sctx.describe.take() {
                                                v.detail.push_str("\ncase:\n");
                                                v.detail.push_str(&d);
                                            }
                                            v
                                        }
                                        Ok(()) => last_violation.borrow_mut().take().unwrap_or(Violation::new(
                                            "flaky",
                                            "failure did not reproduce on the shrunk input in strict mode",
                                        )),
                                    };
                                    res.violation = Some((ti, bytes, v));
                                    stop.store(true, Ordering::Relaxed);
                                    break;
                                }
                                Err(TestError::Abort(reason)) => {
                                    eprintln!("proptest aborted: {reason}");
                                    break;
                                }
                            }
                            let _ = &mut runner;
                        }
                        let c = ctx.into_inner();
                        stats.evaluations = c.evaluations;
                        stats.nontrivial = c.nontrivial_evals;
                        stats.keys = c.nontrivial_keys;
                        stats.counters = c.counters;
                        stats.samples = c.samples;
                        for (k, n) in known.into_inner() {
                            *res.known.entry(k).or_insert(0) += n;
                        }
                        res.per_target.push(stats);
                    }
                    results.lock().unwrap()[shard] = Some(res);
                })
                .expect("spawn shard");
        }
    });

    // 3. merge
    let results = std::mem::take(&mut *results.lock().unwrap());
    let mut merged: Vec<TargetStats> = prop.targets.iter().map(|_| TargetStats::default()).collect();
    let mut violation: Option<(usize, Vec<u8>, Violation)> = None;
    let mut known: BTreeMap<String, u64> = BTreeMap::new();
    for r in results.into_iter().flatten() {
        for (i, s) in r.per_target.into_iter().enumerate() {
            let m = &mut merged[i];
            m.evaluations += s.evaluations;
            m.nontrivial += s.nontrivial;
            m.keys.extend(s.keys);
            for (k, v) in s.counters {
                *m.counters.entry(k).or_insert(0) += v;
            }
            for smp in s.samples {
                if m.samples.len() < 3 {
                    m.samples.push(smp);
                }
            }
        }
        for (k, n) in r.known {
            *known.entry(k).or_insert(0) += n;
        }
        if violation.is_none() {
            violation = r.violation;
        } else if let (Some(cur), Some(new)) = (&violation, &r.violation) {
            if new.1.len() < cur.1.len() {
                violation = r.violation;
            }
        }
    }

    let mut exit = 0;
    let mut notes: Vec<String> = Vec::new();
    let mut violations = 0;
    if let Some((ti, bytes, v)) = &violation {
        violations = 1;
        let target = &prop.targets[*ti];
        let name = format!("{}__{:016x}.bin", target.name, hash_bytes(bytes));
        let path = od.join(&name);
        let _ = std::fs::write(&path, bytes);
        let _ = std::fs::write(path.with_extension("txt"), format!("property {} target {}\nsignature: {}\n{}\n", prop.id, target.name, v.signature, v.detail));
        println!("violation detail: [{}] {}", v.signature, v.detail);
        println!("VIOLATION property={} replay={}", prop.id, path.display());
        exit = 1;
    }

    // floors
    if exit == 0 && !budget_hit.load(Ordering::Relaxed) {
        for (i, t) in prop.targets.iter().enumerate() {
            let m = &merged[i];
            if m.evaluations == 0 {
                continue;
            }
            for (class, frac) in t.floors {
                let got = *m.counters.get(*class).unwrap_or(&0) as f64 / m.evaluations as f64;
                if got < *frac {
                    let msg = format!(
                        "target {} class '{}' reached {:.4} of cases, floor {:.4}: generator does not reach what the check claims",
                        t.name, class, got, frac
                    );
                    println!("INCONCLUSIVE: property={} {}", prop.id, msg);
                    notes.push(msg);
                    exit = 2;
                }
            }
        }
    }

    // 4. evidence
    let wall = start.elapsed().as_secs_f64();
    let evaluations: u64 = merged.iter().map(|m| m.evaluations).sum::<u64>() + corpus_replayed;
    let distinct: u64 = merged.iter().map(|m| m.keys.len() as u64).sum();
    let mut samples: Vec<serde_json::Value> = Vec::new();
    for (i, t) in prop.targets.iter().enumerate() {
        for s in merged[i].samples.iter().take(2) {
            samples.push(serde_json::json!({"target": t.name, "case": s}));
        }
    }
    if samples.is_empty() {
        samples.push(serde_json::json!("no sample captured"));
    }
    let per_target: Vec<serde_json::Value> = prop
        .targets
        .iter()
        .enumerate()
        .map(|(i, t)| {
            let m = &merged[i];
            serde_json::json!({
                "target": t.name,
                "evaluations": m.evaluations,
                "nontrivial_evaluations": m.nontrivial,
                "distinct_nontrivial": m.keys.len(),
                "classes": m.counters,
                "floors": t.floors.iter().map(|(c, f)| serde_json::json!({"class": c, "min_fraction": f})).collect::<Vec<_>>(),
            })
        })
        .collect();
    let ev = serde_json::json!({
        "property_id": prop.id,
        "tier": opts.tier.name(),
        "seed": (opts.seed & 0x7fff_ffff_ffff_ffff) as i64,
        "level": "exploration",
        "coverage": {
            "evaluations": evaluations,
            "distinct_nontrivial": distinct,
            "rule": prop.rule,
            "samples": samples,
            "corpus_replayed": corpus_replayed,
            "targets": per_target,
            "known_findings_hit": known,
            "budget_hit": budget_hit.load(Ordering::Relaxed),
            "notes": notes,
            "exhaustive": false
        },
        "assumptions": prop.assumptions,
        "wall_s": wall,
        "violations": violations
    });
    let edir = root.join("evidence");
    let _ = std::fs::create_dir_all(&edir);
    let mut f = std::fs::File::create(edir.join(format!("{}.json", prop.id))).expect("evidence file");
    let _ = f.write_all(serde_json::to_string_pretty(&ev).unwrap().as_bytes());
    let _ = f.write_all(b"\n");

    println!(
        "{} {}: evaluations={} distinct_nontrivial={} corpus={} wall={:.1}s exit={}",
        prop.id,
        opts.tier.name(),
        evaluations,
        distinct,
        corpus_replayed,
        wall,
        exit
    );
    for (i, t) in prop.targets.iter().enumerate() {
        let m = &merged[i];
        if m.evaluations > 0 {
            let mut cls: Vec<String> = m.counters.iter().map(|(k, v)| format!("{k}={v}")).collect();
            cls.sort();
            println!("  {}: n={} nontrivial={} distinct={} | {}", t.name, m.evaluations, m.nontrivial, m.keys.len(), cls.join(" "));
        }
    }
    // clean journals
    for s in 0..SHARDS {
        let _ = std::fs::remove_file(od.join(format!("journal.{s}")));
    }
    exit
}
