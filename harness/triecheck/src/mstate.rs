//! Histories over the public `MutableState` / `PersistentState` API (the way the chain uses the
//! state: thaw, checkpoint with `make_fresh_generation` for nested calls, roll back by going back
//! to the parent handle, freeze - possibly twice - at the end of a transaction).
use concordium_smart_contract_engine::v1::trie::{Loader, MutableState, PersistentState, SizeCollector};
use statemodel::{reference_hash, Map};
use vcore::{gen as g, vensure, CheckResult, Ctx, Unstructured, Violation};

use crate::ALPHABET;

#[derive(Debug, Clone, PartialEq, Eq, Hash)]
pub enum MOp {
    /// checkpoint: new generation derived from handle i
    Fresh(usize),
    Insert(usize, Vec<u8>, Vec<u8>),
    Delete(usize, Vec<u8>),
    DeletePrefix(usize, Vec<u8>),
    Write(usize, Vec<u8>, Vec<u8>),
    Scan(usize),
    /// freeze handle i (n times in a row), then keep using it
    Freeze(usize, u8),
}

fn key(u: &mut Unstructured, pool: &mut Vec<Vec<u8>>) -> Vec<u8> {
    let k: Vec<u8> = match g::byte(u) % 6 {
        0..=2 if !pool.is_empty() => g::choose(u, pool).clone(),
        3 if !pool.is_empty() => {
            let mut k = g::choose(u, pool).clone();
            k.push(*g::choose(u, &ALPHABET));
            k
        }
        _ => {
            let n = g::range_usize(u, 0, 4);
            (0..n).map(|_| *g::choose(u, &ALPHABET)).collect()
        }
    };
    if pool.len() < 24 && !pool.contains(&k) {
        pool.push(k.clone());
    }
    k
}

fn value(u: &mut Unstructured) -> Vec<u8> {
    let n = *g::choose(u, &[0usize, 1, 3, 64, 65, 130]);
    let b = g::byte(u);
    vec![b; n]
}

pub fn decode(u: &mut Unstructured, max_ops: usize) -> Vec<MOp> {
    let n = g::range_usize(u, 1, max_ops);
    let mut pool = Vec::new();
    let mut ops = Vec::new();
    for _ in 0..n {
        if u.is_empty() {
            break;
        }
        let h = g::byte(u) as usize;
        ops.push(match g::byte(u) % 16 {
            0..=4 => MOp::Insert(h, key(u, &mut pool), value(u)),
            5 | 6 => MOp::Delete(h, key(u, &mut pool)),
            7 => MOp::DeletePrefix(h, key(u, &mut pool)),
            8 => MOp::Write(h, key(u, &mut pool), value(u)),
            9..=11 => MOp::Fresh(h),
            12 | 13 => MOp::Scan(h),
            _ => MOp::Freeze(h, 1 + g::byte(u) % 2),
        });
    }
    ops
}

struct Handle {
    ms:     MutableState,
    map:    Map,
    parent: Option<usize>,
    alive:  bool,
}

pub struct Facts {
    pub rollback_then_fresh: bool,
    pub double_freeze:       bool,
    pub freeze_emptied:      bool,
    pub depth3:              bool,
    pub freezes:             u32,
}

fn describe(ops: &[MOp]) -> String {
    ops.iter()
        .enumerate()
        .map(|(i, o)| match o {
            MOp::Insert(h, k, v) => format!("{i:3}: [h{h}] insert {} <- {} bytes\n", g::hex(k), v.len()),
            MOp::Delete(h, k) => format!("{i:3}: [h{h}] delete {}\n", g::hex(k)),
            MOp::DeletePrefix(h, k) => format!("{i:3}: [h{h}] delete_prefix {}\n", g::hex(k)),
            MOp::Write(h, k, v) => format!("{i:3}: [h{h}] write {} <- {} bytes\n", g::hex(k), v.len()),
            other => format!("{i:3}: {:?}\n", other),
        })
        .collect()
}

/// Run a history. `check_hash`: also compare every frozen state with the documented hash.
pub fn run(ops: &[MOp], check_hash: bool, ctx: &mut Ctx) -> Result<Facts, Violation> {
    ctx.describe(|| describe(ops));
    let store: Vec<u8> = Vec::new();
    let mut l = Loader::new(&store[..]);
    let mut hs: Vec<Handle> = vec![Handle { ms: MutableState::initial_state(), map: Map::new(), parent: None, alive: true }];
    let mut facts = Facts { rollback_then_fresh: false, double_freeze: false, freeze_emptied: false, depth3: false, freezes: 0 };

    // descendants of i (transitively)
    fn kill_descendants(hs: &mut [Handle], i: usize) -> bool {
        let mut any = false;
        loop {
            let mut changed = false;
            for j in 0..hs.len() {
                if hs[j].alive {
                    if let Some(p) = hs[j].parent {
                        if p == i || !hs[p].alive {
                            hs[j].alive = false;
                            changed = true;
                            any = true;
                        }
                    }
                }
            }
            if !changed {
                break;
            }
        }
        any
    }

    fn scan(h: &mut Handle, l: &mut Loader<&[u8]>, what: &str) -> CheckResult {
        let inner = h.ms.get_inner(l);
        let mut t = inner.lock();
        let it = t.verif_iter(l, &[]);
        let expect: Vec<(&Vec<u8>, &Vec<u8>)> = h.map.iter().collect();
        match it {
            Err(_) => return Err(Violation::new("scan", "iterator creation failed")),
            Ok(None) => vensure!(expect.is_empty(), "mutable-state-contents", "{what}: state is empty but the model has {} keys", expect.len()),
            Ok(Some(mut it)) => {
                let mut i = 0;
                while let Some(e) = t.verif_next(l, &mut it) {
                    let k = it.get_key().to_vec();
                    let v = t.with_entry(e, l, |b| b.to_vec());
                    match expect.get(i) {
                        None => {
                            return Err(Violation::new(
                                "mutable-state-contents",
                                format!("{what}: state has key {} that the model of this generation does not have", g::hex(&k)),
                            ))
                        }
                        Some((mk, mv)) => {
                            vensure!(
                                **mk == k && v.as_ref() == Some(*mv),
                                "mutable-state-contents",
                                "{what}: position {}: state has key {} ({:?} bytes), model has key {} ({} bytes)",
                                i,
                                g::hex(&k),
                                v.as_ref().map(|x| x.len()),
                                g::hex(mk),
                                mv.len()
                            );
                        }
                    }
                    i += 1;
                }
                t.verif_delete_iter(&it);
                vensure!(i == expect.len(), "mutable-state-contents", "{what}: state has {} keys, model has {}", i, expect.len());
            }
        }
        Ok(())
    }

    for (step, op) in ops.iter().enumerate() {
        let alive: Vec<usize> = (0..hs.len()).filter(|i| hs[*i].alive).collect();
        let pick = |h: usize| alive[h % alive.len()];
        let res: CheckResult = (|| {
            match op {
                MOp::Fresh(h) => {
                    if hs.len() >= 12 {
                        return Ok(());
                    }
                    let i = pick(*h);
                    // a new checkpoint from i abandons everything derived from i before
                    let abandoned = kill_descendants(&mut hs, i);
                    if abandoned {
                        facts.rollback_then_fresh = true;
                    }
                    let child = hs[i].ms.make_fresh_generation(&mut l);
                    let map = hs[i].map.clone();
                    hs.push(Handle { ms: child, map, parent: Some(i), alive: true });
                    let mut depth = 0;
                    let mut p = Some(hs.len() - 1);
                    while let Some(x) = p {
                        depth += 1;
                        p = hs[x].parent;
                    }
                    if depth >= 3 {
                        facts.depth3 = true;
                    }
                    let last = hs.len() - 1;
                    scan(&mut hs[last], &mut l, "fresh generation")?;
                }
                MOp::Insert(h, k, v) => {
                    let i = pick(*h);
                    kill_descendants(&mut hs, i);
                    let r = {
                        let inner = hs[i].ms.get_inner(&mut l);
                        let mut t = inner.lock();
                        t.insert(&mut l, k, v.clone()).map(|x| x.1)
                    };
                    let existed = hs[i].map.insert(k.clone(), v.clone()).is_some();
                    vensure!(r == Ok(existed), "mutable-state-insert", "insert of {} returned {:?}, model says existed={}", g::hex(k), r.map_err(|_| ()), existed);
                }
                MOp::Delete(h, k) => {
                    let i = pick(*h);
                    kill_descendants(&mut hs, i);
                    let r = {
                        let inner = hs[i].ms.get_inner(&mut l);
                        let mut t = inner.lock();
                        t.delete(&mut l, k)
                    };
                    let existed = hs[i].map.remove(k).is_some();
                    vensure!(r == Ok(existed), "mutable-state-delete", "delete of {} returned {:?}, model says existed={}", g::hex(k), r.map_err(|_| ()), existed);
                }
                MOp::DeletePrefix(h, p) => {
                    let i = pick(*h);
                    kill_descendants(&mut hs, i);
                    let r = {
                        let inner = hs[i].ms.get_inner(&mut l);
                        let mut t = inner.lock();
                        t.verif_delete_prefix(&mut l, p)
                    };
                    let victims: Vec<Vec<u8>> = hs[i].map.keys().filter(|k| k.starts_with(p)).cloned().collect();
                    for v in &victims {
                        hs[i].map.remove(v);
                    }
                    vensure!(r == Ok(!victims.is_empty()), "mutable-state-delete-prefix", "delete_prefix({}) returned {:?}, model removed {} keys", g::hex(p), r.map_err(|_| ()), victims.len());
                }
                MOp::Write(h, k, v) => {
                    let i = pick(*h);
                    kill_descendants(&mut hs, i);
                    let exists = hs[i].map.contains_key(k);
                    let wrote = {
                        let inner = hs[i].ms.get_inner(&mut l);
                        let mut t = inner.lock();
                        match t.get_entry(&mut l, k) {
                            Some(e) => match t.verif_get_mut(e, &mut l) {
                                Some(slot) => {
                                    *slot = v.clone();
                                    true
                                }
                                None => false,
                            },
                            None => false,
                        }
                    };
                    vensure!(wrote == exists, "mutable-state-write", "write through get_mut at {}: entry found = {}, model exists = {}", g::hex(k), wrote, exists);
                    if exists {
                        hs[i].map.insert(k.clone(), v.clone());
                    }
                }
                MOp::Scan(h) => {
                    let i = pick(*h);
                    kill_descendants(&mut hs, i);
                    scan(&mut hs[i], &mut l, "scan")?;
                }
                MOp::Freeze(h, n) => {
                    let i = pick(*h);
                    // freezing takes the shared trie: every other handle of the family is dead
                    for j in 0..hs.len() {
                        if j != i {
                            hs[j].alive = false;
                        }
                    }
                    hs[i].parent = None;
                    let map = hs[i].map.clone();
                    if map.is_empty() {
                        facts.freeze_emptied = true;
                    }
                    for round in 0..*n {
                        facts.freezes += 1;
                        if round > 0 {
                            facts.double_freeze = true;
                        }
                        let mut c = SizeCollector::default();
                        let ps: PersistentState = hs[i].ms.freeze(&mut l, &mut c);
                        let got: Vec<(Vec<u8>, Vec<u8>)> = ps.clone().into_iterator(&mut l).collect();
                        let want: Vec<(Vec<u8>, Vec<u8>)> = map.iter().map(|(k, v)| (k.clone(), v.clone())).collect();
                        vensure!(
                            got == want,
                            "freeze-contents",
                            "freeze #{} of the same state: persistent state has {} pairs, the generation had {}",
                            round + 1,
                            got.len(),
                            want.len()
                        );
                        if check_hash {
                            let hsh = ps.hash(&mut l);
                            let want = reference_hash(&map);
                            vensure!(hsh.as_ref() == want, "state-hash", "freeze #{}: hash {} differs from the documented hash {}", round + 1, g::hex(hsh.as_ref()), g::hex(&want));
                            if round > 0 {
                                vensure!(c.collect() == 0, "refreeze-unmodified", "second freeze of an unmodified state reports new data");
                            }
                        }
                    }
                    // the handle continues as a thaw of the frozen state
                    scan(&mut hs[i], &mut l, "after freeze")?;
                }
            }
            Ok(())
        })();
        res.map_err(|mut v| {
            v.detail = format!("at step {}: {}", step, v.detail);
            v
        })?;
    }
    // final: every live handle still shows its own generation. Going from the newest to the
    // oldest (each scan normalizes, i.e. rolls back, to that handle's generation).
    for i in (0..hs.len()).rev() {
        if hs[i].alive {
            kill_descendants(&mut hs, i);
            scan(&mut hs[i], &mut l, "final scan")?;
        }
    }
    Ok(facts)
}
