//! History generator and model-based executor for the v1 contract state trie
//! (`MutableTrie` driven through the guarded `verif_*` wrappers, `PersistentState` through its
//! public API). Used by C03 (ordered-map behaviour, generations), C04 (hash canonicity,
//! persistence) and C15 (iterator locks, handles).
pub mod mstate;

use concordium_smart_contract_engine::v1::trie::{
    low_level::verif::VerifIterator, EmptyCollector, EntryId, Loadable, Loader, MutableTrie, PersistentState, Reference,
    SizeCollector,
};
use statemodel::{keys_with_prefix, reference_hash, Map};
use std::collections::BTreeMap;
use vcore::{gen as g, vensure, CheckResult, Ctx, Unstructured, Violation};

pub const ALPHABET: [u8; 7] = [0x00, 0x01, 0x0f, 0x10, 0x11, 0xf0, 0xff];

#[derive(Debug, Clone, PartialEq, Eq, Hash)]
pub enum Mutation {
    Overwrite(Vec<u8>),
    Truncate(usize),
    Extend(Vec<u8>),
    Clear,
}

#[derive(Debug, Clone, PartialEq, Eq, Hash)]
pub enum Op {
    Insert(Vec<u8>, Vec<u8>),
    Get(Vec<u8>),
    /// get_entry + set
    Set(Vec<u8>, Vec<u8>),
    /// get_entry + get_mut + in-place modification
    Mutate(Vec<u8>, Mutation),
    Delete(Vec<u8>),
    DeletePrefix(Vec<u8>),
    Iter(Vec<u8>),
    Next(usize, usize),
    DelIter(usize),
    /// Remember a handle to the entry at this key (for later stale-handle checks).
    KeepHandle(Vec<u8>),
    UseHandle(usize),
    NewGeneration,
    Normalize(usize),
    /// freeze, then optionally store / reload / cache / serialize / migrate, then thaw again
    Persist { store: bool, reload: bool, cache: bool, serialize: bool, migrate: bool },
    Scan,
}

#[derive(Debug, Clone, Copy)]
pub struct Weights {
    pub modify:   u8,
    pub read:     u8,
    pub iter:     u8,
    pub gens:     u8,
    pub persist:  u8,
    pub handles:  u8,
}

pub const W_MAP: Weights = Weights { modify: 40, read: 12, iter: 14, gens: 12, persist: 8, handles: 4 };
pub const W_HASH: Weights = Weights { modify: 45, read: 4, iter: 4, gens: 8, persist: 25, handles: 0 };
pub const W_LOCKS: Weights = Weights { modify: 36, read: 6, iter: 36, gens: 8, persist: 2, handles: 10 };

fn gen_key(u: &mut Unstructured, pool: &mut Vec<Vec<u8>>) -> Vec<u8> {
    let k = match g::byte(u) % 12 {
        0..=3 if !pool.is_empty() => g::choose(u, pool).clone(),
        4 | 5 if !pool.is_empty() => {
            // proper prefix of a known key
            let k = g::choose(u, pool).clone();
            let n = g::range_usize(u, 0, k.len());
            k[..n].to_vec()
        }
        6 | 7 if !pool.is_empty() => {
            // extension of a known key
            let mut k = g::choose(u, pool).clone();
            let n = g::range_usize(u, 1, 3);
            for _ in 0..n {
                k.push(*g::choose(u, &ALPHABET));
            }
            k
        }
        8 => {
            // long key: stems longer than 63 nibbles
            let n = g::range_usize(u, 30, 300);
            let b = *g::choose(u, &ALPHABET);
            let mut k = vec![b; n];
            if n > 0 {
                let last = n - 1;
                k[last] = *g::choose(u, &ALPHABET);
            }
            k
        }
        9 => Vec::new(),
        11 if !pool.is_empty() => {
            // sibling of a known key that differs in the low nibble of the last byte only, with a
            // nibble that is not a bit-superset of the original one (ALPHABET alone only yields
            // siblings whose low nibbles are nested: 0/1/f, 0/1, 0/f), so that two single-nibble
            // leaves hang below a node whose key ends at an odd nibble
            let mut k = g::choose(u, pool).clone();
            if let Some(l) = k.last_mut() {
                let low = *l & 0x0f;
                let alt = [0x02u8, 0x04, 0x05, 0x0a, 0x0c][g::range_usize(u, 0, 4)];
                *l = (*l & 0xf0) | if alt == low { 0x09 } else { alt };
            } else {
                k.push(0x12);
            }
            k
        }
        _ => {
            let n = g::range_usize(u, 0, 12);
            (0..n).map(|_| *g::choose(u, &ALPHABET)).collect()
        }
    };
    if pool.len() < 64 && !pool.contains(&k) {
        pool.push(k.clone());
    }
    k
}

fn gen_value(u: &mut Unstructured) -> Vec<u8> {
    let n = match g::byte(u) % 10 {
        0 => 0,
        1 => 1,
        2 => 63,
        3 => 64,
        4 => 65,
        5 => g::range_usize(u, 66, 1100),
        _ => g::range_usize(u, 0, 8),
    };
    let b = g::byte(u);
    (0..n).map(|i| b.wrapping_add(i as u8)).collect()
}

pub fn decode_history(u: &mut Unstructured, max_ops: usize, w: Weights) -> Vec<Op> {
    let n = g::range_usize(u, 1, max_ops);
    let mut pool: Vec<Vec<u8>> = Vec::new();
    let mut ops = Vec::with_capacity(n);
    let total = w.modify as u32 + w.read as u32 + w.iter as u32 + w.gens as u32 + w.persist as u32 + w.handles as u32;
    if w.iter >= 30 {
        // iterator-heavy histories start from a populated state
        let pre = g::range_usize(u, 2, 8);
        for _ in 0..pre {
            ops.push(Op::Insert(gen_key(u, &mut pool), gen_value(u)));
        }
    }
    for _ in 0..n {
        if u.is_empty() {
            break;
        }
        let r = (g::byte(u) as u32 * total) / 256;
        let mut acc = w.modify as u32;
        let op = if r < acc {
            match g::byte(u) % 10 {
                0..=3 => Op::Insert(gen_key(u, &mut pool), gen_value(u)),
                4 => Op::Set(gen_key(u, &mut pool), gen_value(u)),
                5 => {
                    let m = match g::byte(u) % 4 {
                        0 => Mutation::Overwrite(gen_value(u)),
                        1 => Mutation::Truncate(g::range_usize(u, 0, 70)),
                        2 => Mutation::Extend(gen_value(u)),
                        _ => Mutation::Clear,
                    };
                    Op::Mutate(gen_key(u, &mut pool), m)
                }
                6..=8 => Op::Delete(gen_key(u, &mut pool)),
                _ => Op::DeletePrefix(gen_key(u, &mut pool)),
            }
        } else if {
            acc += w.read as u32;
            r < acc
        } {
            if g::ratio(u, 1, 4) {
                Op::Scan
            } else {
                Op::Get(gen_key(u, &mut pool))
            }
        } else if {
            acc += w.iter as u32;
            r < acc
        } {
            match g::byte(u) % 8 {
                0..=2 => {
                    // mostly a (possibly improper) prefix of a known key, so that the iterator exists
                    if !pool.is_empty() && g::ratio(u, 3, 4) {
                        let k = g::choose(u, &pool).clone();
                        let n = g::range_usize(u, 0, k.len());
                        Op::Iter(k[..n].to_vec())
                    } else {
                        Op::Iter(gen_key(u, &mut pool))
                    }
                }
                3..=5 => Op::Next(g::byte(u) as usize, g::range_usize(u, 1, 5)),
                _ => Op::DelIter(g::byte(u) as usize),
            }
        } else if {
            acc += w.gens as u32;
            r < acc
        } {
            if g::boolean(u) {
                Op::NewGeneration
            } else {
                Op::Normalize(g::byte(u) as usize)
            }
        } else if {
            acc += w.persist as u32;
            r < acc
        } {
            let b = g::byte(u);
            Op::Persist { store: b & 1 != 0, reload: b & 2 != 0, cache: b & 4 != 0, serialize: b & 24 == 24, migrate: b & 96 == 96 }
        } else if g::boolean(u) {
            Op::KeepHandle(gen_key(u, &mut pool))
        } else {
            Op::UseHandle(g::byte(u) as usize)
        };
        ops.push(op);
    }
    ops
}

#[derive(Clone, Default)]
struct GenModel {
    map:   Map,
    locks: BTreeMap<Vec<u8>, u32>,
}

impl GenModel {
    /// Is a modification (insert/delete) of `key` refused? Yes iff some locked prefix is a prefix of key.
    fn locked_for_key(&self, key: &[u8]) -> bool { self.locks.keys().any(|p| key.starts_with(p)) }

    /// Is `delete_prefix(p)` refused? Yes iff a lock is a prefix of p or extends p.
    fn locked_for_prefix(&self, p: &[u8]) -> bool { self.locks.keys().any(|l| p.starts_with(l) || l.starts_with(p)) }
}

struct LiveIter {
    it:       VerifIterator,
    prefix:   Vec<u8>,
    snapshot: Vec<Vec<u8>>,
    pos:      usize,
    gen:      usize,
}

struct Handle {
    entry: EntryId,
    key:   Vec<u8>,
    gen:   usize,
    /// number of deletions of `key` (in this generation) when the handle was taken
    epoch: u64,
}

#[derive(Debug, Clone, Copy)]
pub struct Oracles {
    pub contents: bool,
    pub hash:     bool,
    pub locks:    bool,
}

pub struct Exec {
    trie:     MutableTrie,
    store:    Vec<u8>,
    gens:     Vec<GenModel>,
    iters:    Vec<LiveIter>,
    handles:  Vec<Handle>,
    /// per generation: number of deletions per key (to know whether a handle went stale)
    delete_epochs: Vec<BTreeMap<Vec<u8>, u64>>,
    used:     Vec<Vec<u8>>,
    /// the persistent state the current trie was derived from, with its expected contents
    base:     Option<(PersistentState, Map, Vec<u8>)>,
    or:       Oracles,
    // classification facts
    pub f_removed_existing: bool,
    pub f_read_after_remove: bool,
    pub f_prefix_pair: bool,
    pub f_odd_split: bool,
    pub f_rollback_after_mod: bool,
    pub f_thaw_stored: bool,
    pub f_indirect_rewritten: bool,
    pub f_refused: u32,
    pub f_allowed_while_locked: u32,
    pub f_max_live_iters: usize,
    pub f_nested_or_equal_iters: bool,
    pub f_iter_after_rollback: bool,
    pub f_stale_handle: u32,
    pub f_persist_reload_modified: bool,
    pub f_persist_steps: u32,
    dirty_since_gen: bool,
}

fn loader(store: &[u8]) -> Loader<&[u8]> { Loader::new(store) }

impl Exec {
    pub fn new(or: Oracles) -> Self {
        Exec {
            trie: MutableTrie::empty(),
            store: Vec::new(),
            gens: vec![GenModel::default()],
            iters: Vec::new(),
            handles: Vec::new(),
            delete_epochs: vec![BTreeMap::new()],
            used: Vec::new(),
            base: None,
            or,
            f_removed_existing: false,
            f_read_after_remove: false,
            f_prefix_pair: false,
            f_odd_split: false,
            f_rollback_after_mod: false,
            f_thaw_stored: false,
            f_indirect_rewritten: false,
            f_refused: 0,
            f_allowed_while_locked: 0,
            f_max_live_iters: 0,
            f_nested_or_equal_iters: false,
            f_iter_after_rollback: false,
            f_stale_handle: 0,
            f_persist_reload_modified: false,
            f_persist_steps: 0,
            dirty_since_gen: false,
        }
    }

    fn cur(&self) -> &GenModel { self.gens.last().unwrap() }

    fn cur_mut(&mut self) -> &mut GenModel { self.gens.last_mut().unwrap() }

    fn note_key(&mut self, k: &[u8]) {
        if !self.used.iter().any(|x| x == k) && self.used.len() < 200 {
            // prefix relations / odd-nibble splits among used keys
            for o in &self.used {
                let common = o.iter().zip(k.iter()).take_while(|(a, b)| a == b).count();
                if common == o.len().min(k.len()) && o.len() != k.len() {
                    self.f_prefix_pair = true;
                } else if common < o.len().min(k.len()) {
                    self.f_prefix_pair = self.f_prefix_pair || common > 0;
                    // split inside a byte (after its high nibble) = odd nibble position
                    if o[common] >> 4 == k[common] >> 4 {
                        self.f_odd_split = true;
                    }
                }
            }
            self.used.push(k.to_vec());
        }
    }

    fn bump_delete_epoch(&mut self, key: &[u8]) {
        let m = self.delete_epochs.last_mut().unwrap();
        *m.entry(key.to_vec()).or_insert(0) += 1;
    }

    fn delete_epoch(&self, key: &[u8]) -> u64 { self.delete_epochs.last().unwrap().get(key).copied().unwrap_or(0) }

    fn any_lock(&self) -> bool { !self.cur().locks.is_empty() }

    pub fn step(&mut self, op: &Op) -> CheckResult {
        let gi = self.gens.len() - 1;
        match op {
            Op::Insert(k, v) => {
                self.note_key(k);
                let locked = self.cur().locked_for_key(k);
                let existed = self.cur().map.contains_key(k);
                let r = self.trie.insert(&mut loader(&self.store), k, v.clone());
                match r {
                    Err(_) => {
                        vensure!(
                            !self.or.locks || locked,
                            "spurious-lock-refusal",
                            "insert of key {} refused although no live iterator's prefix covers it (locks {:?})",
                            g::hex(k),
                            self.lock_list()
                        );
                        self.f_refused += 1;
                    }
                    Ok((_, ex)) => {
                        vensure!(
                            !self.or.locks || !locked,
                            "lock-not-enforced",
                            "insert of key {} succeeded although a live iterator locks a prefix of it (locks {:?})",
                            g::hex(k),
                            self.lock_list()
                        );
                        if locked {
                            // (only reachable when the lock oracle is off) keep the model in sync
                        }
                        vensure!(!self.or.contents || ex == existed, "insert-existed", "insert of {} reported existed={} but model says {}", g::hex(k), ex, existed);
                        if existed && self.cur().map[k].len() > 64 {
                            self.f_indirect_rewritten = true;
                        }
                        self.cur_mut().map.insert(k.clone(), v.clone());
                        self.dirty_since_gen = true;
                        if self.any_lock() {
                            self.f_allowed_while_locked += 1;
                        }
                    }
                }
            }
            Op::Get(k) => {
                self.note_key(k);
                let e = self.trie.get_entry(&mut loader(&self.store), k);
                let expect = self.cur().map.get(k).cloned();
                let got = e.and_then(|e| self.trie.with_entry(e, &mut loader(&self.store), |b| b.to_vec()));
                vensure!(
                    !self.or.contents || got == expect,
                    "lookup",
                    "lookup of {}: state has {:?}, model has {:?}",
                    g::hex(k),
                    got.as_ref().map(|v| v.len()),
                    expect.as_ref().map(|v| v.len())
                );
                if self.f_removed_existing {
                    self.f_read_after_remove = true;
                }
            }
            Op::Set(k, v) => {
                self.note_key(k);
                let e = self.trie.get_entry(&mut loader(&self.store), k);
                let exists = self.cur().map.contains_key(k);
                vensure!(!self.or.contents || e.is_some() == exists, "get-entry", "get_entry({}) = {:?}, model exists = {}", g::hex(k), e.is_some(), exists);
                if let Some(e) = e {
                    let r = self.trie.set(e, v.clone()).is_some();
                    vensure!(!self.or.contents || r, "set", "set on a live entry for {} failed", g::hex(k));
                    if exists {
                        if self.cur().map[k].len() > 64 {
                            self.f_indirect_rewritten = true;
                        }
                        self.cur_mut().map.insert(k.clone(), v.clone());
                        self.dirty_since_gen = true;
                        if self.any_lock() {
                            self.f_allowed_while_locked += 1;
                        }
                    }
                }
            }
            Op::Mutate(k, m) => {
                self.note_key(k);
                let e = self.trie.get_entry(&mut loader(&self.store), k);
                let exists = self.cur().map.contains_key(k);
                vensure!(!self.or.contents || e.is_some() == exists, "get-entry", "get_entry({}) = {:?}, model exists = {}", g::hex(k), e.is_some(), exists);
                if let (Some(e), true) = (e, exists) {
                    let st = self.store.clone();
                    let slot = self.trie.verif_get_mut(e, &mut loader(&st));
                    let Some(slot) = slot else {
                        return Err(Violation::new("get-mut", format!("get_mut on a live entry for {} returned nothing", g::hex(k))));
                    };
                    let model = self.gens.last_mut().unwrap().map.get_mut(k).unwrap();
                    vensure!(!self.or.contents || *slot == *model, "get-mut", "get_mut({}) exposes {} bytes, model has {}", g::hex(k), slot.len(), model.len());
                    if model.len() > 64 {
                        self.f_indirect_rewritten = true;
                    }
                    match m {
                        Mutation::Overwrite(v) => {
                            *slot = v.clone();
                            *model = v.clone();
                        }
                        Mutation::Truncate(n) => {
                            slot.truncate(*n);
                            model.truncate(*n);
                        }
                        Mutation::Extend(v) => {
                            slot.extend_from_slice(v);
                            model.extend_from_slice(v);
                        }
                        Mutation::Clear => {
                            slot.clear();
                            model.clear();
                        }
                    }
                    self.dirty_since_gen = true;
                }
            }
            Op::Delete(k) => {
                self.note_key(k);
                let locked = self.cur().locked_for_key(k);
                let existed = self.cur().map.contains_key(k);
                let r = self.trie.delete(&mut loader(&self.store), k);
                match r {
                    Err(_) => {
                        vensure!(!self.or.locks || locked, "spurious-lock-refusal", "delete of {} refused without a covering lock (locks {:?})", g::hex(k), self.lock_list());
                        self.f_refused += 1;
                    }
                    Ok(ex) => {
                        vensure!(!self.or.locks || !locked, "lock-not-enforced", "delete of {} succeeded under a live iterator (locks {:?})", g::hex(k), self.lock_list());
                        vensure!(!self.or.contents || ex == existed, "delete-existed", "delete of {} returned {} but model says existed={}", g::hex(k), ex, existed);
                        if existed {
                            self.cur_mut().map.remove(k);
                            self.bump_delete_epoch(k);
                            self.f_removed_existing = true;
                            self.dirty_since_gen = true;
                        }
                        if self.any_lock() {
                            self.f_allowed_while_locked += 1;
                        }
                    }
                }
            }
            Op::DeletePrefix(p) => {
                self.note_key(p);
                let locked = self.cur().locked_for_prefix(p);
                let victims: Vec<Vec<u8>> = keys_with_prefix(&self.cur().map, p).into_iter().cloned().collect();
                let r = self.trie.verif_delete_prefix(&mut loader(&self.store), p);
                match r {
                    Err(_) => {
                        vensure!(!self.or.locks || locked, "spurious-lock-refusal", "delete_prefix({}) refused without an overlapping lock (locks {:?})", g::hex(p), self.lock_list());
                        self.f_refused += 1;
                    }
                    Ok(any) => {
                        vensure!(!self.or.locks || !locked, "lock-not-enforced", "delete_prefix({}) succeeded although a live iterator's prefix overlaps it (locks {:?})", g::hex(p), self.lock_list());
                        vensure!(
                            !self.or.contents || any == !victims.is_empty(),
                            "delete-prefix-result",
                            "delete_prefix({}) returned {} but the model has {} keys under it",
                            g::hex(p),
                            any,
                            victims.len()
                        );
                        for v in &victims {
                            self.cur_mut().map.remove(v);
                            self.bump_delete_epoch(v);
                        }
                        if !victims.is_empty() {
                            self.f_removed_existing = true;
                            self.dirty_since_gen = true;
                        }
                        if self.any_lock() {
                            self.f_allowed_while_locked += 1;
                        }
                    }
                }
            }
            Op::Iter(p) => {
                self.note_key(p);
                if self.iters.len() >= 6 {
                    return Ok(());
                }
                let snapshot: Vec<Vec<u8>> = keys_with_prefix(&self.cur().map, p).into_iter().cloned().collect();
                let r = self.trie.verif_iter(&mut loader(&self.store), p);
                match r {
                    Err(_) => return Err(Violation::new("iter", "too many iterators reported with fewer than 7 live")),
                    Ok(None) => {
                        vensure!(
                            !self.or.contents || snapshot.is_empty(),
                            "iter-none",
                            "iter({}) found nothing but the model has {} keys under the prefix",
                            g::hex(p),
                            snapshot.len()
                        );
                    }
                    Ok(Some(it)) => {
                        vensure!(
                            !self.or.contents || !snapshot.is_empty(),
                            "iter-some",
                            "iter({}) returned an iterator but the model has no key under the prefix",
                            g::hex(p)
                        );
                        for o in self.iters.iter().filter(|o| o.gen == gi) {
                            if o.prefix.starts_with(p) || p.starts_with(&o.prefix) {
                                self.f_nested_or_equal_iters = true;
                            }
                        }
                        *self.cur_mut().locks.entry(p.clone()).or_insert(0) += 1;
                        self.iters.push(LiveIter { it, prefix: p.clone(), snapshot, pos: 0, gen: gi });
                        let live = self.iters.iter().filter(|o| o.gen == gi).count();
                        self.f_max_live_iters = self.f_max_live_iters.max(live);
                    }
                }
            }
            Op::Next(i, n) => {
                let usable: Vec<usize> = self.iters.iter().enumerate().filter(|(_, o)| o.gen == gi).map(|(x, _)| x).collect();
                if usable.is_empty() {
                    return Ok(());
                }
                let idx = usable[i % usable.len()];
                for _ in 0..*n {
                    let st = &self.store;
                    let li = &mut self.iters[idx];
                    let e = self.trie.verif_next(&mut loader(st), &mut li.it);
                    let expect = li.snapshot.get(li.pos).cloned();
                    match (e, expect) {
                        (None, None) => break,
                        (Some(e), Some(k)) => {
                            let got_key = li.it.get_key().to_vec();
                            vensure!(
                                got_key == k,
                                "iterator-order",
                                "iterator over {} yielded key {} but the {}-th key of its creation-time snapshot is {}",
                                g::hex(&li.prefix),
                                g::hex(&got_key),
                                li.pos,
                                g::hex(&k)
                            );
                            li.pos += 1;
                            let val = self.trie.with_entry(e, &mut loader(st), |b| b.to_vec());
                            let model = self.gens[gi].map.get(&k).cloned();
                            vensure!(
                                !self.or.contents || val == model,
                                "iterator-value",
                                "iterator over {} at key {}: value {:?} bytes, model {:?} bytes",
                                g::hex(&li.prefix),
                                g::hex(&k),
                                val.as_ref().map(|v| v.len()),
                                model.as_ref().map(|v| v.len())
                            );
                        }
                        (None, Some(k)) => {
                            return Err(Violation::new(
                                "iterator-missing",
                                format!("iterator over {} ended after {} keys; snapshot still has {}", g::hex(&li.prefix), li.pos, g::hex(&k)),
                            ))
                        }
                        (Some(_), None) => {
                            return Err(Violation::new(
                                "iterator-extra",
                                format!("iterator over {} yielded key {} beyond its creation-time snapshot of {} keys", g::hex(&li.prefix), g::hex(li.it.get_key()), li.snapshot.len()),
                            ))
                        }
                    }
                }
            }
            Op::DelIter(i) => {
                let usable: Vec<usize> = self.iters.iter().enumerate().filter(|(_, o)| o.gen == gi).map(|(x, _)| x).collect();
                if usable.is_empty() {
                    return Ok(());
                }
                let idx = usable[i % usable.len()];
                let li = self.iters.remove(idx);
                let r = self.trie.verif_delete_iter(&li.it);
                vensure!(!self.or.locks || r, "delete-iter", "delete_iter of a live iterator over {} returned false", g::hex(&li.prefix));
                let locks = &mut self.cur_mut().locks;
                if let Some(c) = locks.get_mut(&li.prefix) {
                    *c -= 1;
                    if *c == 0 {
                        locks.remove(&li.prefix);
                    }
                }
            }
            Op::KeepHandle(k) => {
                if self.handles.len() >= 8 {
                    self.handles.remove(0);
                }
                if let Some(e) = self.trie.get_entry(&mut loader(&self.store), k) {
                    let epoch = self.delete_epoch(k);
                    self.handles.push(Handle { entry: e, key: k.clone(), gen: gi, epoch });
                }
            }
            Op::UseHandle(i) => {
                let usable: Vec<usize> = self.handles.iter().enumerate().filter(|(_, h)| h.gen == gi).map(|(x, _)| x).collect();
                if usable.is_empty() {
                    return Ok(());
                }
                let h = &self.handles[usable[i % usable.len()]];
                let stale = self.delete_epoch(&h.key) != h.epoch;
                let got = self.trie.with_entry(h.entry, &mut loader(&self.store), |b| b.to_vec());
                if stale {
                    self.f_stale_handle += 1;
                    vensure!(
                        !self.or.locks || got.is_none(),
                        "stale-handle",
                        "handle to the entry of key {} taken before the key was deleted still exposes {} bytes",
                        g::hex(&h.key),
                        got.as_ref().map(|v| v.len()).unwrap_or(0)
                    );
                    let entry = h.entry;
                    let set = self.trie.set(entry, vec![0xee]).is_some();
                    vensure!(!self.or.locks || !set, "stale-handle", "set through a handle to a deleted entry succeeded");
                    let st = self.store.clone();
                    let gm = self.trie.verif_get_mut(entry, &mut loader(&st)).is_some();
                    vensure!(!self.or.locks || !gm, "stale-handle", "get_mut through a handle to a deleted entry succeeded");
                } else {
                    let model = self.cur().map.get(&h.key).cloned();
                    vensure!(
                        !self.or.contents || got == model,
                        "handle-read",
                        "handle for key {} reads {:?} bytes, model has {:?}",
                        g::hex(&h.key),
                        got.as_ref().map(|v| v.len()),
                        model.as_ref().map(|v| v.len())
                    );
                }
            }
            Op::NewGeneration => {
                if self.gens.len() >= 6 {
                    return Ok(());
                }
                self.trie.verif_new_generation();
                let map = self.cur().map.clone();
                self.gens.push(GenModel { map, locks: BTreeMap::new() });
                self.delete_epochs.push(BTreeMap::new());
                self.dirty_since_gen = false;
            }
            Op::Normalize(gsel) => {
                let target = gsel % self.gens.len();
                if target + 1 < self.gens.len() && self.dirty_since_gen {
                    self.f_rollback_after_mod = true;
                }
                self.trie.verif_normalize(target as u32);
                self.gens.truncate(target + 1);
                self.delete_epochs.truncate(target + 1);
                self.iters.retain(|o| o.gen <= target);
                self.handles.retain(|h| h.gen <= target);
                if self.iters.iter().any(|o| o.gen == target) && gi != target {
                    self.f_iter_after_rollback = true;
                }
                vensure!(
                    self.trie.verif_num_generations() == target + 1,
                    "normalize",
                    "after normalize({}) the trie has {} generations",
                    target,
                    self.trie.verif_num_generations()
                );
                self.scan("after-rollback")?;
            }
            Op::Persist { store, reload, cache, serialize, migrate } => self.persist(*store, *reload, *cache, *serialize, *migrate)?,
            Op::Scan => self.scan("scan")?,
        }
        Ok(())
    }

    fn lock_list(&self) -> Vec<String> { self.cur().locks.iter().map(|(k, c)| format!("{}x{}", g::hex(k), c)).collect() }

    /// Full ascending scan through a fresh iterator over the empty prefix plus point lookups of
    /// all keys ever used; compare with the model of the current generation.
    pub fn scan(&mut self, what: &str) -> CheckResult {
        if !self.or.contents {
            return Ok(());
        }
        let gi = self.gens.len() - 1;
        let st = self.store.clone();
        let it = self.trie.verif_iter(&mut loader(&st), &[]);
        let expect: Vec<(&Vec<u8>, &Vec<u8>)> = self.gens[gi].map.iter().collect();
        match it {
            Err(_) => return Err(Violation::new("scan", "iterator creation failed")),
            Ok(None) => {
                vensure!(expect.is_empty(), "scan", "{what}: state is empty but the model has {} keys", expect.len());
            }
            Ok(Some(mut it)) => {
                let mut i = 0;
                while let Some(e) = self.trie.verif_next(&mut loader(&st), &mut it) {
                    let k = it.get_key().to_vec();
                    let v = self.trie.with_entry(e, &mut loader(&st), |b| b.to_vec());
                    match expect.get(i) {
                        None => {
                            return Err(Violation::new("scan", format!("{what}: state yields extra key {} beyond the model's {} keys", g::hex(&k), expect.len())))
                        }
                        Some((mk, mv)) => {
                            vensure!(
                                **mk == k,
                                "scan-order",
                                "{what}: {}-th key of the ascending scan is {} but the model's {}-th key is {}",
                                i,
                                g::hex(&k),
                                i,
                                g::hex(mk)
                            );
                            vensure!(v.as_ref() == Some(*mv), "scan-value", "{what}: key {}: value differs from the model", g::hex(&k));
                        }
                    }
                    i += 1;
                }
                self.trie.verif_delete_iter(&it);
                vensure!(i == expect.len(), "scan", "{what}: scan yielded {} keys, model has {}", i, expect.len());
            }
        }
        for k in self.used.clone() {
            let e = self.trie.get_entry(&mut loader(&st), &k);
            let got = e.and_then(|e| self.trie.with_entry(e, &mut loader(&st), |b| b.to_vec()));
            let model = self.gens[gi].map.get(&k).cloned();
            vensure!(got == model, "lookup", "{what}: lookup of {} disagrees with the model", g::hex(&k));
        }
        // the persistent state this trie was thawed from must be untouched
        if let Some((ps, map, bstore)) = &self.base {
            let mut l = Loader::new(&bstore[..]);
            let got: Vec<(Vec<u8>, Vec<u8>)> = ps.clone().into_iterator(&mut l).collect();
            let want: Vec<(Vec<u8>, Vec<u8>)> = map.iter().map(|(k, v)| (k.clone(), v.clone())).collect();
            vensure!(got == want, "persistent-leak", "{what}: the persistent state the trie was derived from changed ({} keys, expected {})", got.len(), want.len());
        }
        Ok(())
    }

    fn check_ps(&self, what: &str, ps: &PersistentState, store: &[u8], map: &Map) -> CheckResult {
        let mut l = Loader::new(store);
        if self.or.hash {
            let h = ps.hash(&mut l);
            let want = reference_hash(map);
            vensure!(
                h.as_ref() == want,
                "state-hash",
                "{what}: state hash {} differs from the documented hash {} of its {} key-value pairs",
                g::hex(h.as_ref()),
                g::hex(&want),
                map.len()
            );
        }
        let got: Vec<(Vec<u8>, Vec<u8>)> = ps.clone().into_iterator(&mut l).collect();
        let want: Vec<(Vec<u8>, Vec<u8>)> = map.iter().map(|(k, v)| (k.clone(), v.clone())).collect();
        if got != want {
            let i = got.iter().zip(want.iter()).position(|(a, b)| a != b).unwrap_or(got.len().min(want.len()));
            return Err(Violation::new(
                "persistent-contents",
                format!("{what}: contents differ from the model at position {i}: state has {} pairs, model {}", got.len(), want.len()),
            ));
        }
        for k in &self.used {
            let v = ps.lookup(&mut l, k);
            vensure!(v.as_ref() == map.get(k), "persistent-lookup", "{what}: lookup of {} disagrees with the model", g::hex(k));
        }
        Ok(())
    }

    fn persist(&mut self, store: bool, reload: bool, cache: bool, serialize: bool, migrate: bool) -> CheckResult {
        // collapse to the current generation
        let map = self.cur().map.clone();
        if self.base.as_ref().map(|b| b.1 != map).unwrap_or(false) && self.f_thaw_stored {
            self.f_persist_reload_modified = true;
        }
        let trie = std::mem::replace(&mut self.trie, MutableTrie::empty());
        let mut collector = SizeCollector::default();
        let st0 = self.store.clone();
        let root = trie.freeze(&mut loader(&st0), &mut collector);
        let collected = collector.collect();
        let mut ps = match root {
            Some(r) => PersistentState::from(r),
            None => PersistentState::Empty,
        };
        vensure!(
            !self.or.contents || matches!(ps, PersistentState::Empty) == map.is_empty(),
            "freeze-empty",
            "freeze produced an empty state = {}, model empty = {}",
            matches!(ps, PersistentState::Empty),
            map.is_empty()
        );
        self.check_ps("after freeze", &ps, &st0, &map)?;
        if self.or.hash {
            // an upper bound: never more than building the whole state from scratch would cost
            let full: u64 = {
                let mut l = Loader::new(Vec::<u8>::new());
                let mut c = SizeCollector::default();
                let mut t = MutableTrie::empty();
                for (k, v) in &map {
                    let _ = t.insert(&mut l, k, v.clone());
                }
                let _ = t.freeze(&mut l, &mut c);
                c.collect()
            };
            vensure!(
                collected <= full,
                "collector-bound",
                "freeze charged {} bytes of new data, more than a full rebuild of the state ({} bytes)",
                collected,
                full
            );
        }
        self.f_persist_steps += 1;
        let mut cur_store = st0;
        if store {
            let reference: Reference = ps
                .store_update(&mut cur_store)
                .map_err(|e| Violation::new("store", format!("store_update failed: {e:?}")))?;
            self.check_ps("after store_update", &ps, &cur_store, &map)?;
            self.f_persist_steps += 1;
            if reload {
                let mut l = Loader::new(&cur_store[..]);
                ps = PersistentState::load_from_location(&mut l, reference)
                    .map_err(|e| Violation::new("load", format!("load_from_location failed: {e:?}")))?;
                self.check_ps("after reload", &ps, &cur_store, &map)?;
                self.f_thaw_stored = true;
                self.f_persist_steps += 1;
            }
        }
        if cache {
            let mut l = Loader::new(&cur_store[..]);
            ps.cache(&mut l);
            self.check_ps("after cache", &ps, &cur_store, &map)?;
            self.f_persist_steps += 1;
        }
        if serialize {
            let mut out = Vec::new();
            ps.serialize(&mut Loader::new(&cur_store[..]), &mut out)
                .map_err(|e| Violation::new("serialize", format!("serialize failed: {e:#}")))?;
            let ps2 = PersistentState::deserialize(&mut std::io::Cursor::new(&out))
                .map_err(|e| Violation::new("deserialize", format!("deserialize of serialize output failed: {e:#}")))?;
            // the deserialized state is entirely in memory
            self.check_ps("after serialize/deserialize", &ps2, &[], &map)?;
            let mut out2 = Vec::new();
            ps2.serialize(&mut Loader::new(Vec::<u8>::new()), &mut out2)
                .map_err(|e| Violation::new("serialize", format!("re-serialize failed: {e:#}")))?;
            vensure!(out == out2, "serialize-stable", "serialize(deserialize(serialize(s))) differs from serialize(s)");
            self.f_persist_steps += 1;
            // continue with the deserialized (purely in-memory) state
            ps = ps2;
            cur_store = Vec::new();
        }
        if migrate {
            let mut new_store: Vec<u8> = Vec::new();
            let migrated = ps
                .migrate(&mut new_store, &mut Loader::new(&cur_store[..]))
                .map_err(|e| Violation::new("migrate", format!("migrate failed: {e:?}")))?;
            // must be readable from the new store alone
            self.check_ps("after migrate (new store only)", &migrated, &new_store, &map)?;
            ps = migrated;
            cur_store = new_store;
            self.f_persist_steps += 1;
        }
        // refreeze of an unmodified thawed state reports no new data
        if self.or.hash {
            let mut l = Loader::new(&cur_store[..]);
            let mut ms = ps.thaw();
            {
                let inner = ms.get_inner(&mut l);
                let mut t = inner.lock();
                // reads do not count as modifications
                for k in self.used.iter().take(4) {
                    let _ = t.get_entry(&mut l, k);
                }
            }
            let mut c = SizeCollector::default();
            let again = ms.freeze(&mut l, &mut c);
            let n = c.collect();
            vensure!(n == 0, "refreeze-unmodified", "refreezing an unmodified thawed state reports {} bytes of new data", n);
            self.check_ps("after unmodified refreeze", &again, &cur_store, &map)?;
        }
        // continue on a trie thawed from the persistent state
        self.store = cur_store;
        self.trie = ps.clone().into_trie(&mut loader(&self.store));
        self.base = Some((ps, map.clone(), self.store.clone()));
        self.gens = vec![GenModel { map, locks: BTreeMap::new() }];
        self.delete_epochs = vec![BTreeMap::new()];
        self.iters.clear();
        self.handles.clear();
        self.dirty_since_gen = false;
        Ok(())
    }

    /// Final checks: scan + (if enabled) hash of the frozen final state.
    pub fn finish(mut self) -> CheckResult {
        self.scan("final")?;
        if self.or.hash {
            let map = self.cur().map.clone();
            let trie = std::mem::replace(&mut self.trie, MutableTrie::empty());
            let st = self.store.clone();
            let root = trie.freeze(&mut loader(&st), &mut EmptyCollector);
            let ps = match root {
                Some(r) => PersistentState::from(r),
                None => PersistentState::Empty,
            };
            self.check_ps("final freeze", &ps, &st, &map)?;
        }
        Ok(())
    }

    pub fn model_map(&self) -> &Map { &self.cur().map }
}

pub fn describe(ops: &[Op]) -> String {
    let mut s = String::new();
    for (i, op) in ops.iter().enumerate() {
        let line = match op {
            Op::Insert(k, v) => format!("insert {} <- {} bytes", g::hex(k), v.len()),
            Op::Get(k) => format!("get {}", g::hex(k)),
            Op::Set(k, v) => format!("set {} <- {} bytes", g::hex(k), v.len()),
            Op::Mutate(k, m) => format!("mutate {} {:?}", g::hex(k), match m {
                Mutation::Overwrite(v) => format!("overwrite {} bytes", v.len()),
                Mutation::Truncate(n) => format!("truncate {}", n),
                Mutation::Extend(v) => format!("extend {} bytes", v.len()),
                Mutation::Clear => "clear".into(),
            }),
            Op::Delete(k) => format!("delete {}", g::hex(k)),
            Op::DeletePrefix(k) => format!("delete_prefix {}", g::hex(k)),
            Op::Iter(k) => format!("iter {}", g::hex(k)),
            Op::Next(i, n) => format!("next iterator#{} x{}", i, n),
            Op::DelIter(i) => format!("delete_iter iterator#{}", i),
            Op::KeepHandle(k) => format!("keep_handle {}", g::hex(k)),
            Op::UseHandle(i) => format!("use_handle #{}", i),
            other => format!("{:?}", other),
        };
        s.push_str(&format!("{:3}: {}\n", i, line));
    }
    s
}

/// Run a whole history; returns the executor for classification.
pub fn run_history(ops: &[Op], or: Oracles, ctx: &mut Ctx) -> Result<Exec, Violation> {
    ctx.describe(|| describe(ops));
    let mut ex = Exec::new(or);
    for (i, op) in ops.iter().enumerate() {
        ex.step(op).map_err(|mut v| {
            v.detail = format!("at step {}: {}", i, v.detail);
            v
        })?;
        if or.contents && i % 16 == 15 {
            ex.scan("periodic")?;
        }
    }
    Ok(ex)
}
