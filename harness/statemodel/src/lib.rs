//! Ordered-map model of the v1 contract state and an independent transcription of the
//! documented state hash: the Merkle hash over the canonical compressed radix tree (nibble
//! alphabet) of the key-value contents. Shares no code with `/repo`.
use sha2::{Digest, Sha256};
use std::collections::BTreeMap;

pub type Map = BTreeMap<Vec<u8>, Vec<u8>>;

fn nibbles(key: &[u8]) -> Vec<u8> {
    let mut v = Vec::with_capacity(key.len() * 2);
    for b in key {
        v.push(b >> 4);
        v.push(b & 0x0f);
    }
    v
}

/// H(value) = SHA256(BE64(len) || bytes)
pub fn value_hash(v: &[u8]) -> [u8; 32] {
    let mut h = Sha256::new();
    h.update((v.len() as u64).to_be_bytes());
    h.update(v);
    h.finalize().into()
}

fn pack(path: &[u8]) -> Vec<u8> {
    let mut out = Vec::with_capacity(path.len().div_ceil(2));
    for c in path.chunks(2) {
        out.push((c[0] << 4) | c.get(1).copied().unwrap_or(0));
    }
    out
}

/// Hash of the subtree holding `keys` (sorted, all sharing their first `depth` nibbles).
fn node_hash(keys: &[(Vec<u8>, &Vec<u8>)], depth: usize) -> [u8; 32] {
    let first = &keys[0].0;
    let last = &keys[keys.len() - 1].0;
    // longest common prefix of all keys beyond depth = lcp(first, last) since sorted
    let mut lcp = 0;
    while depth + lcp < first.len() && depth + lcp < last.len() && first[depth + lcp] == last[depth + lcp] {
        lcp += 1;
    }
    let path = &first[depth..depth + lcp];
    let split = depth + lcp;
    let (value, rest) = if first.len() == split { (Some(keys[0].1), &keys[1..]) } else { (None, keys) };
    let mut h = Sha256::new();
    match value {
        Some(v) => {
            h.update([1u8]);
            h.update(value_hash(v));
        }
        None => h.update([0u8]),
    }
    h.update((path.len() as u64).to_le_bytes());
    h.update(pack(path));
    // children grouped by the nibble at `split`
    let mut groups: Vec<(u8, &[(Vec<u8>, &Vec<u8>)])> = Vec::new();
    let mut i = 0;
    while i < rest.len() {
        let nib = rest[i].0[split];
        let mut j = i;
        while j < rest.len() && rest[j].0[split] == nib {
            j += 1;
        }
        groups.push((nib, &rest[i..j]));
        i = j;
    }
    let mut ch = Sha256::new();
    ch.update((groups.len() as u16).to_be_bytes());
    for (nib, grp) in groups {
        ch.update([nib]);
        ch.update(node_hash(grp, split + 1));
    }
    h.update(ch.finalize());
    h.finalize().into()
}

/// The documented hash of a contract state with the given contents.
pub fn reference_hash(map: &Map) -> [u8; 32] {
    if map.is_empty() {
        return Sha256::digest(b"empty contract state").into();
    }
    let keys: Vec<(Vec<u8>, &Vec<u8>)> = map.iter().map(|(k, v)| (nibbles(k), v)).collect();
    node_hash(&keys, 0)
}

/// Keys of the map with the given prefix, ascending.
pub fn keys_with_prefix<'a>(map: &'a Map, prefix: &[u8]) -> Vec<&'a Vec<u8>> {
    map.range(prefix.to_vec()..).take_while(|(k, _)| k.starts_with(prefix)).map(|(k, _)| k).collect()
}

#[cfg(test)]
mod tests {
    use super::*;
    #[test]
    fn empty() {
        let m = Map::new();
        assert_eq!(reference_hash(&m), <[u8; 32]>::from(Sha256::digest(b"empty contract state")));
    }
}
