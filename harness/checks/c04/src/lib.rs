//! C04: state hash is canonical; persistence preserves contents and hash.
use concordium_smart_contract_engine::v1::trie::{EmptyCollector, Loader, MutableTrie, PersistentState};
use statemodel::{reference_hash, Map};
use triecheck::{decode_history, run_history, Op, Oracles, ALPHABET, W_HASH};
use vcore::{gen as g, vensure, CheckResult, Ctx, Property, Target, Unstructured, Violation};

/// Random persistence schedules over one evolving state; the documented hash and the contents are
/// checked after every persistence step (inside triecheck).
fn t_persist(data: &[u8], ctx: &mut Ctx) -> CheckResult {
    let mut u = Unstructured::new(data);
    let ops = decode_history(&mut u, 60, W_HASH);
    let ex = run_history(&ops, Oracles { contents: true, hash: true, locks: false }, ctx)?;
    if ex.f_thaw_stored {
        ctx.class("reloaded-from-store");
    }
    if ex.f_persist_reload_modified {
        ctx.class("reload-modify-refreeze");
    }
    if ex.f_persist_steps >= 2 {
        ctx.class("two-or-more-persistence-steps");
    }
    let nt = ex.f_persist_reload_modified;
    let steps = ex.f_persist_steps;
    ex.finish()?;
    if nt {
        ctx.nontrivial(&ops);
    }
    ctx.sample(|| format!("{} operations, {} persistence steps:\n{}", ops.len(), steps, triecheck::describe(&ops[..ops.len().min(20)])));
    Ok(())
}

/// MutableState handles with checkpoints and (repeated) freezes; every frozen state must have the
/// documented hash of its generation's contents, a repeated freeze must return the same state.
fn t_mutable_state(data: &[u8], ctx: &mut Ctx) -> CheckResult {
    let mut u = Unstructured::new(data);
    let ops = triecheck::mstate::decode(&mut u, 40);
    let f = triecheck::mstate::run(&ops, true, ctx)?;
    if f.double_freeze {
        ctx.class("repeated-freeze");
    }
    if f.freeze_emptied {
        ctx.class("freeze-of-emptied-state");
    }
    if f.freezes >= 2 {
        ctx.nontrivial(&ops);
    }
    ctx.sample(|| format!("{} MutableState operations, {} freezes", ops.len(), f.freezes));
    Ok(())
}

fn freeze_hash(t: MutableTrie, store: &[u8]) -> ([u8; 32], PersistentState) {
    let mut l = Loader::new(store);
    let ps = match t.freeze(&mut l, &mut EmptyCollector) {
        Some(r) => PersistentState::from(r),
        None => PersistentState::Empty,
    };
    let h = ps.hash(&mut l);
    let mut out = [0u8; 32];
    out.copy_from_slice(h.as_ref());
    (out, ps)
}

/// One target map reached by several different histories: different insertion orders, detours
/// through extra keys that are deleted again (singly and by prefix), values rewritten, generations
/// rolled back, freeze/thaw cycles in between. All must hash to the documented hash of the map.
fn t_canonical(data: &[u8], ctx: &mut Ctx) -> CheckResult {
    let mut u = Unstructured::new(data);
    // target map
    let n = g::range_usize(&mut u, 0, 10);
    let mut pool: Vec<Vec<u8>> = Vec::new();
    let mut map = Map::new();
    for _ in 0..n {
        let k: Vec<u8> = if !pool.is_empty() && g::boolean(&mut u) {
            let mut k = g::choose(&mut u, &pool).clone();
            if g::boolean(&mut u) {
                let cut = g::range_usize(&mut u, 0, k.len());
                k.truncate(cut);
            } else {
                k.push(*g::choose(&mut u, &ALPHABET));
            }
            k
        } else {
            let len = g::range_usize(&mut u, 0, 6);
            (0..len).map(|_| *g::choose(&mut u, &ALPHABET)).collect()
        };
        pool.push(k.clone());
        let vl = *g::choose(&mut u, &[0usize, 1, 5, 63, 64, 65, 200]);
        let b = g::byte(&mut u);
        map.insert(k, vec![b; vl]);
    }
    let want = reference_hash(&map);
    let variants = g::range_usize(&mut u, 2, 4);
    let mut differ_order = false;
    let mut detours = 0;
    for variant in 0..variants {
        let mut keys: Vec<&Vec<u8>> = map.keys().collect();
        // permutation
        for i in (1..keys.len()).rev() {
            let j = g::range_usize(&mut u, 0, i);
            if i != j {
                differ_order = true;
            }
            keys.swap(i, j);
        }
        let mut store: Vec<u8> = Vec::new();
        let mut t = MutableTrie::empty();
        let mut trace = Vec::new();
        for k in keys {
            // optional detours before inserting k
            match g::byte(&mut u) % 8 {
                0 => {
                    // extra key extending k, deleted afterwards
                    let mut x = k.clone();
                    x.push(*g::choose(&mut u, &ALPHABET));
                    if !map.contains_key(&x) {
                        let _ = t.insert(&mut Loader::new(&store[..]), &x, vec![1, 2, 3]);
                        let _ = t.insert(&mut Loader::new(&store[..]), k, map[k].clone());
                        let _ = t.delete(&mut Loader::new(&store[..]), &x);
                        trace.push(Op::Insert(x.clone(), vec![1, 2, 3]));
                        trace.push(Op::Insert(k.clone(), map[k].clone()));
                        trace.push(Op::Delete(x));
                        detours += 1;
                        continue;
                    }
                }
                1 => {
                    // extra subtree removed by prefix; prefix must not cover any target key
                    let mut p = k.clone();
                    p.push(0x77);
                    let mut a = p.clone();
                    a.push(0x00);
                    let mut b = p.clone();
                    b.push(0xf0);
                    let _ = t.insert(&mut Loader::new(&store[..]), &a, vec![9; 70]);
                    let _ = t.insert(&mut Loader::new(&store[..]), &b, vec![]);
                    let _ = t.verif_delete_prefix(&mut Loader::new(&store[..]), &p);
                    trace.push(Op::Insert(a, vec![9; 70]));
                    trace.push(Op::Insert(b, vec![]));
                    trace.push(Op::DeletePrefix(p));
                    detours += 1;
                }
                2 => {
                    // wrong value first, then overwritten
                    let _ = t.insert(&mut Loader::new(&store[..]), k, vec![0xaa; 66]);
                    trace.push(Op::Insert(k.clone(), vec![0xaa; 66]));
                    detours += 1;
                }
                3 => {
                    // a generation that is rolled back
                    let gens = t.verif_num_generations();
                    t.verif_new_generation();
                    let _ = t.insert(&mut Loader::new(&store[..]), k, vec![0xbb]);
                    let mut x = k.clone();
                    x.push(0x10);
                    let _ = t.insert(&mut Loader::new(&store[..]), &x, vec![0xcc]);
                    t.verif_normalize(gens as u32 - 1);
                    trace.push(Op::NewGeneration);
                    trace.push(Op::Normalize(gens - 1));
                    detours += 1;
                }
                4 => {
                    // freeze / store / thaw in between
                    let st = store.clone();
                    let (_, mut ps) = freeze_hash(std::mem::replace(&mut t, MutableTrie::empty()), &st);
                    if g::boolean(&mut u) {
                        ps.store_update(&mut store).map_err(|e| Violation::new("store", format!("{e:?}")))?;
                    }
                    t = ps.into_trie(&mut Loader::new(&store[..]));
                    trace.push(Op::Persist { store: true, reload: false, cache: false, serialize: false, migrate: false });
                    detours += 1;
                }
                _ => {}
            }
            let _ = t.insert(&mut Loader::new(&store[..]), k, map[k].clone());
            trace.push(Op::Insert(k.clone(), map[k].clone()));
        }
        let (h, _) = freeze_hash(t, &store);
        ctx.describe(|| format!("target map {:?}\nvariant {variant}:\n{}", map.iter().map(|(k, v)| (g::hex(k), v.len())).collect::<Vec<_>>(), triecheck::describe(&trace)));
        vensure!(
            h == want,
            "canonical-hash",
            "history variant {} reaching a map of {} keys hashes to {}, the documented hash of these contents is {}",
            variant,
            map.len(),
            g::hex(&h),
            g::hex(&want)
        );
    }
    // from_iterator must agree as well
    let ps = PersistentState::from_iterator(map.iter().map(|(k, v)| (&k[..], v.clone())));
    let h = ps.hash(&mut Loader::new(Vec::<u8>::new()));
    vensure!(h.as_ref() == want, "canonical-hash", "from_iterator hash differs from the documented hash");
    if differ_order {
        ctx.class("different-orders");
    }
    if detours > 0 {
        ctx.class("with-detours");
    }
    if differ_order && detours > 0 {
        ctx.nontrivial(&(map.clone(), detours));
    }
    ctx.sample(|| format!("map with {} keys, {} variants, {} detours", map.len(), variants, detours));
    Ok(())
}

pub fn property() -> Property {
    Property {
        id: "C04",
        rule: "Target canonical: a target map of 0-10 keys (prefix-related keys over a 7-byte alphabet, values around the 64-byte inline limit) is built by 2-4 different histories (random insertion orders; detours through extra keys deleted again singly or by prefix, wrong values overwritten, generations rolled back, freeze/store/thaw in between) and by from_iterator; every result must hash to an independent transcription of the documented Merkle hash over the canonical compressed radix tree. Target persist: operation histories with frequent persistence steps (freeze, store_update, load_from_location, cache, serialize/deserialize, migrate to a fresh store, unmodified thaw+refreeze); after each step the hash must equal the documented hash of the model contents, contents and point lookups must equal the model, re-serialisation must be byte-identical, a migrated state must be readable from the new store alone, an unmodified refreeze must report 0 bytes of new data and any freeze at most the cost of a full rebuild. Target mutable-state: MutableState handles with checkpoints, modifications and single or repeated freezes; every freeze must return the contents and documented hash of that generation, a repeated freeze the same again with no new data. Non-trivial = different insertion orders plus detours (canonical) / reload from store, then modification and refreeze (persist).",
        assumptions: &[
            "the documented hash is transcribed in statemodel::reference_hash (validated against the implementation on hand-made states during design)",
            "backing stores are in-memory byte vectors (the Vec<u8> store and Loader of the crate)",
        ],
        targets: vec![
            Target::new("canonical", t_canonical).len(32, 600).cases(60_000, 3_000_000).floors(&[("different-orders", 0.3), ("with-detours", 0.3)]),
            Target::new("persist", t_persist)
                .len(64, 1200)
                .cases(60_000, 3_000_000)
                .floors(&[("reloaded-from-store", 0.1), ("reload-modify-refreeze", 0.05)]),
            Target::new("mutable-state", t_mutable_state)
                .len(32, 600)
                .cases(40_000, 2_000_000)
                .floors(&[("repeated-freeze", 0.1), ("freeze-of-emptied-state", 0.03)]),
        ],
    }
}
