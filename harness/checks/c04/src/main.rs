fn main() { vcore::main(c04::property()) }
