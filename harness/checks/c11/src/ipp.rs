//! Target `inner_product`: the public inner product argument (`prove_inner_product`,
//! `prove_inner_product_with_scalars`, `verify_inner_product`), and target `ip_rounds`: proofs
//! whose number of inner-product rounds does not match the statement.
use crate::{common::*, range::err, reference::*, sets, with_tr};
use vcore::{gen, CheckResult, Ctx, Unstructured};

const SIZES: [usize; 14] = [1, 2, 4, 8, 16, 32, 64, 2, 4, 8, 0, 3, 6, 12];
const IP_PERTS: usize = 14;

#[derive(Clone)]
struct IpIn<C: Curve> {
    tr:    TrSpec,
    g:     Vec<C>,
    h:     Vec<C>,
    p:     C,
    q:     C,
    proof: RawIp<C>,
}

fn ip_verify<C: Curve>(v: &IpIn<C>) -> bool {
    let proof = v.proof.to_proof();
    with_tr!(v.tr, |t| ipp::verify_inner_product(&mut t, &v.g, &v.h, &v.p, &v.q, &proof))
}

fn ip_verify_ref<C: Curve>(v: &IpIn<C>) -> Result<(), RefErr> { with_tr!(v.tr, |t| ref_ip(&mut t, &v.g, &v.h, &v.p, &v.q, &v.proof)) }

fn vec_scalars<C: Curve>(u: &mut Unstructured, rng: &mut impl rand::Rng, n: usize, shape: usize) -> Vec<C::Scalar> {
    match shape {
        0 => vec![C::Scalar::zero(); n],
        1 => vec![C::Scalar::one(); n],
        2 => (0..n).map(|_| scalar_choice::<C>(u, rng).0).collect(),
        _ => (0..n).map(|_| C::generate_scalar(rng)).collect(),
    }
}

pub fn run<C: TCurve>(u: &mut Unstructured, ctx: &mut Ctx) -> CheckResult {
    let mut rng = gen::rng(u);
    let tr = TrSpec::decode(u);
    let n = SIZES[gen::idx(u, SIZES.len())];
    let with_scalars = gen::boolean(u);
    let a_shape = gen::idx(u, 5);
    let b_shape = gen::idx(u, 5);
    let pool_off = gen::idx(u, 16);
    let pert_choices: Vec<(usize, usize, usize)> = (0..6).map(|_| (gen::idx(u, IP_PERTS), gen::byte(u) as usize, gen::byte(u) as usize)).collect();
    let a = vec_scalars::<C>(u, &mut rng, n, a_shape);
    let b = vec_scalars::<C>(u, &mut rng, n, b_shape);
    let pool = &C::pool()[pool_off..pool_off + n];
    let g: Vec<C> = pool.iter().map(|x| x.0).collect();
    let h: Vec<C> = pool.iter().map(|x| x.1).collect();
    let q = C::generate(&mut rng);
    // H' = c o H with non-zero c (in the range proof c_i = y^-i)
    let c: Vec<C::Scalar> = (0..n).map(|_| C::generate_non_zero_scalar(&mut rng)).collect();
    let h_eff: Vec<C> = if with_scalars { h.iter().zip(&c).map(|(hi, ci)| hi.mul_by_scalar(ci)).collect() } else { h.clone() };
    let supported = n > 0 && n.is_power_of_two();
    let a_zero = a.iter().all(|x| x.is_zero());
    let b_zero = b.iter().all(|x| x.is_zero());

    let describe = || {
        format!(
            "inner product argument on {}: transcript={} n={} prover={} a-shape={} b-shape={} pool_off={}",
            C::NAME,
            tr.show(),
            n,
            if with_scalars { "prove_inner_product_with_scalars" } else { "prove_inner_product" },
            a_shape,
            b_shape,
            pool_off
        )
    };
    ctx.describe(describe);
    ctx.sample(describe);
    ctx.class(C::NAME);
    ctx.class(&format!("n={n}"));
    ctx.class(if with_scalars { "with-scalars" } else { "plain" });
    if a_shape <= 2 || b_shape <= 2 || n <= 1 || !supported {
        ctx.nontrivial(&("ip", C::NAME, n, with_scalars, a_shape, b_shape, to_bytes(&a), to_bytes(&b), &tr));
        ctx.class("nontrivial");
    }

    let proof = with_tr!(tr, |t| {
        if with_scalars {
            ipp::prove_inner_product_with_scalars(&mut t, &g, &h, &c, &q, &a, &b)
        } else {
            ipp::prove_inner_product(&mut t, &g, &h, &q, &a, &b)
        }
    });
    if !supported {
        ctx.class("unsupported-length");
        if proof.is_some() {
            return Err(err("unsupported-not-refused", "ip-length", format!("a proof was produced for vector length {n}: {}", describe())));
        }
        return Ok(());
    }
    let proof = proof.ok_or_else(|| err("completeness", "ip-prover-refused", format!("prover returned None: {}", describe())))?;
    if proof.lr_vec.len() != n.trailing_zeros() as usize {
        return Err(err("proof-shape", "ip-rounds", format!("{} rounds for n = {}", proof.lr_vec.len(), n)));
    }
    // P' = <a,G> + <b,H'> + <a,b> Q
    let ab = ipp::inner_product(&a, &b);
    let p = multiexp(&g, &a).plus_point(&multiexp(&h_eff, &b)).plus_point(&q.mul_by_scalar(&ab));
    let base = IpIn { tr: tr.clone(), g: g.clone(), h: h_eff.clone(), p, q, proof: RawIp::from_proof(&proof) };
    if !ip_verify(&base) {
        return Err(err("completeness", "ip-verify", format!("honest inner product proof rejected: {}", describe())));
    }
    let rr = ip_verify_ref(&base);
    ctx.class("reference-verifier-run");
    if rr.is_err() {
        return Err(err("reference-disagrees", "ip-honest", format!("verify_inner_product = true, reference = {:?}: {}", rr, describe())));
    }

    for (which, sel, how) in pert_choices {
        let mut w = base.clone();
        let k = w.proof.lr.len();
        let name: &'static str = match which {
            0 => {
                w.proof.a = perturb_scalar::<C>(&w.proof.a, how, &mut rng);
                "proof.a"
            }
            1 => {
                w.proof.b = perturb_scalar::<C>(&w.proof.b, how, &mut rng);
                "proof.b"
            }
            2 if k > 0 => {
                let j = sel % k;
                w.proof.lr[j].0 = perturb_point(&w.proof.lr[j].0, how, &mut rng);
                "proof.L_j"
            }
            3 if k > 0 => {
                let j = sel % k;
                w.proof.lr[j].1 = perturb_point(&w.proof.lr[j].1, how, &mut rng);
                "proof.R_j"
            }
            4 if k > 0 && w.proof.lr[sel % k].0 != w.proof.lr[sel % k].1 => {
                let j = sel % k;
                let (l, r) = w.proof.lr[j];
                w.proof.lr[j] = (r, l);
                "proof.L_j<->R_j"
            }
            5 if k > 1 && w.proof.lr[0] != w.proof.lr[k - 1] => {
                w.proof.lr.swap(0, k - 1);
                "proof.rounds-swapped"
            }
            6 => {
                let pair = w.proof.lr.last().copied().unwrap_or_else(|| (C::generate(&mut rng), C::generate(&mut rng)));
                w.proof.lr.push(pair);
                "proof.rounds+1"
            }
            7 => {
                w.p = perturb_point(&w.p, how, &mut rng);
                "P'"
            }
            8 => {
                w.q = perturb_point(&w.q, how, &mut rng);
                "Q"
            }
            9 => {
                let i = sel % n;
                w.g[i] = perturb_point(&w.g[i], how, &mut rng);
                "G_i"
            }
            10 => {
                let i = sel % n;
                w.h[i] = perturb_point(&w.h[i], how, &mut rng);
                "H_i"
            }
            11 if n > 1 && w.g[sel % n] != w.g[(sel + 1) % n] => {
                w.g.swap(sel % n, (sel + 1) % n);
                "G.order"
            }
            12 => {
                let (t2, nm_) = perturb_tr(&w.tr, sel);
                w.tr = t2;
                nm_
            }
            13 if w.proof.a != w.proof.b => {
                std::mem::swap(&mut w.proof.a, &mut w.proof.b);
                "proof.a<->b"
            }
            _ => {
                w.proof.a = perturb_scalar::<C>(&w.proof.a, how, &mut rng);
                "proof.a"
            }
        };
        // With a = 0 (the zero vector) neither P' nor any L_j, R_j nor the final check depends on
        // G (and not on Q, since every <a_lo,b_hi>, <a_hi,b_lo> and the final a*b vanish); the same
        // holds for b = 0 and H. Altering such a component leaves the same true statement with
        // the same witness, so acceptance is correct there and is not asserted against.
        ctx.class(&format!("pert:{name}"));
        let r = ip_verify(&w);
        let rr = ip_verify_ref(&w);
        ctx.class("reference-verifier-run-perturbed");
        if rr.is_ok() != r {
            return Err(err("reference-disagrees", &format!("ip:{name}"), format!("after altering {name}: verify_inner_product = {r}, reference = {:?}: {}", rr, describe())));
        }
        let irrelevant = match name {
            "G_i" | "G.order" => a_zero,
            "H_i" => b_zero,
            "Q" => a_zero || b_zero,
            // no round, no challenge: for n = 1 the proof is (a, b) itself and nothing is hashed;
            // for a = b = 0 every L_j, R_j and P' is the neutral element whatever the challenges
            n if n.starts_with("tr-") => k == 0 || (a_zero && b_zero),
            _ => false,
        };
        if irrelevant {
            ctx.class("component-irrelevant-for-zero-vector");
            continue;
        }
        if r {
            return Err(err("binding", &format!("ip:{name}"), format!("inner product proof still verifies after altering {name}: {}", describe())));
        }
    }
    Ok(())
}

// ------------------------------------------------------------------------------------------
// ip_rounds: the number of (L, R) rounds in a proof is attacker-controlled (`#[size_length = 4]`
// vector in the serialisation). A proof with the wrong number of rounds must be rejected cleanly
// by every verifier. (Before /repo commit 4955f8c9b every verifier panicked in `verify_scalars`
// on too few rounds; found by this target, see NOTES.md.)

pub fn run_rounds<C: TCurve>(u: &mut Unstructured, ctx: &mut Ctx) -> CheckResult {
    let mut rng = gen::rng(u);
    let proto = gen::idx(u, 4); // 0 range, 1 membership, 2 non-membership, 3 bare inner product
    let version = decode_version(u);
    let tr = TrSpec::decode(u);
    let size_log = 1 + gen::idx(u, 4); // vector length 2, 4, 8, 16
    let change = gen::idx(u, 5);
    let pool_off = gen::idx(u, 16);
    let nvec = 1usize << size_log;
    let k = size_log;
    // new number of rounds
    let k2 = match change {
        0 => k - 1,
        1 => 0,
        2 => k + 1,
        3 => k + 2,
        _ => k / 2,
    };
    if k2 == k {
        ctx.class("noop");
        return Ok(());
    }
    let proto_name = ["range", "set-membership", "set-non-membership", "inner-product"][proto];
    let describe = || {
        format!(
            "{} proof on {} (version={} transcript={}) for vector length {} with the number of inner-product rounds changed from {} to {}",
            proto_name,
            C::NAME,
            version_name(version),
            tr.show(),
            nvec,
            k,
            k2
        )
    };
    ctx.describe(describe);
    ctx.sample(describe);
    ctx.class(proto_name);
    ctx.class(if k2 < k { "fewer-rounds" } else { "more-rounds" });
    ctx.nontrivial(&(proto, C::NAME, nvec, k2, version == ProofVersion::Version2, &tr));
    ctx.class("nontrivial");

    let keys = CommitmentKey { g: C::generate(&mut rng), h: C::generate(&mut rng) };
    let gens = gens_from_pool::<C>(pool_off, nvec);
    let fix = |lr: &mut Vec<(C, C)>, mut rng: &mut dyn rand::RngCore| {
        while lr.len() > k2 {
            lr.pop();
        }
        while lr.len() < k2 {
            lr.push((C::generate(&mut rng), C::generate(&mut rng)));
        }
    };

    // build an accepted proof, change the number of rounds, verify under catch
    let outcome: Result<bool, String> = match proto {
        0 => {
            // n * m = nvec
            let (n, m): (u8, u8) = match size_log {
                1 => (2, 1),
                2 => (2, 2),
                3 => (8, 1),
                _ => (8, 2),
            };
            let vals: Vec<u64> = (0..m).map(|j| u64::from(j) + 1).collect();
            let rands: Vec<Randomness<C>> = (0..m).map(|_| Randomness::generate(&mut rng)).collect();
            let coms: Vec<Commitment<C>> = vals.iter().zip(&rands).map(|(v, r)| keys.hide_worker(&C::scalar_from_u64(*v), r)).collect();
            let proof = with_tr!(tr, |t| rp::prove(version, &mut t, &mut rng, n, m, &vals, &gens, &keys, &rands));
            let proof = proof.ok_or_else(|| err("completeness", "rounds-setup", "prover refused".into()))?;
            let mut raw = Raw::<C>::parse(&to_bytes(&proof)).ok_or_else(|| err("proof-serialization", "layout", "cannot parse".into()))?;
            fix(&mut raw.ip.lr, &mut rng);
            let p2: rp::RangeProof<C> = proof_from_bytes(&raw.bytes()).ok_or_else(|| err("proof-serialization", "deserialise", "altered proof does not deserialise".into()))?;
            vcore::catch(|| with_tr!(tr, |t| rp::verify_efficient(version, &mut t, n, &coms, &p2, &gens, &keys).is_ok()))
        }
        1 | 2 => {
            let kind = if proto == 1 { sets::Kind::Member } else { sets::Kind::NonMember };
            let set: Vec<C::Scalar> = (0..nvec as u64).map(|i| C::scalar_from_u64(10 + i)).collect();
            let v = if proto == 1 { set[nvec - 1] } else { C::scalar_from_u64(5) };
            let r = Randomness::<C>::generate(&mut rng);
            let com = keys.hide_worker(&v, &r);
            let (proof, _) = sets::set_prove::<C>(kind, version, &tr, &mut rng, &set, v, &gens, &keys, &r);
            let bytes = proof.map_err(|e| err("completeness", "rounds-setup", e))?;
            let mut raw = Raw::<C>::parse(&bytes).ok_or_else(|| err("proof-serialization", "layout", "cannot parse".into()))?;
            fix(&mut raw.ip.lr, &mut rng);
            let vin = sets::SetIn { kind, version, tr: tr.clone(), set, com, proof: raw.bytes(), gens: gens.clone(), keys };
            match vcore::catch(|| sets::set_verify(&vin)) {
                Ok(Ok((r, _))) => Ok(r.is_ok()),
                Ok(Err(e)) => return Err(err("proof-serialization", "deserialise", e)),
                Err(p) => Err(p),
            }
        }
        _ => {
            let a: Vec<C::Scalar> = (0..nvec).map(|_| C::generate_scalar(&mut rng)).collect();
            let b: Vec<C::Scalar> = (0..nvec).map(|_| C::generate_scalar(&mut rng)).collect();
            let g: Vec<C> = gens.G_H.iter().map(|x| x.0).collect();
            let h: Vec<C> = gens.G_H.iter().map(|x| x.1).collect();
            let q = C::generate(&mut rng);
            let proof = with_tr!(tr, |t| ipp::prove_inner_product(&mut t, &g, &h, &q, &a, &b));
            let mut proof = proof.ok_or_else(|| err("completeness", "rounds-setup", "prover refused".into()))?;
            let p = multiexp(&g, &a).plus_point(&multiexp(&h, &b)).plus_point(&q.mul_by_scalar(&ipp::inner_product(&a, &b)));
            fix(&mut proof.lr_vec, &mut rng);
            vcore::catch(|| with_tr!(tr, |t| ipp::verify_inner_product(&mut t, &g, &h, &p, &q, &proof)))
        }
    };
    match outcome {
        Ok(false) => {
            ctx.class("rejected-cleanly");
            Ok(())
        }
        Ok(true) => Err(err("binding", &format!("rounds:{proto_name}"), format!("a proof with the wrong number of rounds verifies: {}", describe()))),
        Err(panic_msg) => Err(vcore::Violation::new("verifier-panic", format!("the verifier panics instead of rejecting: {panic_msg}\n{}", describe()))
            .with_signature(format!("verifier-panic:{}-rounds", if k2 < k { "too-few" } else { "too-many" }))),
    }
}
