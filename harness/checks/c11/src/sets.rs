//! Targets `set_membership` and `set_non_membership`.
use crate::{common::*, range::err, reference::*, with_tr};
use vcore::{gen, CheckResult, Ctx, Unstructured};

#[derive(Clone, Copy, Debug, PartialEq, Eq, Hash)]
pub enum Kind {
    Member,
    NonMember,
}

impl Kind {
    fn name(self) -> &'static str {
        match self {
            Kind::Member => "membership",
            Kind::NonMember => "non-membership",
        }
    }

    fn other(self) -> Kind {
        match self {
            Kind::Member => Kind::NonMember,
            Kind::NonMember => Kind::Member,
        }
    }
}

#[derive(Clone)]
pub struct SetIn<C: Curve> {
    pub kind:    Kind,
    pub version: ProofVersion,
    pub tr:      TrSpec,
    pub set:     Vec<C::Scalar>,
    pub com:     Commitment<C>,
    pub proof:   Vec<u8>,
    pub gens:    Generators<C>,
    pub keys:    CommitmentKey<C>,
}

/// Outcome of the verifier of `/repo`: `Ok` or the Debug rendering of its error.
pub fn set_verify<C: Curve>(v: &SetIn<C>) -> Result<(Result<(), String>, Vec<u8>), String> {
    match v.kind {
        Kind::Member => {
            let proof: smp::SetMembershipProof<C> =
                proof_from_bytes(&v.proof).ok_or_else(|| "a well-formed proof encoding does not deserialise".to_string())?;
            Ok(with_tr!(v.tr, |t| {
                let r = smp::verify(v.version, &mut t, &v.set, &v.com, &proof, &v.gens, &v.keys).map_err(|e| format!("{e:?}"));
                (r, t.extract_raw_challenge().as_ref().to_vec())
            }))
        }
        Kind::NonMember => {
            let proof: snmp::SetNonMembershipProof<C> =
                proof_from_bytes(&v.proof).ok_or_else(|| "a well-formed proof encoding does not deserialise".to_string())?;
            Ok(with_tr!(v.tr, |t| {
                let r = snmp::verify(v.version, &mut t, &v.set, &v.com, &proof, &v.gens, &v.keys).map_err(|e| format!("{e:?}"));
                (r, t.extract_raw_challenge().as_ref().to_vec())
            }))
        }
    }
}

pub fn set_verify_ref<C: Curve>(v: &SetIn<C>) -> Option<Result<(), RefErr>> {
    let raw = Raw::<C>::parse(&v.proof)?;
    Some(match v.kind {
        Kind::Member => with_tr!(v.tr, |t| ref_set_membership(v.version, &mut t, &v.set, &v.com, &raw, &v.gens, &v.keys)),
        Kind::NonMember => with_tr!(v.tr, |t| ref_set_non_membership(v.version, &mut t, &v.set, &v.com, &raw, &v.gens, &v.keys)),
    })
}

/// Run the prover of `/repo`; returns the serialised proof or the Debug rendering of the error,
/// and the transcript state afterwards.
#[allow(clippy::too_many_arguments)]
pub fn set_prove<C: Curve>(
    kind: Kind,
    version: ProofVersion,
    tr: &TrSpec,
    rng: &mut impl rand::Rng,
    set: &[C::Scalar],
    v: C::Scalar,
    gens: &Generators<C>,
    keys: &CommitmentKey<C>,
    r: &Randomness<C>,
) -> (Result<Vec<u8>, String>, Vec<u8>) {
    match kind {
        Kind::Member => with_tr!(tr, |t| {
            let p = smp::prove(version, &mut t, rng, set, v, gens, keys, r).map(|p| to_bytes(&p)).map_err(|e| format!("{e:?}"));
            (p, t.extract_raw_challenge().as_ref().to_vec())
        }),
        Kind::NonMember => with_tr!(tr, |t| {
            let p = snmp::prove(version, &mut t, rng, set, v, gens, keys, r).map(|p| to_bytes(&p)).map_err(|e| format!("{e:?}"));
            (p, t.extract_raw_challenge().as_ref().to_vec())
        }),
    }
}

pub fn padded<F: Field>(set: &[F]) -> Vec<F> {
    let mut v = set.to_vec();
    if let Some(last) = v.last().copied() {
        while !v.len().is_power_of_two() {
            v.push(last);
        }
    }
    v
}

const SIZES: [usize; 18] = [1, 2, 3, 4, 5, 8, 9, 1, 2, 3, 4, 5, 8, 9, 16, 17, 7, 0];
const SET_PERTS: usize = 32;

pub fn run<C: TCurve>(kind: Kind, u: &mut Unstructured, ctx: &mut Ctx) -> CheckResult {
    let version = decode_version(u);
    let tr = TrSpec::decode(u);
    let size = SIZES[gen::idx(u, SIZES.len())];
    let with_dups = rare(u, 1, 5);
    run_inner::<C>(kind, version, tr, size, with_dups, u, ctx)
}

#[allow(clippy::too_many_arguments)]
fn run_inner<C: TCurve>(kind: Kind, version: ProofVersion, tr: TrSpec, size: usize, with_dups: bool, u: &mut Unstructured, ctx: &mut Ctx) -> CheckResult {
    let mut rng = gen::rng(u);
    // where v sits: for membership mostly inside, for non-membership mostly outside
    let inside_wanted = match kind {
        Kind::Member => !rare(u, 1, 4),
        Kind::NonMember => rare(u, 1, 4),
    };
    let pos_choice = gen::idx(u, 3); // first, last, other
    let absent_choice = gen::idx(u, 7);
    let elem_sel = gen::byte(u) as usize;
    let zero_r = rare(u, 1, 8);
    let extra_gens = [0usize, 0, 1, 5][gen::idx(u, 4)];
    let pool_off = gen::idx(u, 16);
    let n_perts = if ctx.tier == vcore::Tier::Thorough { 12 } else { 6 };
    let pert_choices: Vec<(usize, usize, usize)> = (0..n_perts).map(|_| (gen::idx(u, SET_PERTS), gen::byte(u) as usize, gen::byte(u) as usize)).collect();
    // element values are drawn before the rng so that they shrink towards 0,1,-1,...
    let mut elem_specs: Vec<usize> = (0..size).map(|_| gen::idx(u, 10)).collect();
    let small_vals: Vec<u64> = (0..size).map(|_| gen::boundary_u64(u)).collect();

    // ---- the set
    let mut set: Vec<C::Scalar> = Vec::with_capacity(size);
    let mut boundary_elem = false;
    for i in 0..size {
        let mut e = match elem_specs[i] {
            0 => C::Scalar::zero(),
            1 => C::Scalar::one(),
            2 => neg(C::Scalar::one()),
            3 => C::scalar_from_u64(u64::MAX),
            4 => two_pow::<C>(64),
            5 | 6 => C::scalar_from_u64(small_vals[i]),
            7 => C::scalar_from_u64(i as u64 + 1),
            _ => C::generate_scalar(&mut rng),
        };
        if with_dups && i > 0 && small_vals[i] % 3 == 0 {
            e = set[(small_vals[i] as usize / 3) % i];
            elem_specs[i] = 99;
        } else {
            // distinct from all earlier elements
            while set.contains(&e) {
                e = C::generate_scalar(&mut rng);
                elem_specs[i] = 8;
            }
        }
        if elem_specs[i] <= 4 {
            boundary_elem = true;
        }
        set.push(e);
    }
    let has_dups = (0..size).any(|i| set[..i].contains(&set[i]));

    // ---- the value
    let (v, place): (C::Scalar, &'static str) = if inside_wanted && size > 0 {
        match pos_choice {
            0 => (set[0], "first"),
            1 => (set[size - 1], "last"),
            _ => (set[elem_sel % size], "some position"),
        }
    } else {
        let cand = match absent_choice {
            0 => C::Scalar::zero(),
            1 => C::Scalar::one(),
            2 if size > 0 => add(set[size - 1], &C::Scalar::one()),
            3 if size > 0 => sub(set[0], &C::Scalar::one()),
            4 => neg(C::Scalar::one()),
            5 if size > 0 => neg(set[elem_sel % size]),
            _ => C::generate_scalar(&mut rng),
        };
        let mut c = cand;
        while set.contains(&c) {
            c = C::generate_scalar(&mut rng);
        }
        (c, "absent")
    };
    let is_member = set.contains(&v);
    let truth = match kind {
        Kind::Member => is_member,
        Kind::NonMember => !is_member,
    };

    let n = padded(&set).len();
    let gens = gens_from_pool::<C>(pool_off, n + extra_gens);
    let keys = CommitmentKey { g: C::generate(&mut rng), h: C::generate(&mut rng) };
    let r: Randomness<C> = if zero_r { Randomness::zero() } else { Randomness::generate(&mut rng) };
    let com = keys.hide_worker(&v, &r);

    let describe = || {
        let els: Vec<String> = set.iter().map(|e| hex_scalar::<C>(e)).collect();
        format!(
            "set {} on {}: version={} transcript={} |S|={} (padded to {}) S=[{}] v={} ({}) statement is {} |gens|={} pool_off={}{}",
            kind.name(),
            C::NAME,
            version_name(version),
            tr.show(),
            size,
            n,
            els.join(", "),
            hex_scalar::<C>(&v),
            place,
            truth,
            n + extra_gens,
            pool_off,
            if zero_r { " r=0" } else { "" }
        )
    };
    ctx.describe(describe);
    ctx.sample(describe);
    ctx.class(C::NAME);
    ctx.class(&format!("size={size}"));
    ctx.class(&format!("v-{place}"));
    ctx.class(if truth { "true-statement" } else { "false-statement" });
    ctx.class(if version == ProofVersion::Version1 { "version1" } else { "version2" });
    if has_dups {
        ctx.class("multiset");
    }
    if !size.is_power_of_two() && size > 0 {
        ctx.class("padded");
    }
    // non-trivial: v at the first/last position or absent, a singleton or padded set, or a
    // boundary element
    if place != "some position" || size <= 1 || !size.is_power_of_two() || boundary_elem {
        let key: Vec<Vec<u8>> = set.iter().map(|e| to_bytes(e)).collect();
        ctx.nontrivial(&(kind, C::NAME, key, to_bytes(&v), version == ProofVersion::Version2, &tr));
        ctx.class("nontrivial");
    }

    let (proof, prover_state) = set_prove::<C>(kind, version, &tr, &mut rng, &set, v, &gens, &keys, &r);

    if size == 0 {
        // `v not in {}` is true but there is no vector to run an inner product argument on; the
        // documentation does not promise anything for the empty set. Only require a clean answer.
        ctx.class("empty-set");
        match proof {
            Err(_) => return Ok(()),
            Ok(bytes) => {
                let base = SetIn { kind, version, tr: tr.clone(), set: set.clone(), com, proof: bytes, gens: gens.clone(), keys };
                let (res, _) = set_verify(&base).map_err(|e| err("proof-serialization", "deserialise", e))?;
                if res.is_ok() != truth {
                    return Err(err("empty-set", kind.name(), format!("prover produced a proof for the empty set and the verifier answers {:?}: {}", res, describe())));
                }
                return Ok(());
            }
        }
    }

    if !truth {
        // the set provers check their witness: a false statement must be refused with the
        // documented error, not mis-proved
        let expected = match kind {
            Kind::Member => "CouldNotFindValueInSet",
            Kind::NonMember => "CouldFindValueInSet",
        };
        return match proof {
            Err(e) if e == expected => Ok(()),
            Err(e) => Err(err("wrong-error", kind.name(), format!("false statement refused with {e}, expected {expected}: {}", describe()))),
            Ok(bytes) => {
                // a proof came out; it is a violation only if it also verifies
                let base = SetIn { kind, version, tr: tr.clone(), set: set.clone(), com, proof: bytes, gens: gens.clone(), keys };
                let (res, _) = set_verify(&base).map_err(|e| err("proof-serialization", "deserialise", e))?;
                if res.is_ok() {
                    Err(err("false-accepted", kind.name(), format!("the prover produced a proof for a false statement and it verifies: {}", describe())))
                } else {
                    Err(err("false-not-refused", kind.name(), format!("the prover produced a (non-verifying) proof for a false statement instead of refusing: {}", describe())))
                }
            }
        };
    }

    let proof_bytes = match proof {
        Ok(b) => b,
        Err(e) => return Err(err("completeness", &format!("{}-prover-refused", kind.name()), format!("prove failed with {e} for a true statement: {}", describe()))),
    };
    let raw = match Raw::<C>::parse(&proof_bytes) {
        Some(r) if r.bytes() == proof_bytes => r,
        _ => return Err(err("proof-serialization", "layout", format!("unexpected layout of the serialised set proof: {}", gen::hex(&proof_bytes)))),
    };
    if raw.ip.lr.len() != n.trailing_zeros() as usize {
        return Err(err("proof-shape", "rounds", format!("honest proof has {} inner-product rounds for padded size {}", raw.ip.lr.len(), n)));
    }
    let base = SetIn { kind, version, tr: tr.clone(), set: set.clone(), com, proof: proof_bytes, gens: gens.clone(), keys };
    let (res, verifier_state) = set_verify(&base).map_err(|e| err("proof-serialization", "deserialise", e))?;
    if res.is_err() {
        return Err(err("completeness", &format!("{}-verify", kind.name()), format!("honest proof of a true statement rejected with {:?}: {}", res, describe())));
    }
    if prover_state != verifier_state {
        return Err(err("transcript-sync", kind.name(), format!("prover and verifier leave the transcript in different states: {}", describe())));
    }
    if let Some(rr) = set_verify_ref(&base) {
        ctx.class("reference-verifier-run");
        if rr.is_err() {
            return Err(err("reference-disagrees", &format!("{}-honest", kind.name()), format!("verify = Ok, reference verifier = {:?}: {}", rr, describe())));
        }
    }

    // ---- perturbations
    let base_padded = padded(&set);
    let one = C::Scalar::one();
    for (which, sel, how) in pert_choices {
        let mut w = base.clone();
        let mut neutral = false;
        let name: String = match which {
            0..=15 => {
                let mut r = raw.clone();
                let nm_ = perturb_raw(&mut r, which, sel, how, &mut rng);
                w.proof = r.bytes();
                nm_.to_string()
            }
            16 => {
                let mut r = raw.clone();
                let p = [LenPert::Longer, LenPert::DropLast, LenPert::Empty][how % 3];
                if perturb_len(&mut r, p, &mut rng) && p != LenPert::Longer {
                    w.proof = r.bytes();
                    "proof.ip.rounds-fewer".to_string()
                } else {
                    let mut r = raw.clone();
                    perturb_len(&mut r, LenPert::Longer, &mut rng);
                    w.proof = r.bytes();
                    "proof.ip.rounds+1".to_string()
                }
            }
            17 => {
                w.com = Commitment(w.com.0.plus_point(&keys.g));
                "commitment.value+1".to_string()
            }
            18 => {
                w.com = Commitment(w.com.0.plus_point(&keys.h));
                "commitment.randomness+1".to_string()
            }
            19 => {
                // commitment to a value for which the statement is false (same randomness)
                let other = match kind {
                    Kind::Member => {
                        let mut c = add(v, &one);
                        while set.contains(&c) {
                            c = C::generate_scalar(&mut rng);
                        }
                        c
                    }
                    Kind::NonMember => set[sel % size],
                };
                w.com = keys.hide_worker(&other, &r);
                "commitment.to-false-value".to_string()
            }
            20 => {
                let i = sel % size;
                w.set[i] = add(w.set[i], &one);
                "set.element+1".to_string()
            }
            21 => {
                // replace v's own entry (membership) / put v into the set (non-membership)
                match kind {
                    Kind::Member => {
                        for e in w.set.iter_mut() {
                            if *e == v {
                                *e = add(*e, &one);
                            }
                        }
                        "set.v-removed".to_string()
                    }
                    Kind::NonMember => {
                        let i = sel % size;
                        w.set[i] = v;
                        "set.v-inserted".to_string()
                    }
                }
            }
            22 => {
                let i = sel % size;
                let j = (i + 1) % size;
                if w.set[i] != w.set[j] {
                    w.set.swap(i, j);
                    "set.order".to_string()
                } else {
                    w.set[i] = add(w.set[i], &one);
                    "set.element+1".to_string()
                }
            }
            23 => {
                let mut e = add(w.set[size - 1], &one);
                while w.set.contains(&e) || e == v {
                    e = C::generate_scalar(&mut rng);
                }
                w.set.push(e);
                "set.new-element-appended".to_string()
            }
            24 => {
                w.set.pop();
                "set.last-removed".to_string()
            }
            25 => {
                let last = w.set[size - 1];
                w.set.push(last);
                "set.last-repeated".to_string()
            }
            26 => perturb_gens(&mut w.gens, n, how, sel, &mut rng).to_string(),
            27 => {
                w.gens.G_H.truncate(n - 1);
                "gens.truncated".to_string()
            }
            28 => perturb_keys(&mut w.keys, how, &mut rng).to_string(),
            29 => {
                if sel % 2 == 0 {
                    let (t2, nm_) = perturb_tr(&w.tr, sel / 2);
                    w.tr = t2;
                    nm_.to_string()
                } else {
                    w.version = flip_version(w.version);
                    "version".to_string()
                }
            }
            30 => {
                // same bytes presented as the proof of the opposite statement
                w.kind = kind.other();
                "cross-protocol".to_string()
            }
            _ => {
                if w.gens.G_H.len() == n {
                    w.gens = gens_from_pool::<C>(pool_off, n + 1);
                }
                let last = w.gens.G_H.len() - 1;
                w.gens.G_H[last].0 = perturb_point(&w.gens.G_H[last].0, how, &mut rng);
                w.gens.G_H[last].1 = perturb_point(&w.gens.G_H[last].1, how + 1, &mut rng);
                neutral = true;
                "neutral:surplus-generator".to_string()
            }
        };
        // make sure the generators suffice for a set that grew
        let n2 = padded(&w.set).len();
        if n2 > n && which != 27 {
            w.gens = gens_from_pool::<C>(pool_off, n2 + extra_gens);
        }
        let same_padded = padded(&w.set) == base_padded;
        let set_changed = w.set != set;
        ctx.class(&format!("pert:{name}"));
        let (r2, _) = set_verify(&w).map_err(|e| err("proof-serialization", "deserialise-perturbed", format!("{e} ({name})")))?;
        if neutral {
            if r2.is_err() {
                return Err(err("neutral-change-rejected", &format!("{}:{name}", kind.name()), format!("changing {name} made the verifier answer {:?}: {}", r2, describe())));
            }
        } else if set_changed && same_padded {
            // A different list denoting the same set, with the same power-of-two padding (the
            // last element repeated): the statement is equally true; neither answer contradicts
            // the property. Recorded, not asserted.
            ctx.class(if r2.is_ok() { "equivalent-set-list:accepted" } else { "equivalent-set-list:rejected" });
        } else if r2.is_ok() {
            let els: Vec<String> = w.set.iter().map(|e| hex_scalar::<C>(e)).collect();
            return Err(err("binding", &format!("{}:{name}", kind.name()), format!("proof still verifies after altering {name}: {}\nverified against S=[{}]", describe(), els.join(", "))));
        }
        if w.kind == kind {
            if let Some(rr) = set_verify_ref(&w) {
                ctx.class("reference-verifier-run-perturbed");
                if rr.is_ok() != r2.is_ok() {
                    return Err(err("reference-disagrees", &format!("{}:{name}", kind.name()), format!("after altering {name}: verify = {:?}, reference verifier = {:?}: {}", r2, rr, describe())));
                }
            }
        }
    }
    Ok(())
}
