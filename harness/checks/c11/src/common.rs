//! Shared pieces of the C11 check: curve dispatch, generator pools, transcript specifications,
//! a field-accessible mirror of the (private-field) proof structs, value tables and perturbations.
pub use concordium_base::{
    bulletproofs::{
        inner_product_proof as ipp, range_proof as rp, set_membership_proof as smp,
        set_non_membership_proof as snmp, utils::Generators,
    },
    common::{to_bytes, Deserial, Serial},
    curve_arithmetic::{multiexp, Curve, Field, PrimeField},
    id::{constants::ArCurve, id_proof_types::ProofVersion},
    pedersen_commitment::{Commitment, CommitmentKey, Randomness},
    random_oracle::{RandomOracle, TranscriptProtocol, TranscriptProtocolV1},
};
pub use curve25519_dalek::ristretto::RistrettoPoint;
use rand::SeedableRng;
use std::sync::OnceLock;
use vcore::{gen, Unstructured};

/// Curves the checks are instantiated with. The pool of bulletproof generators is built once
/// per process from a fixed seed (so a run stays a pure function of code and seed) because
/// sampling 2*256 group elements per case would cost as much as the proof itself.
pub trait TCurve: Curve {
    const NAME: &'static str;
    fn pool() -> &'static [(Self, Self)];
}

pub const POOL_LEN: usize = 1100;

fn build_pool<C: Curve>(seed: u64) -> Vec<(C, C)> {
    let mut rng = rand::rngs::StdRng::seed_from_u64(seed);
    (0..POOL_LEN).map(|_| (C::generate(&mut rng), C::generate(&mut rng))).collect()
}

impl TCurve for ArCurve {
    const NAME: &'static str = "bls12-381-g1";

    fn pool() -> &'static [(Self, Self)] {
        static P: OnceLock<Vec<(ArCurve, ArCurve)>> = OnceLock::new();
        P.get_or_init(|| build_pool::<ArCurve>(0xC11_0001))
    }
}

impl TCurve for RistrettoPoint {
    const NAME: &'static str = "ristretto";

    fn pool() -> &'static [(Self, Self)] {
        static P: OnceLock<Vec<(RistrettoPoint, RistrettoPoint)>> = OnceLock::new();
        P.get_or_init(|| build_pool::<RistrettoPoint>(0xC11_0002))
    }
}

/// `count` generator pairs starting at `off` in the pool.
pub fn gens_from_pool<C: TCurve>(off: usize, count: usize) -> Generators<C> {
    let p = C::pool();
    assert!(off + count <= p.len(), "harness: generator pool too small ({} + {})", off, count);
    Generators { G_H: p[off..off + count].to_vec() }
}

// ------------------------------------------------------------------------------------------
// Transcripts

/// How the Fiat-Shamir transcript is initialised before the proof: legacy `RandomOracle` or
/// `TranscriptProtocolV1`, a domain string and some context messages.
#[derive(Clone, Debug, PartialEq, Eq, Hash)]
pub struct TrSpec {
    pub v1:     bool,
    pub domain: Vec<u8>,
    pub ctx:    Vec<u64>,
}

impl TrSpec {
    pub fn decode(u: &mut Unstructured) -> Self {
        let v1 = gen::boolean(u);
        let domain = match gen::idx(u, 4) {
            0 => Vec::new(),
            1 => b"attribute_range_proof".to_vec(),
            2 => b"credential".to_vec(),
            _ => gen::short_bytes(u, 12),
        };
        let nctx = gen::idx(u, 3);
        let ctx = (0..nctx).map(|_| gen::boundary_u64(u)).collect();
        TrSpec { v1, domain, ctx }
    }

    #[allow(deprecated)]
    pub fn legacy(&self) -> RandomOracle {
        let mut t = RandomOracle::domain(&self.domain);
        for c in &self.ctx {
            t.append_message(b"ctx", c);
        }
        t
    }

    pub fn v1(&self) -> TranscriptProtocolV1 {
        let mut t = TranscriptProtocolV1::with_domain(&self.domain);
        for c in &self.ctx {
            t.append_message(b"ctx", c);
        }
        t
    }

    pub fn show(&self) -> String {
        format!(
            "{}(domain={:?}, ctx={:?})",
            if self.v1 { "TranscriptProtocolV1" } else { "RandomOracle" },
            if self.domain.iter().all(|b| b.is_ascii_graphic() || *b == b' ') { String::from_utf8_lossy(&self.domain).to_string() } else { format!("0x{}", gen::hex(&self.domain)) },
            self.ctx
        )
    }
}

/// Evaluate `$body` with `$t` bound to a fresh mutable transcript built from `$spec` (two
/// monomorphic arms, because `TranscriptProtocol` is not object safe).
#[macro_export]
macro_rules! with_tr {
    ($spec:expr, |$t:ident| $body:expr) => {
        if $spec.v1 {
            #[allow(unused_mut)]
            let mut $t = $spec.v1();
            $body
        } else {
            #[allow(unused_mut)]
            let mut $t = $spec.legacy();
            $body
        }
    };
}

/// Ways to alter a transcript specification so that the resulting transcript state differs.
pub fn perturb_tr(spec: &TrSpec, which: usize) -> (TrSpec, &'static str) {
    let mut s = spec.clone();
    match which % 5 {
        0 => {
            s.domain.push(b'x');
            (s, "tr-domain-extended")
        }
        1 => {
            s.ctx.push(0);
            (s, "tr-extra-message")
        }
        2 => {
            if s.ctx.is_empty() {
                s.ctx.push(1);
                (s, "tr-extra-message")
            } else {
                let l = s.ctx.len() - 1;
                s.ctx[l] = s.ctx[l].wrapping_add(1);
                (s, "tr-message-changed")
            }
        }
        3 => {
            if s.ctx.is_empty() {
                s.domain.insert(0, b'y');
                (s, "tr-domain-extended")
            } else {
                s.ctx.pop();
                (s, "tr-message-dropped")
            }
        }
        _ => {
            s.v1 = !s.v1;
            (s, "tr-protocol-flipped")
        }
    }
}

/// True for roughly the top num/den of byte values: a rare alternative that an exhausted (all
/// zero) choice sequence never takes.
pub fn rare(u: &mut Unstructured, num: u32, den: u32) -> bool { (gen::byte(u) as u32) * den >= 256 * (den - num) }

pub fn version_name(v: ProofVersion) -> &'static str {
    match v {
        ProofVersion::Version1 => "V1",
        ProofVersion::Version2 => "V2",
    }
}

pub fn flip_version(v: ProofVersion) -> ProofVersion {
    match v {
        ProofVersion::Version1 => ProofVersion::Version2,
        ProofVersion::Version2 => ProofVersion::Version1,
    }
}

pub fn decode_version(u: &mut Unstructured) -> ProofVersion {
    if gen::boolean(u) {
        ProofVersion::Version2
    } else {
        ProofVersion::Version1
    }
}

// ------------------------------------------------------------------------------------------
// Scalars

pub fn two_pow<C: Curve>(k: u64) -> C::Scalar { C::scalar_from_u64(2).pow([k]) }

pub fn neg<F: Field>(mut x: F) -> F {
    x.negate();
    x
}

pub fn add<F: Field>(mut x: F, y: &F) -> F {
    x.add_assign(y);
    x
}

pub fn sub<F: Field>(mut x: F, y: &F) -> F {
    x.sub_assign(y);
    x
}

pub fn mul<F: Field>(mut x: F, y: &F) -> F {
    x.mul_assign(y);
    x
}

pub fn hex_scalar<C: Curve>(s: &C::Scalar) -> String {
    let b = to_bytes(s);
    // big-endian canonical encoding; strip leading zeros for readability
    let h = gen::hex(&b);
    let t = h.trim_start_matches('0');
    if t.is_empty() {
        "0".to_string()
    } else {
        format!("0x{t}")
    }
}

/// A scalar from the boundary table: 0, 1, -1, 2^64-1, 2^64, small, a 64-bit boundary value or a
/// uniformly random field element. Returns the scalar and whether it came from a boundary row.
pub fn scalar_choice<C: Curve>(u: &mut Unstructured, rng: &mut impl rand::Rng) -> (C::Scalar, bool) {
    match gen::idx(u, 10) {
        0 => (C::Scalar::zero(), true),
        1 => (C::Scalar::one(), true),
        2 => (neg(C::Scalar::one()), true),
        3 => (C::scalar_from_u64(u64::MAX), true),
        4 => (two_pow::<C>(64), true),
        5 => (C::scalar_from_u64(gen::byte(u) as u64), false),
        6 => (C::scalar_from_u64(gen::boundary_u64(u)), false),
        _ => (C::generate_scalar(rng), false),
    }
}

// ------------------------------------------------------------------------------------------
// Mirror of the proof structs

/// `RangeProof`, `SetMembershipProof` and `SetNonMembershipProof` have the same (private)
/// fields and the same derived serialisation: A, S, T_1, T_2, tx, tx_tilde, e_tilde,
/// then the inner product proof: u32 count, (L, R) pairs, a, b. This mirror gives field access
/// through the serialised form.
#[derive(Clone, Debug, PartialEq, Eq)]
pub struct Raw<C: Curve> {
    pub big_a:    C,
    pub big_s:    C,
    pub t1:       C,
    pub t2:       C,
    pub tx:       C::Scalar,
    pub tx_tilde: C::Scalar,
    pub e_tilde:  C::Scalar,
    pub ip:       RawIp<C>,
}

#[derive(Clone, Debug, PartialEq, Eq)]
pub struct RawIp<C: Curve> {
    pub lr: Vec<(C, C)>,
    pub a:  C::Scalar,
    pub b:  C::Scalar,
}

impl<C: Curve> RawIp<C> {
    fn read(cur: &mut std::io::Cursor<&[u8]>) -> Option<Self> {
        let k = u32::deserial(cur).ok()? as usize;
        if k > 64 {
            return None;
        }
        let mut lr = Vec::with_capacity(k);
        for _ in 0..k {
            let l = C::deserial(cur).ok()?;
            let r = C::deserial(cur).ok()?;
            lr.push((l, r));
        }
        let a = C::Scalar::deserial(cur).ok()?;
        let b = C::Scalar::deserial(cur).ok()?;
        Some(RawIp { lr, a, b })
    }

    fn write(&self, out: &mut Vec<u8>) {
        (self.lr.len() as u32).serial(out);
        for (l, r) in &self.lr {
            l.serial(out);
            r.serial(out);
        }
        self.a.serial(out);
        self.b.serial(out);
    }

    pub fn from_proof(p: &ipp::InnerProductProof<C>) -> Self { RawIp { lr: p.lr_vec.clone(), a: p.a, b: p.b } }

    pub fn to_proof(&self) -> ipp::InnerProductProof<C> { ipp::InnerProductProof { lr_vec: self.lr.clone(), a: self.a, b: self.b } }
}

impl<C: Curve> Raw<C> {
    pub fn parse(bytes: &[u8]) -> Option<Self> {
        let mut cur = std::io::Cursor::new(bytes);
        let big_a = C::deserial(&mut cur).ok()?;
        let big_s = C::deserial(&mut cur).ok()?;
        let t1 = C::deserial(&mut cur).ok()?;
        let t2 = C::deserial(&mut cur).ok()?;
        let tx = C::Scalar::deserial(&mut cur).ok()?;
        let tx_tilde = C::Scalar::deserial(&mut cur).ok()?;
        let e_tilde = C::Scalar::deserial(&mut cur).ok()?;
        let ip = RawIp::read(&mut cur)?;
        if cur.position() as usize != bytes.len() {
            return None;
        }
        Some(Raw { big_a, big_s, t1, t2, tx, tx_tilde, e_tilde, ip })
    }

    pub fn bytes(&self) -> Vec<u8> {
        let mut out = Vec::new();
        self.big_a.serial(&mut out);
        self.big_s.serial(&mut out);
        self.t1.serial(&mut out);
        self.t2.serial(&mut out);
        self.tx.serial(&mut out);
        self.tx_tilde.serial(&mut out);
        self.e_tilde.serial(&mut out);
        self.ip.write(&mut out);
        out
    }
}

/// Deserialise a proof struct from bytes, requiring all input to be consumed.
pub fn proof_from_bytes<P: Deserial>(bytes: &[u8]) -> Option<P> {
    let mut cur = std::io::Cursor::new(bytes);
    let p = P::deserial(&mut cur).ok()?;
    if cur.position() as usize != bytes.len() {
        return None;
    }
    Some(p)
}

// ------------------------------------------------------------------------------------------
// Perturbations of single components

/// Replace a group element by a different valid one.
pub fn perturb_point<C: Curve>(p: &C, how: usize, rng: &mut impl rand::Rng) -> C {
    let q = match how % 4 {
        0 => p.plus_point(&C::one_point()),
        1 => C::zero_point(),
        2 => p.inverse_point(),
        _ => C::generate(rng),
    };
    if q == *p {
        p.plus_point(&C::one_point())
    } else {
        q
    }
}

/// Replace a scalar by a different one.
pub fn perturb_scalar<C: Curve>(s: &C::Scalar, how: usize, rng: &mut impl rand::Rng) -> C::Scalar {
    let q = match how % 4 {
        0 => add(*s, &C::Scalar::one()),
        1 => C::Scalar::zero(),
        2 => neg(*s),
        _ => C::generate_scalar(rng),
    };
    if q == *s {
        add(*s, &C::Scalar::one())
    } else {
        q
    }
}

/// Number of distinct proof-component perturbations for a proof with `k` inner product rounds.
pub const PROOF_PERTS: usize = 16;

/// Apply the `which`-th single-component alteration of the proof; returns the name of the
/// component. `sel` selects the round for L/R alterations, `how` the replacement.
pub fn perturb_raw<C: Curve>(raw: &mut Raw<C>, which: usize, sel: usize, how: usize, rng: &mut impl rand::Rng) -> &'static str {
    let k = raw.ip.lr.len();
    match which % PROOF_PERTS {
        0 => {
            raw.big_a = perturb_point(&raw.big_a, how, rng);
            "proof.A"
        }
        1 => {
            raw.big_s = perturb_point(&raw.big_s, how, rng);
            "proof.S"
        }
        2 => {
            raw.t1 = perturb_point(&raw.t1, how, rng);
            "proof.T_1"
        }
        3 => {
            raw.t2 = perturb_point(&raw.t2, how, rng);
            "proof.T_2"
        }
        4 => {
            raw.tx = perturb_scalar::<C>(&raw.tx, how, rng);
            "proof.tx"
        }
        5 => {
            raw.tx_tilde = perturb_scalar::<C>(&raw.tx_tilde, how, rng);
            "proof.tx_tilde"
        }
        6 => {
            raw.e_tilde = perturb_scalar::<C>(&raw.e_tilde, how, rng);
            "proof.e_tilde"
        }
        7 => {
            raw.ip.a = perturb_scalar::<C>(&raw.ip.a, how, rng);
            "proof.ip.a"
        }
        8 => {
            raw.ip.b = perturb_scalar::<C>(&raw.ip.b, how, rng);
            "proof.ip.b"
        }
        9 if k > 0 => {
            let j = sel % k;
            raw.ip.lr[j].0 = perturb_point(&raw.ip.lr[j].0, how, rng);
            "proof.ip.L_j"
        }
        10 if k > 0 => {
            let j = sel % k;
            raw.ip.lr[j].1 = perturb_point(&raw.ip.lr[j].1, how, rng);
            "proof.ip.R_j"
        }
        11 if k > 0 && raw.ip.lr[sel % k].0 != raw.ip.lr[sel % k].1 => {
            let j = sel % k;
            let (l, r) = raw.ip.lr[j];
            raw.ip.lr[j] = (r, l);
            "proof.ip.L_j<->R_j"
        }
        12 if k > 1 && raw.ip.lr[0] != raw.ip.lr[k - 1] => {
            raw.ip.lr.swap(0, k - 1);
            "proof.ip.rounds-swapped"
        }
        13 if raw.ip.a != raw.ip.b => {
            std::mem::swap(&mut raw.ip.a, &mut raw.ip.b);
            "proof.ip.a<->b"
        }
        14 if raw.big_a != raw.big_s => {
            std::mem::swap(&mut raw.big_a, &mut raw.big_s);
            "proof.A<->S"
        }
        15 if raw.t1 != raw.t2 => {
            std::mem::swap(&mut raw.t1, &mut raw.t2);
            "proof.T_1<->T_2"
        }
        // fall-backs when the selected alteration does not apply (k = 0, equal components)
        9 | 10 | 11 | 12 => {
            raw.ip.a = perturb_scalar::<C>(&raw.ip.a, how, rng);
            "proof.ip.a"
        }
        _ => {
            raw.tx = perturb_scalar::<C>(&raw.tx, how, rng);
            "proof.tx"
        }
    }
}

/// Alterations of the *number* of inner product rounds. `k` is the honest number of rounds.
/// Returns `None` when the alteration does not apply.
#[derive(Clone, Copy, Debug, PartialEq, Eq)]
pub enum LenPert {
    /// Append a copy of the last round (or a fresh pair when there is none).
    Longer,
    /// Drop the last round.
    DropLast,
    /// Remove all rounds.
    Empty,
}

pub fn perturb_len<C: Curve>(raw: &mut Raw<C>, p: LenPert, rng: &mut impl rand::Rng) -> bool {
    match p {
        LenPert::Longer => {
            let pair = raw.ip.lr.last().copied().unwrap_or_else(|| (C::generate(rng), C::generate(rng)));
            raw.ip.lr.push(pair);
            true
        }
        LenPert::DropLast => raw.ip.lr.pop().is_some(),
        LenPert::Empty => {
            if raw.ip.lr.is_empty() {
                false
            } else {
                raw.ip.lr.clear();
                true
            }
        }
    }
}

/// Generator-set alterations inside the used prefix `0..used`.
pub fn perturb_gens<C: Curve>(gens: &mut Generators<C>, used: usize, which: usize, sel: usize, rng: &mut impl rand::Rng) -> &'static str {
    debug_assert!(used > 0);
    let i = sel % used;
    match which % 4 {
        0 => {
            gens.G_H[i].0 = perturb_point(&gens.G_H[i].0, 0, rng);
            "gens.G_i"
        }
        1 => {
            gens.G_H[i].1 = perturb_point(&gens.G_H[i].1, 3, rng);
            "gens.H_i"
        }
        2 => {
            let (g, h) = gens.G_H[i];
            if g != h {
                gens.G_H[i] = (h, g);
                "gens.G_i<->H_i"
            } else {
                gens.G_H[i].0 = perturb_point(&g, 0, rng);
                "gens.G_i"
            }
        }
        _ => {
            let j = (i + 1) % used;
            if used > 1 && gens.G_H[i] != gens.G_H[j] {
                gens.G_H.swap(i, j);
                "gens.order"
            } else {
                gens.G_H[i].1 = perturb_point(&gens.G_H[i].1, 0, rng);
                "gens.H_i"
            }
        }
    }
}

pub fn perturb_keys<C: Curve>(keys: &mut CommitmentKey<C>, which: usize, rng: &mut impl rand::Rng) -> &'static str {
    match which % 3 {
        0 => {
            keys.g = perturb_point(&keys.g, 0, rng);
            "keys.g"
        }
        1 => {
            keys.h = perturb_point(&keys.h, 0, rng);
            "keys.h"
        }
        _ => {
            if keys.g != keys.h {
                std::mem::swap(&mut keys.g, &mut keys.h);
                "keys.g<->h"
            } else {
                keys.h = perturb_point(&keys.h, 0, rng);
                "keys.h"
            }
        }
    }
}

/// Signature-safe rendering of a verification result.
pub fn res_name<E: std::fmt::Debug>(r: &Result<(), E>) -> String {
    match r {
        Ok(()) => "Ok".to_string(),
        Err(e) => format!("Err({e:?})"),
    }
}
