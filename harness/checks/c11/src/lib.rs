//! C11: range and set (non-)membership proofs accept exactly true statements.
pub mod common;
pub mod derived;
pub mod ipp;
pub mod range;
pub mod reference;
pub mod sets;

use common::*;
use vcore::{gen, CheckResult, Ctx, Property, Target, Unstructured};


fn t_range(data: &[u8], ctx: &mut Ctx) -> CheckResult {
    let mut u = Unstructured::new(data);
    if gen::ratio(&mut u, 7, 8) {
        range::run::<ArCurve>(&mut u, ctx)
    } else {
        range::run::<RistrettoPoint>(&mut u, ctx)
    }
}

fn t_derived(data: &[u8], ctx: &mut Ctx) -> CheckResult {
    let mut u = Unstructured::new(data);
    if gen::ratio(&mut u, 7, 8) {
        derived::run::<ArCurve>(&mut u, ctx)
    } else {
        derived::run::<RistrettoPoint>(&mut u, ctx)
    }
}

fn t_set_membership(data: &[u8], ctx: &mut Ctx) -> CheckResult {
    let mut u = Unstructured::new(data);
    if gen::ratio(&mut u, 7, 8) {
        sets::run::<ArCurve>(sets::Kind::Member, &mut u, ctx)
    } else {
        sets::run::<RistrettoPoint>(sets::Kind::Member, &mut u, ctx)
    }
}

fn t_set_non_membership(data: &[u8], ctx: &mut Ctx) -> CheckResult {
    let mut u = Unstructured::new(data);
    if gen::ratio(&mut u, 7, 8) {
        sets::run::<ArCurve>(sets::Kind::NonMember, &mut u, ctx)
    } else {
        sets::run::<RistrettoPoint>(sets::Kind::NonMember, &mut u, ctx)
    }
}

fn t_inner_product(data: &[u8], ctx: &mut Ctx) -> CheckResult {
    let mut u = Unstructured::new(data);
    if gen::ratio(&mut u, 7, 8) {
        ipp::run::<ArCurve>(&mut u, ctx)
    } else {
        ipp::run::<RistrettoPoint>(&mut u, ctx)
    }
}

fn t_ip_rounds(data: &[u8], ctx: &mut Ctx) -> CheckResult {
    let mut u = Unstructured::new(data);
    if gen::ratio(&mut u, 7, 8) {
        ipp::run_rounds::<ArCurve>(&mut u, ctx)
    } else {
        ipp::run_rounds::<RistrettoPoint>(&mut u, ctx)
    }
}

pub fn property() -> Property {
    Property {
        id: "C11",
        rule: "Each case is decoded from a choice sequence into a statement (curve: BLS12-381 G1 7/8, Ristretto 1/8; proof version 1/2; \
               legacy RandomOracle or TranscriptProtocolV1 with a domain and context messages; generators = a window of a fixed-seed pool, exact or \
               surplus length; fresh commitment key; zero or random commitment randomness) and a witness drawn from boundary tables: range \
               proofs n in {1,2,4,8,16,32,64} x m in {1,2,4,8} (n*m <= 256 quick, 512 thorough) with values 0,1,2^n-1,2^n-2,2^(n-1),random and, for false \
               statements, 2^n, 2^n+1, u64::MAX, random >= 2^n and (through prove_given_scalars) 2^64, 2^64+k, group order-1; unsupported shapes (n*m zero or \
               not a power of two, too few generators) must be refused; a<=b with a=b, b+-1, 0, 2^n-1; v in [a,b) with v=a, b-1, b, a-1, a+1, b+1, 0, u64::MAX, empty \
               and singleton intervals, optionally all shifted by 2^k (65<=k<=180); sets of size 0,1,2,3,4,5,7,8,9,16,17 (distinct or multiset, elements \
               0,1,-1,2^64-1,2^64,small,random) with v first/last/elsewhere/absent; inner product arguments of length 1..64 with zero/one/boundary/random \
               vectors. The honest prover is run (also on false witnesses where the API allows); the verifier of /repo must accept exactly the true \
               statements, leave the transcript in the prover's state, agree with an independent generator-folding reference verifier, and reject after \
               each of 5-12 single-component alterations per accepted proof (every proof field incl. each L_j/R_j and the number of rounds, commitments, \
               n, m, generators, keys, transcript, version, set element/order/length, cross-protocol). A case is non-trivial when a value/element is a \
               boundary value, the statement is within 1 of its truth boundary, v sits first/last/absent, the set is a singleton or needs padding, or \
               the shape is unsupported; distinct cases are counted by the hash of (curve, parameters, values, version, transcript).",
        assumptions: &[
            "Soundness is sampled, not proved: false statements are attacked only with the honest prover algorithm on a false witness and with single-component alterations of accepted proofs.",
            "Rejection of an altered proof is expected with overwhelming probability (random-oracle challenges); an accidental acceptance has probability about 2^-250.",
            "n <= 64 and |v_vec| = m (documented caller obligations of range_proof::prove); a <= b precondition of prove_less_than_or_equal: for a > b the real entry point is tried under catch (its u64 subtraction aborts under overflow checks) and the wrapping computation is replayed through range_proof::prove.",
            "The reference verifiers share the group/field arithmetic and the transcript hashing of /repo (Curve, Field, TranscriptProtocol); they are independent in the verification equations, the generator folding and the shape checks.",
            "Generators come from a per-process pool built from a fixed seed; commitment keys are sampled per case. Discrete-log relations between them are unknown to the prover code, as in production.",
            "A list that denotes the same set with the same power-of-two padding (last element repeated) is not required to be rejected or accepted; outcomes are recorded only.",
        ],
        targets: vec![
            Target::new("range", t_range).len(160, 400).cases(3000, 90_000).shrink_iters(200).floors(&[
                ("nontrivial", 0.30),
                ("boundary-value", 0.20),
                ("true-statement", 0.15),
                ("false-statement", 0.08),
                ("unsupported-shape", 0.03),
                ("n=64", 0.03),
                ("reference-verifier-run", 0.25),
            ]),
            Target::new("derived", t_derived).len(80, 200).cases(1400, 40_000).shrink_iters(200).floors(&[
                ("nontrivial", 0.30),
                ("leq:true", 0.10),
                ("leq:false", 0.03),
                ("in-range:true", 0.04),
                ("in-range:false", 0.08),
            ]),
            Target::new("set_membership", t_set_membership).len(160, 512).cases(1500, 45_000).shrink_iters(300).floors(&[
                ("nontrivial", 0.30),
                ("true-statement", 0.20),
                ("false-statement", 0.07),
                ("padded", 0.12),
                ("multiset", 0.04),
            ]),
            Target::new("set_non_membership", t_set_non_membership).len(160, 512).cases(1500, 45_000).shrink_iters(300).floors(&[
                ("nontrivial", 0.30),
                ("true-statement", 0.20),
                ("false-statement", 0.07),
                ("padded", 0.12),
                ("multiset", 0.04),
            ]),
            Target::new("inner_product", t_inner_product).len(100, 1400).cases(1000, 30_000).shrink_iters(300).floors(&[("nontrivial", 0.30), ("unsupported-length", 0.08)]),
            Target::new("ip_rounds", t_ip_rounds).len(40, 128).cases(400, 8_000).shrink_iters(200).floors(&[("fewer-rounds", 0.18), ("more-rounds", 0.10)]),
        ],
    }
}
