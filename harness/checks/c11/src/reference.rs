//! Independent ("slow") reference verifiers.
//!
//! `/repo` only has the optimised verifiers (one big multi-exponentiation with the scalars
//! `s_i`); there is no second implementation to compare them with. These reference verifiers are
//! written from the *prover's* definitions of the vector polynomials l(X), r(X) (the doc comments
//! in the prove functions and the Bulletproofs paper): they check
//!
//!   (1)  tx*B + tx_tilde*B~  ==  sum_j c_j*V_j + delta*B + x*T_1 + x^2*T_2
//!   (2)  P := A + x*S + cG*<1,G> + <cH, H'>,  H'_i = y^-i * H_i,  and the inner product
//!        argument for  P - e_tilde*B~ + tx*Q  (Q = w*B) by *folding the generators* round by
//!        round (G' = u^-1 G_lo + u G_hi, H' = u H_lo + u^-1 H_hi, P' = u^2 L + P + u^-2 R) and
//!        finally  P' == a*G_0 + b*H_0 + ab*Q,
//!
//! using plain scalar multiplications only. The Fiat-Shamir challenges are derived through the
//! public `TranscriptProtocol` API in the order the protocol prescribes. They reject a proof whose
//! number of rounds is not log2 of the (power of two) vector length.
use crate::common::*;

#[derive(Debug, Clone, PartialEq, Eq)]
pub enum RefErr {
    NotEnoughGenerators,
    Shape,
    First,
    Division,
    Second,
}

fn msum<C: Curve>(points: &[C], scalars: &[C::Scalar]) -> C {
    assert_eq!(points.len(), scalars.len());
    let mut acc = C::zero_point();
    for (p, s) in points.iter().zip(scalars) {
        acc = acc.plus_point(&p.mul_by_scalar(s));
    }
    acc
}

fn powers<F: Field>(base: F, n: usize) -> Vec<F> {
    let mut out = Vec::with_capacity(n);
    let mut cur = F::one();
    for _ in 0..n {
        out.push(cur);
        cur.mul_assign(&base);
    }
    out
}

fn sum<F: Field>(xs: &[F]) -> F {
    let mut s = F::zero();
    for x in xs {
        s.add_assign(x);
    }
    s
}

/// Reference verification of an inner product argument for `P = <a,G> + <b,H> + <a,b> Q`.
pub fn ref_ip<C: Curve, T: TranscriptProtocol>(tr: &mut T, g: &[C], h: &[C], p: &C, q: &C, proof: &RawIp<C>) -> Result<(), RefErr> {
    let mut n = g.len();
    if n == 0 || !n.is_power_of_two() || h.len() != n {
        return Err(RefErr::Shape);
    }
    if proof.lr.len() != n.trailing_zeros() as usize {
        return Err(RefErr::Shape);
    }
    let mut g = g.to_vec();
    let mut h = h.to_vec();
    let mut p = *p;
    for (l, r) in &proof.lr {
        tr.append_message(b"Lj", l);
        tr.append_message(b"Rj", r);
        let u: C::Scalar = tr.extract_challenge_scalar::<C>(b"uj");
        let u_inv = u.inverse().ok_or(RefErr::Division)?;
        let u2 = mul(u, &u);
        let u_inv2 = mul(u_inv, &u_inv);
        p = l.mul_by_scalar(&u2).plus_point(&p).plus_point(&r.mul_by_scalar(&u_inv2));
        let half = n / 2;
        for i in 0..half {
            g[i] = g[i].mul_by_scalar(&u_inv).plus_point(&g[i + half].mul_by_scalar(&u));
            h[i] = h[i].mul_by_scalar(&u).plus_point(&h[i + half].mul_by_scalar(&u_inv));
        }
        n = half;
    }
    tr.append_final_prover_message(b"a", &proof.a);
    tr.append_final_prover_message(b"b", &proof.b);
    let ab = mul(proof.a, &proof.b);
    let rhs = g[0].mul_by_scalar(&proof.a).plus_point(&h[0].mul_by_scalar(&proof.b)).plus_point(&q.mul_by_scalar(&ab));
    if rhs == p {
        Ok(())
    } else {
        Err(RefErr::Second)
    }
}

/// What the three bulletproof-style protocols differ in (besides the transcript layout).
struct Eqs<C: Curve> {
    /// coefficients c_j of the value commitments in equation (1)
    v_coeffs: Vec<C::Scalar>,
    delta:    C::Scalar,
    /// coefficient of every G_i in P
    g_coeff:  C::Scalar,
    /// coefficient of H'_i in P
    hp_coeffs: Vec<C::Scalar>,
}

#[allow(clippy::too_many_arguments)]
fn tail<C: Curve, T: TranscriptProtocol>(
    tr: &mut T,
    raw: &Raw<C>,
    g: &[C],
    h: &[C],
    vs: &[C],
    keys: &CommitmentKey<C>,
    y: C::Scalar,
    x: C::Scalar,
    w: C::Scalar,
    eqs: Eqs<C>,
) -> Result<(), RefErr> {
    let b = keys.g;
    let b_tilde = keys.h;
    let x2 = mul(x, &x);
    // (1)
    let lhs = b.mul_by_scalar(&raw.tx).plus_point(&b_tilde.mul_by_scalar(&raw.tx_tilde));
    let rhs = msum(vs, &eqs.v_coeffs)
        .plus_point(&b.mul_by_scalar(&eqs.delta))
        .plus_point(&raw.t1.mul_by_scalar(&x))
        .plus_point(&raw.t2.mul_by_scalar(&x2));
    if lhs != rhs {
        return Err(RefErr::First);
    }
    // (2)
    let y_inv = y.inverse().ok_or(RefErr::Division)?;
    let y_inv_pows = powers(y_inv, h.len());
    let h_prime: Vec<C> = h.iter().zip(&y_inv_pows).map(|(hi, c)| hi.mul_by_scalar(c)).collect();
    let mut g_sum = C::zero_point();
    for gi in g {
        g_sum = g_sum.plus_point(gi);
    }
    let q = b.mul_by_scalar(&w);
    let p = raw
        .big_a
        .plus_point(&raw.big_s.mul_by_scalar(&x))
        .plus_point(&g_sum.mul_by_scalar(&eqs.g_coeff))
        .plus_point(&msum(&h_prime, &eqs.hp_coeffs))
        .minus_point(&b_tilde.mul_by_scalar(&raw.e_tilde))
        .plus_point(&q.mul_by_scalar(&raw.tx));
    ref_ip(tr, g, &h_prime, &p, &q, &raw.ip)
}

/// Reference verifier for the aggregated range proof (`range_proof::verify_efficient`).
pub fn ref_range<C: Curve, T: TranscriptProtocol>(
    version: ProofVersion,
    tr: &mut T,
    n: u8,
    commitments: &[Commitment<C>],
    raw: &Raw<C>,
    gens: &Generators<C>,
    keys: &CommitmentKey<C>,
) -> Result<(), RefErr> {
    let m = commitments.len();
    let nn = usize::from(n);
    let nm = nn * m;
    if gens.G_H.len() < nm {
        return Err(RefErr::NotEnoughGenerators);
    }
    let g: Vec<C> = gens.G_H[..nm].iter().map(|x| x.0).collect();
    let h: Vec<C> = gens.G_H[..nm].iter().map(|x| x.1).collect();
    if version >= ProofVersion::Version2 {
        tr.append_message(b"G", &g);
        tr.append_message(b"H", &h);
        tr.append_message(b"v_keys", keys);
        tr.append_message(b"n", &n);
    }
    for v in commitments {
        tr.append_message(b"Vj", &v.0);
    }
    tr.append_message(b"A", &raw.big_a);
    tr.append_message(b"S", &raw.big_s);
    let y: C::Scalar = tr.extract_challenge_scalar::<C>(b"y");
    let z: C::Scalar = tr.extract_challenge_scalar::<C>(b"z");
    tr.append_message(b"T1", &raw.t1);
    tr.append_message(b"T2", &raw.t2);
    let x: C::Scalar = tr.extract_challenge_scalar::<C>(b"x");
    tr.append_message(b"tx", &raw.tx);
    tr.append_message(b"tx_tilde", &raw.tx_tilde);
    tr.append_message(b"e_tilde", &raw.e_tilde);
    let w: C::Scalar = tr.extract_challenge_scalar::<C>(b"w");

    // l_0 = a_L - z,  r_0[i] = y^i (a_R[i] + z) + z^(2+j) 2^(i mod n),  j = i div n
    // t_0 = sum_j z^(2+j) v_j + delta,  delta = (z - z^2) <1,y^nm> - sum_j z^(3+j) <1,2^n>
    let z_pows = powers(z, m + 3);
    let y_pows = powers(y, nm);
    let two_pows = powers(C::scalar_from_u64(2), nn);
    let sum_two = sum(&two_pows);
    let mut delta = mul(sub(z, &z_pows[2]), &sum(&y_pows));
    for j in 0..m {
        delta.sub_assign(&mul(z_pows[3 + j], &sum_two));
    }
    let v_coeffs: Vec<C::Scalar> = (0..m).map(|j| z_pows[2 + j]).collect();
    let mut hp_coeffs = Vec::with_capacity(nm);
    for i in 0..nm {
        let j = i / nn;
        hp_coeffs.push(add(mul(z, &y_pows[i]), &mul(z_pows[2 + j], &two_pows[i % nn])));
    }
    let vs: Vec<C> = commitments.iter().map(|c| c.0).collect();
    tail(tr, raw, &g, &h, &vs, keys, y, x, w, Eqs { v_coeffs, delta, g_coeff: neg(z), hp_coeffs })
}

fn padded<F: Field>(set: &[F]) -> Vec<F> {
    // documented convention (utils.rs): pad to a power of two by repeating the last element
    let mut v = set.to_vec();
    if let Some(last) = v.last().copied() {
        while !v.len().is_power_of_two() {
            v.push(last);
        }
    }
    v
}

/// Reference verifier for the set membership proof.
pub fn ref_set_membership<C: Curve, T: TranscriptProtocol>(
    version: ProofVersion,
    tr: &mut T,
    the_set: &[C::Scalar],
    v: &Commitment<C>,
    raw: &Raw<C>,
    gens: &Generators<C>,
    keys: &CommitmentKey<C>,
) -> Result<(), RefErr> {
    let set = padded(the_set);
    let n = set.len();
    if gens.G_H.len() < n {
        return Err(RefErr::NotEnoughGenerators);
    }
    let g: Vec<C> = gens.G_H[..n].iter().map(|x| x.0).collect();
    let h: Vec<C> = gens.G_H[..n].iter().map(|x| x.1).collect();
    tr.append_label(b"SetMembershipProof");
    if version >= ProofVersion::Version2 {
        tr.append_message(b"G", &g);
        tr.append_message(b"H", &h);
        tr.append_message(b"v_keys", keys);
    }
    tr.append_message(b"V", &v.0);
    tr.append_message(b"theSet", &set);
    tr.append_message(b"A", &raw.big_a);
    tr.append_message(b"S", &raw.big_s);
    let y: C::Scalar = tr.extract_challenge_scalar::<C>(b"y");
    let z: C::Scalar = tr.extract_challenge_scalar::<C>(b"z");
    tr.append_message(b"T1", &raw.t1);
    tr.append_message(b"T2", &raw.t2);
    let x: C::Scalar = tr.extract_challenge_scalar::<C>(b"x");
    tr.append_message(b"tx", &raw.tx);
    tr.append_message(b"tx_tilde", &raw.tx_tilde);
    tr.append_message(b"e_tilde", &raw.e_tilde);
    let w: C::Scalar = tr.extract_challenge_scalar::<C>(b"w");

    // l_0 = a_L - z, r_0[i] = y^i (a_R[i] + z) + z^3 + z^2 s_i
    // t_0 = z^2 v + delta, delta = (z - z^2) <1,y^n> + z^3 (1 - n z - <1,s>)
    let z2 = mul(z, &z);
    let z3 = mul(z2, &z);
    let y_pows = powers(y, n);
    let mut bracket = C::Scalar::one();
    bracket.sub_assign(&mul(C::scalar_from_u64(n as u64), &z));
    bracket.sub_assign(&sum(&set));
    let delta = add(mul(sub(z, &z2), &sum(&y_pows)), &mul(z3, &bracket));
    let hp_coeffs: Vec<C::Scalar> = (0..n).map(|i| add(add(mul(z, &y_pows[i]), &mul(z2, &set[i])), &z3)).collect();
    tail(tr, raw, &g, &h, &[v.0], keys, y, x, w, Eqs { v_coeffs: vec![z2], delta, g_coeff: neg(z), hp_coeffs })
}

/// Reference verifier for the set non-membership proof.
pub fn ref_set_non_membership<C: Curve, T: TranscriptProtocol>(
    version: ProofVersion,
    tr: &mut T,
    the_set: &[C::Scalar],
    v: &Commitment<C>,
    raw: &Raw<C>,
    gens: &Generators<C>,
    keys: &CommitmentKey<C>,
) -> Result<(), RefErr> {
    let set = padded(the_set);
    let n = set.len();
    if gens.G_H.len() < n {
        return Err(RefErr::NotEnoughGenerators);
    }
    let g: Vec<C> = gens.G_H[..n].iter().map(|x| x.0).collect();
    let h: Vec<C> = gens.G_H[..n].iter().map(|x| x.1).collect();
    tr.append_label(b"SetNonMembershipProof");
    if version >= ProofVersion::Version2 {
        tr.append_message(b"G", &g);
        tr.append_message(b"H", &h);
        tr.append_message(b"v_keys", keys);
    }
    tr.append_message(b"V", &v.0);
    tr.append_message(b"theSet", &set);
    tr.append_message(b"A", &raw.big_a);
    tr.append_message(b"S", &raw.big_s);
    let y: C::Scalar = tr.extract_challenge_scalar::<C>(b"y");
    let z: C::Scalar = tr.extract_challenge_scalar::<C>(b"z");
    tr.append_message(b"T1", &raw.t1);
    tr.append_message(b"T2", &raw.t2);
    let x: C::Scalar = tr.extract_challenge_scalar::<C>(b"x");
    tr.append_message(b"tx", &raw.tx);
    tr.append_message(b"tx_tilde", &raw.tx_tilde);
    tr.append_message(b"e_tilde", &raw.e_tilde);
    let w: C::Scalar = tr.extract_challenge_scalar::<C>(b"w");

    // l_0[i] = a_L[i] + z with a_L[i] = (v - s_i)^-1,  r_0[i] = y^i (v - s_i)
    // t_0 = <1,y^n> + z v <1,y^n> - z <s,y^n>
    let y_pows = powers(y, n);
    let sum_y = sum(&y_pows);
    let mut s_y = C::Scalar::zero();
    for i in 0..n {
        s_y.add_assign(&mul(set[i], &y_pows[i]));
    }
    let delta = sub(sum_y, &mul(z, &s_y));
    let hp_coeffs: Vec<C::Scalar> = (0..n).map(|i| neg(mul(set[i], &y_pows[i]))).collect();
    tail(tr, raw, &g, &h, &[v.0], keys, y, x, w, Eqs { v_coeffs: vec![mul(z, &sum_y)], delta, g_coeff: z, hp_coeffs })
}
