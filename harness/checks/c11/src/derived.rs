//! Target `derived`: the statements built on top of the aggregated range proof,
//! `a <= b` (`prove_less_than_or_equal` / `verify_less_than_or_equal`) and `v in [a, b)`
//! (`prove_in_range` / `verify_in_range`).
use crate::{common::*, range::{err, max_in_range}, with_tr};
use vcore::{gen, CheckResult, Ctx, Unstructured};

pub fn run<C: TCurve>(u: &mut Unstructured, ctx: &mut Ctx) -> CheckResult {
    if gen::ratio(u, 4, 8) {
        run_leq::<C>(u, ctx)
    } else {
        run_in_range::<C>(u, ctx)
    }
}

// ------------------------------------------------------------------------------------------
// a <= b

#[derive(Clone)]
struct LeqIn<C: Curve> {
    tr:    TrSpec,
    n:     u8,
    com_a: Commitment<C>,
    com_b: Commitment<C>,
    proof: Vec<u8>,
    gens:  Generators<C>,
    keys:  CommitmentKey<C>,
}

fn leq_verify<C: Curve>(v: &LeqIn<C>) -> Result<(bool, Vec<u8>), String> {
    let proof: rp::RangeProof<C> = proof_from_bytes(&v.proof).ok_or_else(|| "a well-formed proof encoding does not deserialise".to_string())?;
    Ok(with_tr!(v.tr, |t| {
        let r = rp::verify_less_than_or_equal(&mut t, v.n, &v.com_a, &v.com_b, &proof, &v.gens, &v.keys);
        (r, t.extract_raw_challenge().as_ref().to_vec())
    }))
}

const LEQ_N: [u8; 9] = [8, 8, 8, 1, 2, 4, 16, 32, 64];
const LEQ_PERTS: usize = 28;

fn run_leq<C: TCurve>(u: &mut Unstructured, ctx: &mut Ctx) -> CheckResult {
    let mut rng = gen::rng(u);
    let tr = TrSpec::decode(u);
    let n = LEQ_N[gen::idx(u, LEQ_N.len())];
    let max = max_in_range(n);
    let (b, b_kind) = match gen::idx(u, 6) {
        0 => (0u64, "0"),
        1 => (max, "2^n-1"),
        2 => (1.min(max), "1"),
        3 => (max / 2 + 1, "2^(n-1)"),
        4 => (max - 1.min(max), "2^n-2"),
        _ => (gen::u64v(u) & max, "random"),
    };
    // relation of a to b; everything is kept inside [0, 2^n) (the documented assumption)
    let (a, rel) = match gen::idx(u, 8) {
        0 => (b, "a=b"),
        1 if b > 0 => (b - 1, "a=b-1"),
        2 if b < max => (b + 1, "a=b+1"),
        3 => (0, "a=0"),
        4 => (max, "a=2^n-1"),
        5 if b > 0 => (gen::u64v(u) % b, "a<b random"),
        6 if b < max => (b + 1 + gen::u64v(u) % (max - b), "a>b random"),
        _ => (b, "a=b"),
    };
    let truth = a <= b;
    let zero_ra = rare(u, 1, 8);
    let zero_rb = rare(u, 1, 8);
    let extra_gens = [0usize, 0, 1, 9][gen::idx(u, 4)];
    let pool_off = gen::idx(u, 16);
    let n_perts = if ctx.tier == vcore::Tier::Thorough { 10 } else { 5 };
    let pert_choices: Vec<(usize, usize, usize)> = (0..n_perts).map(|_| (gen::idx(u, LEQ_PERTS), gen::byte(u) as usize, gen::byte(u) as usize)).collect();

    let need = 2 * usize::from(n);
    let gens = gens_from_pool::<C>(pool_off, need + extra_gens);
    let keys = CommitmentKey { g: C::generate(&mut rng), h: C::generate(&mut rng) };
    let ra: Randomness<C> = if zero_ra { Randomness::zero() } else { Randomness::generate(&mut rng) };
    let rb: Randomness<C> = if zero_rb { Randomness::zero() } else { Randomness::generate(&mut rng) };
    let com_a = keys.hide_worker(&C::scalar_from_u64(a), &ra);
    let com_b = keys.hide_worker(&C::scalar_from_u64(b), &rb);

    let describe = || {
        format!(
            "a <= b on {}: transcript={} n={} a={} b={} ({}, b is {}) statement is {} |gens|={} pool_off={}{}{}",
            C::NAME,
            tr.show(),
            n,
            a,
            b,
            rel,
            b_kind,
            truth,
            need + extra_gens,
            pool_off,
            if zero_ra { " r_a=0" } else { "" },
            if zero_rb { " r_b=0" } else { "" }
        )
    };
    ctx.describe(describe);
    ctx.sample(describe);
    ctx.class("leq");
    ctx.class(&format!("leq:n={n}"));
    ctx.class(&format!("leq:{rel}"));
    ctx.class(if truth { "leq:true" } else { "leq:false" });
    // within 1 of the truth boundary, or a/b at the end of the domain
    if a == b || a == b.wrapping_add(1) || a.wrapping_add(1) == b || a == 0 || b == max || a == max || b == 0 {
        ctx.nontrivial(&("leq", C::NAME, n, a, b, &tr));
        ctx.class("leq:boundary");
        ctx.class("nontrivial");
    }

    if !truth {
        // The real entry point on a > b. It is only specified "for proving that a <= b": it
        // computes `b - a` on u64, which aborts under overflow checks (this harness) and wraps
        // without them. A panic here is therefore counted as a refusal; but if a proof comes out
        // it must not verify.
        let attempt = vcore::catch(|| with_tr!(tr, |t| rp::prove_less_than_or_equal(&mut t, &mut rng.clone(), n, a, b, &gens, &keys, &ra, &rb)));
        match attempt {
            Err(_) => ctx.class("leq:false-prover-aborts(b-a underflow)"),
            Ok(None) => ctx.class("leq:false-prover-refused"),
            Ok(Some(p)) => {
                ctx.class("leq:false-prover-produced-proof");
                let vin = LeqIn { tr: tr.clone(), n, com_a, com_b, proof: to_bytes(&p), gens: gens.clone(), keys };
                let (ok, _) = leq_verify(&vin).map_err(|e| err("proof-serialization", "deserialise", e))?;
                if ok {
                    return Err(err("false-accepted", "leq-entry-point", format!("prove_less_than_or_equal produced a proof for a > b and verify_less_than_or_equal accepts it: {}", describe())));
                }
            }
        }
    }
    let (proof, prover_state) = with_tr!(tr, |t| {
        let p = if truth {
            rp::prove_less_than_or_equal(&mut t, &mut rng, n, a, b, &gens, &keys, &ra, &rb)
        } else {
            // `prove_less_than_or_equal` computes `b - a` on u64: for a > b this wraps in a build
            // without overflow checks and aborts with them. The function is only specified for
            // a <= b, so the false statement is put through exactly what it does in the wrapping
            // build: the honest prover on [b - a mod 2^64, a] with randomness [r_b - r_a, r_a].
            let rdiff = Randomness::<C>::new(sub(*rb, &*ra));
            rp::prove(ProofVersion::Version1, &mut t, &mut rng, n, 2, &[b.wrapping_sub(a), a], &gens, &keys, &[rdiff, ra.clone()])
        };
        (p, t.extract_raw_challenge().as_ref().to_vec())
    });
    let proof = match proof {
        Some(p) => p,
        None => {
            if truth {
                return Err(err("completeness", "leq-prover-refused", format!("prove_less_than_or_equal returned None for a true statement: {}", describe())));
            }
            return Ok(());
        }
    };
    let proof_bytes = to_bytes(&proof);
    let raw = Raw::<C>::parse(&proof_bytes).ok_or_else(|| err("proof-serialization", "layout", "cannot parse serialised RangeProof".into()))?;
    let base = LeqIn { tr: tr.clone(), n, com_a, com_b, proof: proof_bytes, gens: gens.clone(), keys };
    let (ok, verifier_state) = leq_verify(&base).map_err(|e| err("proof-serialization", "deserialise", e))?;
    if truth {
        if !ok {
            return Err(err("completeness", "leq-verify", format!("honest proof of a true statement a <= b rejected: {}", describe())));
        }
        if prover_state != verifier_state {
            return Err(err("transcript-sync", "leq", format!("prover and verifier leave the transcript in different states: {}", describe())));
        }
    } else {
        if ok {
            return Err(err("false-accepted", "leq", format!("verify_less_than_or_equal accepts a > b: {}", describe())));
        }
        return Ok(());
    }

    for (which, sel, how) in pert_choices {
        let mut v = base.clone();
        let name: String = match which {
            0..=15 => {
                let mut r = raw.clone();
                let nm_ = perturb_raw(&mut r, which, sel, how, &mut rng);
                v.proof = r.bytes();
                nm_.to_string()
            }
            16 => {
                let mut r = raw.clone();
                let p = [LenPert::Longer, LenPert::DropLast, LenPert::Empty][how % 3];
                if perturb_len(&mut r, p, &mut rng) && p != LenPert::Longer {
                    v.proof = r.bytes();
                    "proof.ip.rounds-fewer".to_string()
                } else {
                    let mut r = raw.clone();
                    perturb_len(&mut r, LenPert::Longer, &mut rng);
                    v.proof = r.bytes();
                    "proof.ip.rounds+1".to_string()
                }
            }
            17 => {
                if v.com_a != v.com_b {
                    std::mem::swap(&mut v.com_a, &mut v.com_b);
                    "commitments a<->b".to_string()
                } else {
                    v.com_a = Commitment(v.com_a.0.plus_point(&keys.g));
                    "commitment_a.value+1".to_string()
                }
            }
            18 => {
                // a+1: for a = b this turns the statement false, otherwise it stays true but is a
                // different statement
                v.com_a = Commitment(v.com_a.0.plus_point(&keys.g));
                "commitment_a.value+1".to_string()
            }
            19 => {
                v.com_b = Commitment(v.com_b.0.minus_point(&keys.g));
                "commitment_b.value-1".to_string()
            }
            20 => {
                v.com_b = Commitment(v.com_b.0.plus_point(&keys.g));
                "commitment_b.value+1".to_string()
            }
            21 => {
                v.com_a = Commitment(v.com_a.0.plus_point(&keys.h));
                "commitment_a.randomness+1".to_string()
            }
            22 => {
                let cands: Vec<u8> = [n / 2, n.saturating_mul(2), n - 1, n + 1].into_iter().filter(|x| *x <= 64 && *x != n).collect();
                let n2 = cands[sel % cands.len()];
                v.n = n2;
                v.gens = gens_from_pool::<C>(pool_off, (need + extra_gens).max(2 * usize::from(n2)));
                format!("n {}", if n2 < n { "smaller" } else { "larger" })
            }
            23 => perturb_gens(&mut v.gens, need, how, sel, &mut rng).to_string(),
            24 => {
                v.gens.G_H.truncate(need - 1);
                "gens.truncated".to_string()
            }
            25 => perturb_keys(&mut v.keys, how, &mut rng).to_string(),
            26 => {
                let (t2, nm_) = perturb_tr(&v.tr, sel);
                v.tr = t2;
                nm_.to_string()
            }
            _ => {
                // both commitments shifted by the same value: a+1 <= b+1 is as true as a <= b but
                // it is a different statement (the second committed value changes)
                v.com_a = Commitment(v.com_a.0.plus_point(&keys.g));
                v.com_b = Commitment(v.com_b.0.plus_point(&keys.g));
                "commitments both +1".to_string()
            }
        };
        ctx.class(&format!("leq-pert:{name}"));
        let (r, _) = leq_verify(&v).map_err(|e| err("proof-serialization", "deserialise-perturbed", format!("{e} ({name})")))?;
        if r {
            return Err(err("binding", &format!("leq:{name}"), format!("a <= b proof still verifies after altering {name}: {}", describe())));
        }
    }
    Ok(())
}

// ------------------------------------------------------------------------------------------
// v in [a, b)

#[derive(Clone)]
struct InRangeIn<C: Curve> {
    version: ProofVersion,
    tr:      TrSpec,
    a:       C::Scalar,
    b:       C::Scalar,
    com:     Commitment<C>,
    proof:   Vec<u8>,
    gens:    Generators<C>,
    keys:    CommitmentKey<C>,
}

fn in_range_verify<C: Curve>(v: &InRangeIn<C>) -> Result<(Result<(), rp::VerificationError>, Vec<u8>), String> {
    let proof: rp::RangeProof<C> = proof_from_bytes(&v.proof).ok_or_else(|| "a well-formed proof encoding does not deserialise".to_string())?;
    Ok(with_tr!(v.tr, |t| {
        let r = rp::verify_in_range(v.version, &mut t, &v.keys, &v.gens, v.a, v.b, &v.com, &proof);
        (r, t.extract_raw_challenge().as_ref().to_vec())
    }))
}

const IR_PERTS: usize = 30;

fn run_in_range<C: TCurve>(u: &mut Unstructured, ctx: &mut Ctx) -> CheckResult {
    let mut rng = gen::rng(u);
    let version = decode_version(u);
    let tr = TrSpec::decode(u);
    // interval [a, b)
    let (a, b, ab_kind) = match gen::idx(u, 8) {
        0 => {
            let b = gen::boundary_u64(u);
            (0, b, "a=0")
        }
        1 => {
            let a = gen::boundary_u64(u);
            (a, u64::MAX, "b=u64::MAX")
        }
        2 => (0, u64::MAX, "[0,u64::MAX)"),
        3 => {
            let a = gen::boundary_u64(u);
            (a, a, "a=b (empty)")
        }
        4 => {
            let a = gen::boundary_u64(u);
            (a, a.saturating_add(1), "b=a+1 (singleton)")
        }
        5 => {
            let x = gen::boundary_u64(u);
            let y = gen::boundary_u64(u);
            (x.max(y), x.min(y), "a>=b (empty)")
        }
        _ => {
            let x = gen::boundary_u64(u);
            let y = gen::boundary_u64(u);
            (x.min(y), x.max(y), "a<=b")
        }
    };
    let (v, rel) = match gen::idx(u, 13) {
        0 => (a, "v=a"),
        1 => (b.wrapping_sub(1), "v=b-1"),
        2 => (b, "v=b"),
        3 => (a.wrapping_sub(1), "v=a-1"),
        4 => (a.wrapping_add(1), "v=a+1"),
        5 => (b.wrapping_add(1), "v=b+1"),
        6 => (0, "v=0"),
        7 => (u64::MAX, "v=u64::MAX"),
        8 | 10 | 11 if a < b => (a + gen::u64v(u) % (b - a), "v inside"),
        _ => (gen::boundary_u64(u), "v arbitrary"),
    };
    let truth = a <= v && v < b;
    // The statement only depends on differences; occasionally move everything up by a common
    // offset so that the scalars no longer fit 64 bits (attribute values are up to 31 bytes).
    let offset: Option<u64> = if rare(u, 1, 8) { Some(gen::range_u64(u, 65, 180)) } else { None };
    let zero_r = rare(u, 1, 8);
    let extra_gens = [0usize, 0, 1, 9][gen::idx(u, 4)];
    let pool_off = gen::idx(u, 16);
    let n_perts = if ctx.tier == vcore::Tier::Thorough { 8 } else { 4 };
    let pert_choices: Vec<(usize, usize, usize)> = (0..n_perts).map(|_| (gen::idx(u, IR_PERTS), gen::byte(u) as usize, gen::byte(u) as usize)).collect();

    let off_s = offset.map(two_pow::<C>).unwrap_or_else(C::Scalar::zero);
    let a_s = add(C::scalar_from_u64(a), &off_s);
    let b_s = add(C::scalar_from_u64(b), &off_s);
    let v_s = add(C::scalar_from_u64(v), &off_s);
    let need = 128usize;
    let gens = gens_from_pool::<C>(pool_off, need + extra_gens);
    let keys = CommitmentKey { g: C::generate(&mut rng), h: C::generate(&mut rng) };
    let r: Randomness<C> = if zero_r { Randomness::zero() } else { Randomness::generate(&mut rng) };
    let com = keys.hide_worker(&v_s, &r);

    let describe = || {
        format!(
            "v in [a,b) on {}: version={} transcript={} a={} b={} ({}) v={} ({}){} statement is {} |gens|={} pool_off={}{}",
            C::NAME,
            version_name(version),
            tr.show(),
            a,
            b,
            ab_kind,
            v,
            rel,
            offset.map(|k| format!(" all three + 2^{k}")).unwrap_or_default(),
            truth,
            need + extra_gens,
            pool_off,
            if zero_r { " r=0" } else { "" }
        )
    };
    ctx.describe(describe);
    ctx.sample(describe);
    ctx.class("in-range");
    ctx.class(&format!("in-range:{rel}"));
    ctx.class(&format!("in-range:{ab_kind}"));
    ctx.class(if truth { "in-range:true" } else { "in-range:false" });
    if offset.is_some() {
        ctx.class("in-range:offset");
    }
    if v == a || v == b || v.wrapping_add(1) == b || v.wrapping_add(1) == a || v == 0 || v == u64::MAX {
        ctx.nontrivial(&("in-range", C::NAME, a, b, v, offset, version == ProofVersion::Version2, &tr));
        ctx.class("in-range:boundary");
        ctx.class("nontrivial");
    }

    let (proof, prover_state) = with_tr!(tr, |t| {
        let p = rp::prove_in_range(version, &mut t, &mut rng, &gens, &keys, v_s, a_s, b_s, &r);
        (p, t.extract_raw_challenge().as_ref().to_vec())
    });
    let proof = match proof {
        Some(p) => p,
        None => {
            if truth {
                return Err(err("completeness", "in-range-prover-refused", format!("prove_in_range returned None for a true statement: {}", describe())));
            }
            ctx.class("in-range:false-prover-refused");
            return Ok(());
        }
    };
    let proof_bytes = to_bytes(&proof);
    let raw = Raw::<C>::parse(&proof_bytes).ok_or_else(|| err("proof-serialization", "layout", "cannot parse serialised RangeProof".into()))?;
    let base = InRangeIn { version, tr: tr.clone(), a: a_s, b: b_s, com, proof: proof_bytes, gens: gens.clone(), keys };
    let (res, verifier_state) = in_range_verify(&base).map_err(|e| err("proof-serialization", "deserialise", e))?;
    if truth {
        if res.is_err() {
            return Err(err("completeness", "in-range-verify", format!("honest proof of a true statement v in [a,b) rejected with {}: {}", res_name(&res), describe())));
        }
        if prover_state != verifier_state {
            return Err(err("transcript-sync", "in-range", format!("prover and verifier leave the transcript in different states: {}", describe())));
        }
    } else {
        if res.is_ok() {
            return Err(err("false-accepted", "in-range", format!("verify_in_range accepts a false statement: {}", describe())));
        }
        return Ok(());
    }

    let one = C::Scalar::one();
    for (which, sel, how) in pert_choices {
        let mut w = base.clone();
        let name: String = match which {
            0..=15 => {
                let mut r = raw.clone();
                let nm_ = perturb_raw(&mut r, which, sel, how, &mut rng);
                w.proof = r.bytes();
                nm_.to_string()
            }
            16 => {
                let mut r = raw.clone();
                let p = [LenPert::Longer, LenPert::DropLast, LenPert::Empty][how % 3];
                if perturb_len(&mut r, p, &mut rng) && p != LenPert::Longer {
                    w.proof = r.bytes();
                    "proof.ip.rounds-fewer".to_string()
                } else {
                    let mut r = raw.clone();
                    perturb_len(&mut r, LenPert::Longer, &mut rng);
                    w.proof = r.bytes();
                    "proof.ip.rounds+1".to_string()
                }
            }
            17 => {
                w.a = add(w.a, &one);
                "a+1".to_string()
            }
            18 => {
                w.a = sub(w.a, &one);
                "a-1".to_string()
            }
            19 => {
                w.b = add(w.b, &one);
                "b+1".to_string()
            }
            20 => {
                w.b = sub(w.b, &one);
                "b-1".to_string()
            }
            21 => {
                std::mem::swap(&mut w.a, &mut w.b);
                "a<->b".to_string()
            }
            22 => {
                w.com = Commitment(w.com.0.plus_point(&keys.g));
                "commitment.value+1".to_string()
            }
            23 => {
                w.com = Commitment(w.com.0.minus_point(&keys.g));
                "commitment.value-1".to_string()
            }
            24 => {
                w.com = Commitment(w.com.0.plus_point(&keys.h));
                "commitment.randomness+1".to_string()
            }
            25 => perturb_gens(&mut w.gens, need, how, sel, &mut rng).to_string(),
            26 => {
                w.gens.G_H.truncate(need - 1);
                "gens.truncated".to_string()
            }
            27 => perturb_keys(&mut w.keys, how, &mut rng).to_string(),
            28 => {
                let (t2, nm_) = perturb_tr(&w.tr, sel);
                w.tr = t2;
                nm_.to_string()
            }
            _ => {
                w.version = flip_version(w.version);
                "version".to_string()
            }
        };
        ctx.class(&format!("in-range-pert:{name}"));
        let (r, _) = in_range_verify(&w).map_err(|e| err("proof-serialization", "deserialise-perturbed", format!("{e} ({name})")))?;
        if r.is_ok() {
            return Err(err("binding", &format!("in-range:{name}"), format!("v in [a,b) proof still verifies after altering {name}: {}", describe())));
        }
    }
    Ok(())
}
