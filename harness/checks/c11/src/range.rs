//! Target `range`: aggregated range proofs `prove` / `prove_given_scalars` / `verify_efficient`.
use crate::{common::*, reference::*, with_tr};
use vcore::{gen, CheckResult, Ctx, Tier, Unstructured, Violation};

/// Everything `verify_efficient` sees.
#[derive(Clone)]
pub struct VIn<C: Curve> {
    pub version:     ProofVersion,
    pub tr:          TrSpec,
    pub n:           u8,
    pub commitments: Vec<Commitment<C>>,
    pub proof:       Vec<u8>,
    pub gens:        Generators<C>,
    pub keys:        CommitmentKey<C>,
}

pub type VOut = Result<(), rp::VerificationError>;

/// Run the verifier of `/repo` on the (deserialised) proof; also returns the transcript state
/// after verification.
pub fn verify_eff<C: Curve>(v: &VIn<C>) -> Result<(VOut, Vec<u8>), String> {
    let proof: rp::RangeProof<C> =
        proof_from_bytes(&v.proof).ok_or_else(|| "a well-formed proof encoding does not deserialise".to_string())?;
    Ok(with_tr!(v.tr, |t| {
        let r = rp::verify_efficient(v.version, &mut t, v.n, &v.commitments, &proof, &v.gens, &v.keys);
        (r, t.extract_raw_challenge().as_ref().to_vec())
    }))
}

pub fn verify_ref<C: Curve>(v: &VIn<C>) -> Option<Result<(), RefErr>> {
    let raw = Raw::<C>::parse(&v.proof)?;
    Some(with_tr!(v.tr, |t| ref_range(v.version, &mut t, v.n, &v.commitments, &raw, &v.gens, &v.keys)))
}

pub fn err(oracle: &str, what: &str, detail: String) -> Violation { Violation::new(oracle, detail).with_signature(format!("{oracle}:{what}")) }

#[derive(Clone, Debug)]
pub struct Val<C: Curve> {
    pub scalar:   C::Scalar,
    /// The low 64 bits, i.e. what `prove_given_scalars` extracts / what `prove` is given.
    pub low:      u64,
    pub fits_u64: bool,
    pub in_range: bool,
    pub kind:     &'static str,
    pub boundary: bool,
    pub zero_rand: bool,
}

pub fn max_in_range(n: u8) -> u64 {
    if n >= 64 {
        u64::MAX
    } else {
        (1u64 << n) - 1
    }
}

fn in_range_value(u: &mut Unstructured, n: u8) -> (u64, &'static str, bool) {
    let max = max_in_range(n);
    match gen::idx(u, 6) {
        0 => (0, "0", true),
        1 => (1.min(max), "1", true),
        2 => (max, "2^n-1", true),
        3 => (if n == 0 { 0 } else { 1u64 << (n - 1) }, "2^(n-1)", true),
        4 => (max - 1.min(max), "2^n-2", true),
        _ => (gen::u64v(u) & max, "random-in-range", false),
    }
}

/// An out-of-range value for bit width n. For n = 64 no u64 is out of range; then the value is a
/// scalar that does not fit 64 bits (only reachable through `prove_given_scalars`).
fn out_of_range_value<C: Curve>(u: &mut Unstructured, n: u8) -> Val<C> {
    let big = |kind: &'static str, s: C::Scalar| {
        let low = s.into_repr()[0];
        Val { scalar: s, low, fits_u64: false, in_range: false, kind, boundary: true, zero_rand: false }
    };
    let small = |kind: &'static str, v: u64, boundary: bool| Val {
        scalar: C::scalar_from_u64(v),
        low: v,
        fits_u64: true,
        in_range: false,
        kind,
        boundary,
        zero_rand: false,
    };
    let pick = if n >= 64 { 4 + gen::idx(u, 3) } else { gen::idx(u, 7) };
    match pick {
        0 => small("2^n", 1u64 << n, true),
        1 => small("2^n+1", (1u64 << n) + 1, true),
        2 => small("u64::MAX", u64::MAX, true),
        3 => {
            let lo = 1u64 << n;
            small("random>=2^n", lo + gen::u64v(u) % (u64::MAX - lo + 1).max(1), false)
        }
        4 => big("2^64", two_pow::<C>(64)),
        5 => big("2^64+k", add(two_pow::<C>(64), &C::scalar_from_u64(gen::boundary_u64(u)))),
        _ => big("-1 (group order - 1)", neg(C::Scalar::one())),
    }
}

const SUPPORTED_N: [u8; 7] = [1, 2, 4, 8, 16, 32, 64];
const SUPPORTED_M: [u8; 8] = [1, 1, 1, 1, 2, 2, 4, 8];
/// (n, m) with n*m not a power of two (or zero): the prover must refuse cleanly.
const UNSUPPORTED: [(u8, u8); 16] = [
    (0, 1),
    (1, 0),
    (3, 1),
    (7, 1),
    (31, 1),
    (33, 1),
    (63, 1),
    (5, 2),
    (8, 3),
    (4, 5),
    (2, 6),
    (16, 7),
    (1, 3),
    (63, 4),
    (0, 0),
    (64, 3),
];

pub fn show_vin<C: Curve>(v: &VIn<C>) -> String {
    format!(
        "version={} transcript={} n={} m={} |gens|={} proof={} bytes",
        version_name(v.version),
        v.tr.show(),
        v.n,
        v.commitments.len(),
        v.gens.G_H.len(),
        v.proof.len()
    )
}

pub fn run<C: TCurve>(u: &mut Unstructured, ctx: &mut Ctx) -> CheckResult {
    let mut rng = gen::rng(u);
    let version = decode_version(u);
    let tr = TrSpec::decode(u);
    let unsupported = gen::idx(u, 8) == 7;
    let max_nm: usize = if ctx.tier == Tier::Thorough { 512 } else { 256 };
    let (n, m) = if unsupported {
        UNSUPPORTED[gen::idx(u, UNSUPPORTED.len())]
    } else {
        let n = SUPPORTED_N[gen::idx(u, SUPPORTED_N.len())];
        let mut m = SUPPORTED_M[gen::idx(u, SUPPORTED_M.len())];
        while usize::from(n) * usize::from(m) > max_nm {
            m /= 2;
        }
        (n, m)
    };
    let nm = usize::from(n) * usize::from(m);
    let want_true = gen::ratio(u, 170, 255) || n == 0;
    let false_pos = gen::idx(u, usize::from(m).max(1));
    let mut vals: Vec<Val<C>> = Vec::with_capacity(usize::from(m));
    for j in 0..usize::from(m) {
        let make_false = !want_true && (j == false_pos || rare(u, 1, 4));
        let mut v = if make_false {
            out_of_range_value::<C>(u, n)
        } else {
            let (x, kind, boundary) = in_range_value(u, n);
            Val { scalar: C::scalar_from_u64(x), low: x, fits_u64: true, in_range: true, kind, boundary, zero_rand: false }
        };
        v.zero_rand = rare(u, 1, 8);
        vals.push(v);
    }
    let all_fit = vals.iter().all(|v| v.fits_u64);
    let via_scalars = !all_fit || gen::boolean(u);
    let extra_gens = [0usize, 0, 1, 7][gen::idx(u, 4)];
    let too_few_gens = nm > 0 && rare(u, 1, 24);
    let pool_off = gen::idx(u, 16);
    let n_perts = if ctx.tier == Tier::Thorough { 10 } else { 5 };
    let pert_choices: Vec<(usize, usize, usize)> = (0..n_perts).map(|_| (gen::idx(u, N_PERTS), gen::byte(u) as usize, gen::byte(u) as usize)).collect();
    let run_ref_big = rare(u, 1, 4);

    let statement_true = vals.iter().all(|v| v.in_range);
    let gens_len = if too_few_gens { nm - 1 } else { nm + extra_gens };
    let gens: Generators<C> = gens_from_pool::<C>(pool_off, gens_len);
    let keys = CommitmentKey { g: C::generate(&mut rng), h: C::generate(&mut rng) };
    let rands: Vec<Randomness<C>> =
        vals.iter().map(|v| if v.zero_rand { Randomness::zero() } else { Randomness::generate(&mut rng) }).collect();
    let commitments: Vec<Commitment<C>> = vals.iter().zip(&rands).map(|(v, r)| keys.hide_worker(&v.scalar, r)).collect();

    let describe = |vals: &[Val<C>]| {
        let vs: Vec<String> = vals
            .iter()
            .map(|v| format!("{}{} [{}{}]", if v.fits_u64 { v.low.to_string() } else { hex_scalar::<C>(&v.scalar) }, if v.in_range { "" } else { " (OUT OF RANGE)" }, v.kind, if v.zero_rand { ", zero randomness" } else { "" }))
            .collect();
        format!(
            "range proof on {}: version={} transcript={} n={} m={} values=[{}] prover={} |gens|={} (need {}) pool_off={}",
            C::NAME,
            version_name(version),
            tr.show(),
            n,
            m,
            vs.join(", "),
            if via_scalars { "prove_given_scalars" } else { "prove" },
            gens_len,
            nm,
            pool_off
        )
    };
    ctx.describe(|| describe(&vals));
    ctx.sample(|| describe(&vals));
    ctx.class(C::NAME);
    ctx.class(&format!("n={n}"));
    ctx.class(&format!("m={m}"));
    ctx.class(if version == ProofVersion::Version1 { "version1" } else { "version2" });
    ctx.class(if tr.v1 { "transcript-v1" } else { "transcript-legacy" });

    // ---- prove
    let (proof, prover_state) = with_tr!(tr, |t| {
        let p = if via_scalars {
            let scalars: Vec<C::Scalar> = vals.iter().map(|v| v.scalar).collect();
            rp::prove_given_scalars(version, &mut t, &mut rng, n, m, &scalars, &gens, &keys, &rands)
        } else {
            let ints: Vec<u64> = vals.iter().map(|v| v.low).collect();
            rp::prove(version, &mut t, &mut rng, n, m, &ints, &gens, &keys, &rands)
        };
        (p, t.extract_raw_challenge().as_ref().to_vec())
    });

    if unsupported || too_few_gens {
        ctx.class(if unsupported { "unsupported-shape" } else { "too-few-generators" });
        ctx.nontrivial(&("unsupported", n, m, gens_len));
        ctx.class("nontrivial");
        if proof.is_some() {
            return Err(err(
                "unsupported-not-refused",
                if unsupported { "shape" } else { "gens" },
                format!("prove returned a proof although n*m = {nm} is not a supported (power of two, non-zero) vector length or the generators are too few: {}", describe(&vals)),
            ));
        }
        return Ok(());
    }

    let boundary = vals.iter().any(|v| v.boundary);
    if boundary {
        let key: Vec<(u64, bool)> = vals.iter().map(|v| (v.low, v.fits_u64)).collect();
        ctx.nontrivial(&("range", C::NAME, n, m, key, version == ProofVersion::Version2, &tr));
        ctx.class("boundary-value");
        ctx.class("nontrivial");
    }
    ctx.class(if statement_true { "true-statement" } else { "false-statement" });

    let proof = match proof {
        Some(p) => p,
        None => {
            if statement_true {
                return Err(err("completeness", "prover-refused", format!("prove returned None for a true statement: {}", describe(&vals))));
            }
            ctx.class("false-statement-prover-refused");
            return Ok(());
        }
    };
    let proof_bytes = to_bytes(&proof);
    let raw = match Raw::<C>::parse(&proof_bytes) {
        Some(r) if r.bytes() == proof_bytes => r,
        _ => return Err(err("proof-serialization", "layout", format!("the serialised RangeProof does not have the layout A,S,T_1,T_2,tx,tx_tilde,e_tilde,u32 k,(L,R)*k,a,b: {}", gen::hex(&proof_bytes)))),
    };
    match proof_from_bytes::<rp::RangeProof<C>>(&proof_bytes) {
        Some(p) if p == proof => {}
        _ => return Err(err("proof-serialization", "roundtrip", format!("RangeProof does not survive serialise/deserialise: {}", describe(&vals)))),
    }
    if raw.ip.lr.len() != nm.trailing_zeros() as usize {
        return Err(err("proof-shape", "rounds", format!("honest proof has {} inner-product rounds for n*m = {}", raw.ip.lr.len(), nm)));
    }

    let base = VIn { version, tr: tr.clone(), n, commitments: commitments.clone(), proof: proof_bytes.clone(), gens: gens.clone(), keys };
    let (res, verifier_state) = verify_eff(&base).map_err(|e| err("proof-serialization", "deserialise", e))?;
    let do_ref = nm <= 64 || run_ref_big;
    let ref_res = if do_ref { verify_ref(&base) } else { None };
    if statement_true {
        if res.is_err() {
            return Err(err("completeness", "verify", format!("honest proof of a true statement rejected with {}: {}", res_name(&res), describe(&vals))));
        }
        if prover_state != verifier_state {
            return Err(err("transcript-sync", "range", format!("prover and verifier leave the transcript in different states after an accepted proof: {}", describe(&vals))));
        }
    } else if res.is_ok() {
        return Err(err("false-accepted", "range", format!("a proof produced by the honest algorithm for an out-of-range value verifies: {}", describe(&vals))));
    }
    if let Some(rr) = &ref_res {
        ctx.class("reference-verifier-run");
        if rr.is_ok() != res.is_ok() {
            return Err(err("reference-disagrees", "range-honest", format!("verify_efficient = {}, reference verifier = {:?}: {}", res_name(&res), rr, describe(&vals))));
        }
    }
    if !statement_true {
        return Ok(());
    }

    // ---- single-component perturbations of an accepted (statement, context, proof)
    for (which, sel, how) in pert_choices {
        let mut v = base.clone();
        let mut expect_ok = false;
        let mut expect_specific: Option<rp::VerificationError> = None;
        let name: String = match which {
            0..=15 => {
                let mut r = raw.clone();
                let nm_ = perturb_raw(&mut r, which, sel, how, &mut rng);
                v.proof = r.bytes();
                nm_.to_string()
            }
            16 => {
                let mut r = raw.clone();
                perturb_len(&mut r, LenPert::Longer, &mut rng);
                v.proof = r.bytes();
                "proof.ip.rounds+1".to_string()
            }
            17 => {
                // fewer rounds than log2(n*m) (rounds are an attacker-controlled vector length)
                let mut r = raw.clone();
                let p = if how % 2 == 0 { LenPert::DropLast } else { LenPert::Empty };
                if perturb_len(&mut r, p, &mut rng) {
                    v.proof = r.bytes();
                    "proof.ip.rounds-fewer".to_string()
                } else {
                    perturb_len(&mut r, LenPert::Longer, &mut rng);
                    v.proof = r.bytes();
                    "proof.ip.rounds+1".to_string()
                }
            }
            18 => {
                let j = sel % v.commitments.len();
                v.commitments[j] = Commitment(v.commitments[j].0.plus_point(&keys.g));
                "commitment.value+1".to_string()
            }
            19 => {
                let j = sel % v.commitments.len();
                v.commitments[j] = Commitment(v.commitments[j].0.plus_point(&keys.h));
                "commitment.randomness+1".to_string()
            }
            20 => {
                let mm = v.commitments.len();
                let j = sel % mm;
                let k = (j + 1) % mm;
                if v.commitments[j] != v.commitments[k] {
                    v.commitments.swap(j, k);
                    "commitments.order".to_string()
                } else {
                    v.commitments[j] = Commitment(v.commitments[j].0.plus_point(&keys.g));
                    "commitment.value+1".to_string()
                }
            }
            21 => {
                v.commitments.pop();
                "m-1 (last commitment dropped)".to_string()
            }
            22 => {
                let last = *v.commitments.last().unwrap();
                v.commitments.push(last);
                v.gens = gens_from_pool::<C>(pool_off, gens_len.max(usize::from(n) * v.commitments.len()));
                "m+1 (last commitment repeated)".to_string()
            }
            23 => {
                let cands: Vec<u8> = [n / 2, n.saturating_mul(2), n - 1, n + 1].into_iter().filter(|x| *x <= 64 && *x != n).collect();
                let n2 = cands[sel % cands.len()];
                v.n = n2;
                v.gens = gens_from_pool::<C>(pool_off, gens_len.max(usize::from(n2) * usize::from(m)));
                format!("n {}", if n2 < n { "smaller" } else { "larger" })
            }
            24 => perturb_gens(&mut v.gens, nm, how, sel, &mut rng).to_string(),
            25 => {
                v.gens.G_H.truncate(nm - 1);
                expect_specific = Some(rp::VerificationError::NotEnoughGenerators);
                "gens.truncated".to_string()
            }
            26 => perturb_keys(&mut v.keys, how, &mut rng).to_string(),
            27 => {
                let (t2, nm_) = perturb_tr(&v.tr, sel);
                v.tr = t2;
                nm_.to_string()
            }
            28 => {
                v.version = flip_version(v.version);
                "version".to_string()
            }
            _ => {
                // surplus generators are not part of the statement: changing (or adding) one
                // beyond index n*m must not matter
                if v.gens.G_H.len() == nm {
                    v.gens = gens_from_pool::<C>(pool_off, nm + 1);
                }
                let last = v.gens.G_H.len() - 1;
                v.gens.G_H[last].0 = perturb_point(&v.gens.G_H[last].0, how, &mut rng);
                v.gens.G_H[last].1 = perturb_point(&v.gens.G_H[last].1, how + 1, &mut rng);
                expect_ok = true;
                "neutral:surplus-generator".to_string()
            }
        };
        ctx.class(&format!("pert:{name}"));
        let (r, _) = verify_eff(&v).map_err(|e| err("proof-serialization", "deserialise-perturbed", format!("{e} ({name})")))?;
        if expect_ok {
            if r.is_err() {
                return Err(err("neutral-change-rejected", &name, format!("changing {name} made the verifier answer {}: {}\n{}", res_name(&r), describe(&vals), show_vin(&v))));
            }
        } else if r.is_ok() {
            return Err(err("binding", &name, format!("proof still verifies after altering {name}: {}\nverified against: {}", describe(&vals), show_vin(&v))));
        } else if let Some(spec) = expect_specific {
            if r != Err(spec) {
                return Err(err("wrong-error", &name, format!("expected NotEnoughGenerators, got {}", res_name(&r))));
            }
        }
        if nm <= 16 {
            if let Some(rr) = verify_ref(&v) {
                ctx.class("reference-verifier-run-perturbed");
                if rr.is_ok() != r.is_ok() {
                    return Err(err("reference-disagrees", &name, format!("after altering {name}: verify_efficient = {}, reference verifier = {:?}: {}", res_name(&r), rr, describe(&vals))));
                }
            }
        }
    }
    Ok(())
}

pub const N_PERTS: usize = 30;
