//! Arithmetic target: checked arithmetic on Amount / Duration / Timestamp against wide-integer
//! reference arithmetic, quotient_remainder, exchange-rate construction and conversions against
//! exact big-integer arithmetic with the documented rounding (down).
use crate::text::gcd;
use crate::val::Val;
use concordium_contracts_common as cc;
use num_bigint::BigUint;
use num_traits::{ToPrimitive, Zero};
use std::str::FromStr;
use vcore::{gen, vensure, CheckResult, Ctx, Unstructured, Violation};

/// A pair (a, b) with b placed relative to a so that sums and differences land exactly on, one
/// below and one above the u64 boundary with fixed probability.
fn pair(u: &mut Unstructured) -> (u64, u64) {
    let a = u64::gen(u);
    let b = match gen::byte(u) % 12 {
        0 => a,
        1 => a.wrapping_add(1),
        2 => a.wrapping_sub(1),
        3 => u64::MAX - a,
        4 => (u64::MAX - a).wrapping_add(1),
        5 => (u64::MAX - a).wrapping_sub(1),
        6 => 0,
        7 => 1,
        _ => u64::gen(u),
    };
    (a, b)
}

fn edge(a: u64, b: u64) -> bool {
    let s = a as u128 + b as u128;
    let near_sum = s >= u64::MAX as u128 - 1 && s <= u64::MAX as u128 + 2;
    let near_diff = (a as i128 - b as i128).abs() <= 1;
    near_sum || near_diff
}

fn amount_case(u: &mut Unstructured, ctx: &mut Ctx) -> CheckResult {
    ctx.class("type:Amount");
    let (a, b) = pair(u);
    let (x, y) = (cc::Amount::from_micro_ccd(a), cc::Amount::from_micro_ccd(b));
    ctx.sample(|| format!("Amount a={a} b={b}"));
    ctx.describe(|| format!("Amount a={a} b={b}"));
    // checked_add: "returns None if overflow occurred"
    let sum = a as u128 + b as u128;
    let want = if sum <= u64::MAX as u128 { Some(cc::Amount::from_micro_ccd(sum as u64)) } else { None };
    let got = x.checked_add(y);
    if got != want {
        return Err(Violation::new("checked-add", format!("Amount({a}).checked_add(Amount({b})) = {got:?}, reference {want:?}")).with_signature("checked-add:Amount"));
    }
    ctx.class(if want.is_none() { "overflow" } else { "in-range" });
    // checked_sub: "returns None if underflow occurred"
    let diff = a as i128 - b as i128;
    let want = if diff >= 0 { Some(cc::Amount::from_micro_ccd(diff as u64)) } else { None };
    let got = x.checked_sub(y);
    if got != want {
        return Err(Violation::new("checked-sub", format!("Amount({a}).checked_sub(Amount({b})) = {got:?}, reference {want:?}")).with_signature("checked-sub:Amount"));
    }
    // unchecked operators inside their domain agree with the reference
    if sum <= u64::MAX as u128 {
        vensure!((x + y).micro_ccd() as u128 == sum && x.add_micro_ccd(b).micro_ccd() as u128 == sum, "amount-add", "{a} + {b}");
        let mut z = x;
        z += y;
        vensure!(z.micro_ccd() as u128 == sum, "amount-add-assign", "{a} += {b}");
    }
    if diff >= 0 {
        vensure!((x - y).micro_ccd() as i128 == diff && x.subtract_micro_ccd(b).micro_ccd() as i128 == diff, "amount-sub", "{a} - {b}");
        let mut z = x;
        z -= y;
        vensure!(z.micro_ccd() as i128 == diff, "amount-sub-assign", "{a} -= {b}");
    }
    // ordering follows the integer
    vensure!((x < y) == (a < b) && (x == y) == (a == b), "amount-ord", "ordering of {a} and {b}");
    // quotient_remainder: "the quotient and remainder of integer division" (denominator >= 1)
    let d = match gen::byte(u) % 6 {
        0 => 1,
        1 => u64::MAX,
        2 => a.max(1),
        3 => a.wrapping_add(1).max(1),
        _ => u64::gen(u).max(1),
    };
    let (q, r) = x.quotient_remainder(d);
    let ok = (q.micro_ccd() as u128) * (d as u128) + r.micro_ccd() as u128 == a as u128 && r.micro_ccd() < d;
    if !ok {
        return Err(Violation::new("quotient-remainder", format!("Amount({a}).quotient_remainder({d}) = ({}, {}): q*d + r != a or r >= d", q.micro_ccd(), r.micro_ccd())).with_signature("quotient-remainder:Amount"));
    }
    vensure!((x % d).micro_ccd() == r.micro_ccd(), "amount-rem", "{a} % {d}");
    // multiplication inside its domain
    let k = match gen::byte(u) % 4 {
        0 => 0,
        1 => 1,
        2 => if a == 0 { 7 } else { u64::MAX / a },
        _ => gen::boundary_u64(u),
    };
    let prod = a as u128 * k as u128;
    if prod <= u64::MAX as u128 {
        let mut z = x;
        z *= k;
        vensure!((x * k).micro_ccd() as u128 == prod && (k * x).micro_ccd() as u128 == prod && z.micro_ccd() as u128 == prod, "amount-mul", "{a} * {k}");
    }
    // CCD units: 1 CCD = 10^6 microCCD
    let c = gen::boundary_u64(u);
    if (c as u128) * 1_000_000 <= u64::MAX as u128 {
        vensure!(cc::Amount::from_ccd(c).micro_ccd() as u128 == c as u128 * 1_000_000, "amount-from-ccd", "from_ccd({c})");
        let s = a as u128 + c as u128 * 1_000_000;
        if s <= u64::MAX as u128 {
            vensure!(x.add_ccd(c).micro_ccd() as u128 == s, "amount-add-ccd", "{a}.add_ccd({c})");
        }
        if a as u128 >= c as u128 * 1_000_000 {
            vensure!(x.subtract_ccd(c).micro_ccd() as u128 == a as u128 - c as u128 * 1_000_000, "amount-sub-ccd", "{a}.subtract_ccd({c})");
        }
    }
    // Sum inside its domain
    let parts = [a / 3, a / 3, a - 2 * (a / 3)];
    let total: cc::Amount = parts.iter().map(|p| cc::Amount::from_micro_ccd(*p)).sum();
    vensure!(total == x, "amount-sum", "sum of {parts:?} = {total:?}");
    if edge(a, b) {
        ctx.class("nontrivial");
        ctx.nontrivial(&("amount", a, b));
    }
    Ok(())
}

fn duration_case(u: &mut Unstructured, ctx: &mut Ctx) -> CheckResult {
    ctx.class("type:Duration");
    let (a, b) = pair(u);
    let (x, y) = (cc::Duration::from_millis(a), cc::Duration::from_millis(b));
    ctx.sample(|| format!("Duration a={a} b={b}"));
    ctx.describe(|| format!("Duration a={a} b={b}"));
    let sum = a as u128 + b as u128;
    let want = if sum <= u64::MAX as u128 { Some(cc::Duration::from_millis(sum as u64)) } else { None };
    let got = x.checked_add(y);
    if got != want {
        return Err(Violation::new("checked-add", format!("Duration({a}).checked_add(Duration({b})) = {got:?}, reference {want:?}")).with_signature("checked-add:Duration"));
    }
    ctx.class(if want.is_none() { "overflow" } else { "in-range" });
    let diff = a as i128 - b as i128;
    let want = if diff >= 0 { Some(cc::Duration::from_millis(diff as u64)) } else { None };
    let got = x.checked_sub(y);
    if got != want {
        return Err(Violation::new("checked-sub", format!("Duration({a}).checked_sub(Duration({b})) = {got:?}, reference {want:?}")).with_signature("checked-sub:Duration"));
    }
    // unit accessors round down
    vensure!(x.millis() == a && x.seconds() as u128 == a as u128 / 1000 && x.minutes() as u128 == a as u128 / 60_000 && x.hours() as u128 == a as u128 / 3_600_000 && x.days() as u128 == a as u128 / 86_400_000, "duration-units", "unit accessors of {a} ms");
    // constructors inside their domain
    let k = gen::boundary_u64(u);
    for (unit, mk) in [(1000u128, cc::Duration::from_seconds as fn(u64) -> cc::Duration), (60_000, cc::Duration::from_minutes), (3_600_000, cc::Duration::from_hours), (86_400_000, cc::Duration::from_days)] {
        if k as u128 * unit <= u64::MAX as u128 {
            vensure!(mk(k).millis() as u128 == k as u128 * unit, "duration-from-unit", "constructor with {k} x {unit} ms");
        }
    }
    if edge(a, b) {
        ctx.class("nontrivial");
        ctx.nontrivial(&("duration", a, b));
    }
    Ok(())
}

fn timestamp_case(u: &mut Unstructured, ctx: &mut Ctx) -> CheckResult {
    ctx.class("type:Timestamp");
    let (a, b) = pair(u);
    let t = cc::Timestamp::from_timestamp_millis(a);
    let d = cc::Duration::from_millis(b);
    ctx.sample(|| format!("Timestamp t={a} d={b}"));
    ctx.describe(|| format!("Timestamp t={a} d={b}"));
    // "Returns None if the resulting timestamp is not representable, i.e., too far in the future."
    let sum = a as u128 + b as u128;
    let want = if sum <= u64::MAX as u128 { Some(cc::Timestamp::from_timestamp_millis(sum as u64)) } else { None };
    let got = t.checked_add(d);
    if got != want {
        return Err(Violation::new("checked-add", format!("Timestamp({a}).checked_add(Duration({b})) = {got:?}, reference {want:?}")).with_signature("checked-add:Timestamp"));
    }
    ctx.class(if want.is_none() { "overflow" } else { "in-range" });
    // "Returns None instead of overflowing if the resulting timestamp would be before the Unix epoch."
    let diff = a as i128 - b as i128;
    let want = if diff >= 0 { Some(cc::Timestamp::from_timestamp_millis(diff as u64)) } else { None };
    let got = t.checked_sub(d);
    if got != want {
        return Err(Violation::new("checked-sub", format!("Timestamp({a}).checked_sub(Duration({b})) = {got:?}, reference {want:?}")).with_signature("checked-sub:Timestamp"));
    }
    let o = cc::Timestamp::from_timestamp_millis(b);
    // "The duration is always positive, and is the difference between the more recent timestamp and the one further in the past."
    let want = diff.unsigned_abs() as u64;
    vensure!(t.duration_between(o).millis() == want && o.duration_between(t).millis() == want, "duration-between", "duration_between({a}, {b})");
    // "Returns None if given time is in the future compared to self."
    let want = if diff >= 0 { Some(cc::Duration::from_millis(diff as u64)) } else { None };
    vensure!(t.duration_since(o) == want, "duration-since", "Timestamp({a}).duration_since({b}) = {:?}", t.duration_since(o));
    vensure!(t.timestamp_millis() == a && cc::Timestamp::from(a) == t, "timestamp-millis", "accessors of {a}");
    if edge(a, b) {
        ctx.class("nontrivial");
        ctx.nontrivial(&("timestamp", a, b));
    }
    Ok(())
}

fn conversion_case(u: &mut Unstructured, ctx: &mut Ctx) -> CheckResult {
    ctx.class("type:ExchangeRates");
    let n = crate::val::gen_nonzero_u64(u);
    let d = crate::val::gen_nonzero_u64(u);
    let other = cc::ExchangeRate::new_unchecked(crate::val::gen_nonzero_u64(u), crate::val::gen_nonzero_u64(u));
    let rates = cc::ExchangeRates { euro_per_energy: other, micro_ccd_per_euro: cc::ExchangeRate::new_unchecked(n, d) };
    let two64 = BigUint::from(1u8) << 64;
    let (bn, bd) = (BigUint::from(n), BigUint::from(d));
    let clamp = gen::boolean(u);
    // euro cent -> microCCD: cents/100 euro * n/d microCCD per euro, rounded down
    let mut c = u64::gen(u);
    if clamp {
        // largest c with floor(n*c/(100 d)) < 2^64: c <= (2^64 * 100 d - 1) / n
        let max_c: BigUint = ((&two64 * 100u32 * &bd) - 1u32) / &bn;
        if let Some(m) = max_c.to_u64() {
            if m < u64::MAX {
                c %= m + 1;
            }
        }
    }
    let exact = (&bn * BigUint::from(c)) / (&bd * 100u32);
    let got = rates.convert_euro_cent_to_amount(c);
    ctx.sample(|| format!("rate {n}/{d}: {c} euro cent -> exact {exact} microCCD, got {}", got.micro_ccd()));
    ctx.describe(|| format!("micro_ccd_per_euro {n}/{d}; euro cent {c}"));
    match exact.to_u64() {
        Some(e) => {
            ctx.class("cent->ccd:representable");
            if got.micro_ccd() != e {
                return Err(Violation::new("convert-euro-cent", format!("rate {n}/{d}: convert_euro_cent_to_amount({c}) = {} but floor({n}*{c}/({d}*100)) = {e}", got.micro_ccd())).with_signature("convert-euro-cent-to-amount"));
            }
            if e > 0 && (&bn * BigUint::from(c)) % (&bd * 100u32) != BigUint::zero() {
                ctx.class("nontrivial");
                ctx.nontrivial(&("c2a", n, d, c));
            }
        }
        None => ctx.class("cent->ccd:unrepresentable(not asserted)"),
    }
    // microCCD -> euro cent: a / (n/d) euro * 100, rounded down
    let mut a = u64::gen(u);
    if clamp {
        // largest a with floor(a*100*d/n) < 2^64: a <= (2^64 * n - 1) / (100 d)
        let max_a: BigUint = ((&two64 * &bn) - 1u32) / (&bd * 100u32);
        if let Some(m) = max_a.to_u64() {
            if m < u64::MAX {
                a %= m + 1;
            }
        }
    }
    let exact = (BigUint::from(a) * 100u32 * &bd) / &bn;
    match exact.to_u64() {
        Some(e) => {
            ctx.class("ccd->cent:representable");
            let got = rates.convert_amount_to_euro_cent(cc::Amount::from_micro_ccd(a));
            if got != e {
                return Err(Violation::new("convert-amount", format!("rate {n}/{d}: convert_amount_to_euro_cent({a}) = {got} but floor({a}*100*{d}/{n}) = {e}")).with_signature("convert-amount-to-euro-cent"));
            }
            if e > 0 && (BigUint::from(a) * 100u32 * &bd) % &bn != BigUint::zero() {
                ctx.class("nontrivial");
                ctx.nontrivial(&("a2c", n, d, a));
            }
        }
        // result does not fit u64: outside the claim (the u128 intermediate may overflow) - not called
        None => ctx.class("ccd->cent:unrepresentable(not called)"),
    }
    Ok(())
}

fn exchange_rate_case(u: &mut Unstructured, ctx: &mut Ctx) -> CheckResult {
    ctx.class("type:ExchangeRate");
    let pickz = |u: &mut Unstructured| match gen::byte(u) % 8 {
        0 => 0u64,
        1 => 1,
        2 => gen::range_u64(u, 2, 64),
        3 => gen::range_u64(u, 2, 64) * gen::range_u64(u, 2, 64) * gen::range_u64(u, 1, 1 << 40),
        _ => u64::gen(u),
    };
    let (n, d) = (pickz(u), pickz(u));
    let g = gcd(n, d);
    ctx.describe(|| format!("exchange rate components n={n} d={d}"));
    // "The numerator and denominator must both be non-zero, and they have to be in reduced form."
    let want = n != 0 && d != 0 && g == 1;
    let got = cc::ExchangeRate::new(n, d);
    if got.is_some() != want {
        return Err(Violation::new("exchange-rate-new", format!("ExchangeRate::new({n}, {d}) = {got:?} but non-zero={} gcd={g}", n != 0 && d != 0)).with_signature("exchange-rate-new"));
    }
    if let Some(r) = got {
        vensure!(r.numerator() == n && r.denominator() == d, "exchange-rate-new", "accessors of {n}/{d}");
    }
    ctx.class(if want { "new:accepted" } else if n == 0 || d == 0 { "new:zero" } else { "new:not-reduced" });
    // JSON object form {"numerator":..,"denominator":..}
    let j = format!("{{\"numerator\": {n}, \"denominator\": {d}}}");
    if n == 0 || d == 0 {
        // Documented: "This is never 0, and the exchange rate should also never be infinite": a zero component
        // is refused (fixed in /repo by 575afae36: the object form used to accept it and to panic on 0/0).
        ctx.class("json-object-zero-component");
        let r = serde_json::from_str::<cc::ExchangeRate>(&j);
        if let Ok(r) = r {
            return Err(Violation::new("exchange-rate-json-zero", format!("{j} deserialises to {r:?}, although an exchange rate 'is never 0' and 'should also never be infinite'"))
                .with_signature("exchange-rate-json-zero-component"));
        }
    } else {
        let r = serde_json::from_str::<cc::ExchangeRate>(&j);
        match &r {
            Ok(r) if r.numerator() == n / g && r.denominator() == d / g => {}
            _ => return Err(Violation::new("exchange-rate-json", format!("{j} deserialises to {r:?}, expected {}/{}", n / g, d / g)).with_signature("exchange-rate-json-object")),
        }
    }
    // decimal strings (FromStr, JSON string and JSON number forms)
    let ip = match gen::byte(u) % 6 {
        0 => "0".to_string(),
        1 => gen::range_u64(u, 1, 9).to_string(),
        2 => gen::boundary_u64(u).to_string(),
        _ => {
            let e = gen::range_u64(u, 1, 12) as u32;
            gen::range_u64(u, 0, 10_u64.pow(e)).to_string()
        }
    };
    let fp = match gen::byte(u) % 6 {
        0 => String::new(),
        1 => "0".into(),
        2 => "50".into(),
        _ => {
            let k = gen::range_usize(u, 1, 9);
            let mut s = String::new();
            for _ in 0..k {
                s.push((b'0' + gen::byte(u) % 10) as char);
            }
            s
        }
    };
    let neg = gen::ratio(u, 1, 12);
    let s = format!("{}{}{}{}", if neg { "-" } else { "" }, ip, if fp.is_empty() { "" } else { "." }, fp);
    // the rational this decimal denotes, reduced
    let scale = fp.trim_end_matches('0').len();
    let mant_str = format!("{}{}", ip, &fp[..scale]);
    let mant = BigUint::parse_bytes(mant_str.as_bytes(), 10).unwrap();
    let got = cc::ExchangeRate::from_str(&s);
    ctx.sample(|| format!("new({n},{d}) -> {}; decimal {s:?} -> {got:?}", want));
    if mant.is_zero() || neg {
        // "Exchange rate must be strictly positive."
        ctx.class("decimal:not-positive");
        vensure!(got.is_err(), "exchange-rate-decimal", "decimal {s:?} is not strictly positive but parses to {got:?}");
    } else if let Some(m) = mant.to_u64() {
        ctx.class("decimal:representable");
        let den = 10u64.pow(scale as u32);
        let g = gcd(m, den);
        match &got {
            Ok(r) if r.numerator() == m / g && r.denominator() == den / g => {}
            _ => return Err(Violation::new("exchange-rate-decimal", format!("decimal {s:?} = {}/{} but from_str gives {got:?}", m / g, den / g)).with_signature("exchange-rate-decimal")),
        }
        let js = serde_json::from_value::<cc::ExchangeRate>(serde_json::Value::String(s.clone()));
        vensure!(matches!(&js, Ok(r) if r.numerator() == m / g && r.denominator() == den / g), "exchange-rate-json-string", "JSON string {s:?} -> {js:?}");
        // JSON number: goes through f64. Asserted only when the literal has at most 15 digits in total
        // (trailing zeros included): then the digit string is < 2^53 and serde_json's default (non
        // float_roundtrip) number parser is exact, and f64 -> shortest decimal gives the literal back.
        if format!("{ip}{fp}").trim_start_matches('0').len() <= 15 {
            let jn = serde_json::from_str::<cc::ExchangeRate>(&s);
            vensure!(matches!(&jn, Ok(r) if r.numerator() == m / g && r.denominator() == den / g), "exchange-rate-json-number", "JSON number {s} -> {jn:?}");
        }
        ctx.class("nontrivial");
        ctx.nontrivial(&s);
    } else {
        ctx.class(&format!("decimal:mantissa-beyond-u64(not asserted):{}", if got.is_ok() { "accepted" } else { "rejected" }));
    }
    Ok(())
}

fn misc_case(u: &mut Unstructured, ctx: &mut Ctx) -> CheckResult {
    ctx.class("type:AccountBalance/aliases");
    let (t, s) = pair(u);
    let l = match gen::byte(u) % 4 {
        0 => t,
        1 => t.wrapping_add(1),
        2 => 0,
        _ => u64::gen(u),
    };
    ctx.describe(|| format!("balance total={t} staked={s} locked={l}"));
    // "ensuring that both the staked amount and the locked amount is smaller than or equal to the total balance"
    let got = cc::AccountBalance::new(cc::Amount::from_micro_ccd(t), cc::Amount::from_micro_ccd(s), cc::Amount::from_micro_ccd(l));
    let want = s <= t && l <= t;
    if got.is_some() != want {
        return Err(Violation::new("account-balance-new", format!("AccountBalance::new({t}, {s}, {l}) = {got:?}")).with_signature("account-balance-new"));
    }
    if let Some(b) = got {
        // available: "not staked or locked in releases" (a locked amount can still be used for staking)
        vensure!(b.available().micro_ccd() == t - s.max(l), "account-balance-available", "available of total={t} staked={s} locked={l} is {}", b.available().micro_ccd());
    }
    // aliases: "There are 2^24 possible aliases. If the counter is >= 2^24 then this function will return None."
    let addr = cc::AccountAddress::gen(u);
    let c = match gen::byte(u) % 6 {
        0 => 0,
        1 => (1 << 24) - 1,
        2 => 1 << 24,
        3 => u32::MAX,
        _ => gen::u32v(u),
    };
    let al = addr.get_alias(c);
    vensure!(al.is_some() == (c < (1 << 24)), "alias-range", "get_alias({c}) = {al:?}");
    if let Some(al) = al {
        vensure!(al.is_alias(&addr) && addr.is_alias(&al) && al.get_canonical_address() == addr.get_canonical_address() && al.0[..29] == addr.0[..29], "alias-canonical", "alias {c} of {addr:?} is {al:?}");
        let c2 = (c + 1) % (1 << 24);
        let al2 = addr.get_alias(c2).unwrap();
        vensure!(al2 != al, "alias-distinct", "aliases {c} and {c2} coincide");
        vensure!(addr.get_alias_unchecked(c) == al, "alias-unchecked", "get_alias_unchecked({c}) differs from get_alias");
    }
    // "counter values 2^24 and 0 will give the same alias"
    vensure!(addr.get_alias_unchecked(c) == addr.get_alias_unchecked(c & 0x00ff_ffff), "alias-wrap", "get_alias_unchecked({c}) vs its value mod 2^24");
    // is_alias: "when the addresses agree on the first 29 bytes"
    let mut other = addr;
    let i = gen::idx(u, 32);
    other.0[i] ^= 1 << (gen::byte(u) % 8);
    vensure!(addr.is_alias(&other) == (i >= 29), "alias-29-bytes", "is_alias after flipping a bit in byte {i}");
    ctx.sample(|| format!("balance total={t} staked={s} locked={l}; alias counter {c}"));
    if c >= (1 << 24) - 1 || s == t || l == t || s == t.wrapping_add(1) {
        ctx.class("nontrivial");
        ctx.nontrivial(&(t, s, l, c));
    }
    Ok(())
}

pub fn t_arith(data: &[u8], ctx: &mut Ctx) -> CheckResult {
    let mut u = Unstructured::new(data);
    match gen::byte(&mut u) % 10 {
        0 | 1 => amount_case(&mut u, ctx),
        2 => duration_case(&mut u, ctx),
        3 | 4 => timestamp_case(&mut u, ctx),
        5 | 6 => conversion_case(&mut u, ctx),
        7 | 8 => exchange_rate_case(&mut u, ctx),
        _ => misc_case(&mut u, ctx),
    }
}
