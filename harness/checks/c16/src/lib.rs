//! C16: contract-side serialisation and basic value types round-trip.
pub mod arith;
pub mod bin_targets;
pub mod text;
pub mod val;

use vcore::{Property, Target};

pub fn property() -> Property {
    Property {
        id: "C16",
        rule: "Cases are decoded from a choice sequence by construction (no rejection): (roundtrip) a value of one of ~90 instantiations of the Serial/Deserial types of \
               concordium-contracts-common (integers from a boundary table, strings with multi-byte characters, options, tuples, arrays, Vec/BTreeMap/BTreeSet/HashMap/HashSet, \
               addresses, amounts, times, names at lengths 0/1/98/99/100, parameters up to 65535 bytes, policies, keys/signatures, derive-generated structs/enums, and the SerialCtx \
               forms with 1/2/4/8-byte lengths); (ordered) 0-9 keys of six key types from a small alphabet arranged as sorted / adjacent duplicate / distant duplicate / swapped / \
               reversed / random, encoded by an independent encoder and fed to every ordered, unordered and hash decoder; (decode_bytes) random bytes or a valid encoding mutated by \
               truncation, length inflation, bit flips, byte sets, appended bytes, for ~60 types; (cursor) read/seek/write scripts; (text_roundtrip) generated values printed, parsed, \
               and sent through serde_json; (amount/time/addr/name grammar) candidate strings assembled from grammar pieces plus targeted defects, judged by an independent \
               transcription of the documented grammar with three verdicts valid / invalid / silent (silent = documentation does not decide: behaviour only recorded); (arith) operand \
               pairs placed on, one below and one above the u64 boundary, exchange rates and amounts against big-integer arithmetic. A case is non-trivial when it sits at a documented \
               boundary or exercises a variable/optional part: non-empty or >= 2-element collections, boundary integers, names of length >= 98, >= 6 decimals or >= 13 integer digits, \
               a mutated (not pristine) encoding that decodes or fails after >= 2 bytes, a candidate string carrying a defect or a fraction, operands within 1 of an overflow edge, \
               inexact conversions. Distinct non-trivial cases are counted by hash of (type, encoding) or of the candidate string.",
        assumptions: &[
            "The reference encoder transcribes the format from the doc comments (little-endian, u32 lengths for Vec/String/maps/sets, u16 for names/parameters/policy items, tags 0/1, ascending key order, arrays without length) and, for plain structs (Amount, Timestamp, addresses, ExchangeRate(s), AccountBalance), from field order; hash collections are only round-tripped.",
            "Allocation bound: peak live heap bytes during one decode <= 64 * len(input) + 1 MiB (MAX_PREALLOCATED_CAPACITY = 4096 elements of at most 72 bytes here); OwnedPolicy is bounded by 64 * len + 1 MiB + 65535*33 bytes because its decoder pre-allocates a u16-bounded item vector without that cap (observation, see NOTES.md).",
            "Element types of zero width (Vec<()>, [u8;0], PhantomData) are round-tripped but not fed inflated lengths: a declared length of 2^32-1 is then accepted from 4 bytes of input (no allocation, but time and the printed value are not bounded by the input; analogue of DESIGN observation O2).",
            "Duration strings are kept to totals <= u64::MAX ms (DESIGN observation O4); strings beyond are detected by the reference parser and never handed to Duration::from_str.",
            "Grammar verdict 'silent' (not asserted, only counted): leading '+' or leading zeros on integers, lower-case t/z, space instead of T, second 60, offset -00:00, non-ASCII digits and whitespace, empty duration list, whitespace inside contract addresses, exchange-rate decimals whose digit string exceeds u64.",
            "Exchange-rate conversions are asserted only when the exact result fits u64; convert_amount_to_euro_cent is not called otherwise (its u128 intermediate may overflow).",
            "sha2 (SHA-256) and num-bigint are trusted for the independent base58check and big-integer references.",
        ],
        targets: vec![
            Target::new("roundtrip", bin_targets::t_roundtrip).len(0, 1024).cases(2_400_000, 48_000_000).floors(&[("nontrivial", 0.19), ("format-compared", 0.24)]),
            Target::new("ordered", bin_targets::t_ordered).len(0, 256).cases(1_200_000, 24_000_000).floors(&[("duplicate", 0.08), ("unordered-unique", 0.07), ("ordered-unique", 0.15)]),
            Target::new("decode_bytes", bin_targets::t_decode_bytes).len(0, 1024).cases(2_400_000, 48_000_000).floors(&[("nontrivial", 0.19), ("decoded-ok", 0.10), ("decoded-err", 0.18)]),
            Target::new("decode_ctx", bin_targets::t_decode_ctx).len(0, 1024).cases(600_000, 12_000_000).floors(&[("nontrivial", 0.15), ("decoded-ok", 0.05), ("decoded-err", 0.15)]),
            Target::new("cursor", bin_targets::t_cursor).len(0, 512).cases(400_000, 8_000_000),
            Target::new("text_roundtrip", text::t_text_roundtrip).len(0, 1024).cases(1_200_000, 24_000_000).floors(&[("nontrivial", 0.22)]),
            Target::new("amount_grammar", text::t_amount_grammar).len(0, 128).cases(800_000, 16_000_000).floors(&[("documented-valid", 0.08), ("documented-invalid", 0.24)]),
            Target::new("time_grammar", text::t_time_grammar).len(0, 256).cases(1_200_000, 24_000_000).floors(&[("documented-valid", 0.12), ("documented-invalid", 0.14)]),
            Target::new("addr_grammar", text::t_addr_grammar).len(0, 256).cases(600_000, 12_000_000).floors(&[("documented-valid", 0.10), ("documented-invalid", 0.19)]),
            Target::new("name_grammar", text::t_name_grammar).len(0, 512).cases(800_000, 16_000_000).floors(&[("valid-contract-name", 0.024), ("valid-receive-name", 0.05), ("valid-entrypoint-name", 0.08)]),
            Target::new("arith", arith::t_arith).len(0, 256).cases(1_200_000, 24_000_000).floors(&[("nontrivial", 0.20), ("overflow", 0.05)]),
        ],
    }
}
