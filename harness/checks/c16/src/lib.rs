use vcore::{gen, Ctx, CheckResult, Property, Target, Unstructured};
use concordium_contracts_common as cc;

fn t_u64(data: &[u8], ctx: &mut Ctx) -> CheckResult {
    let mut u = Unstructured::new(data);
    let v = gen::boundary_u64(&mut u);
    let b = cc::to_bytes(&v);
    let w: u64 = cc::from_bytes(&b).map_err(|_| vcore::Violation::new("roundtrip", "decode failed"))?;
    vcore::vensure!(w == v, "roundtrip", "{} != {}", w, v);
    if std::env::var("SELFTEST").is_ok() { let x = gen::bytes(&mut u, 20); vcore::vensure!(!(x[3] > 100 && x[7] >= 17), "selftest", "x={:?}", x); if x[0]==77 && x[1] > 200 { panic!("boom"); } }
    ctx.class("u64");
    if v > 255 { ctx.nontrivial(&v); }
    ctx.sample(|| format!("u64 {v}"));
    Ok(())
}

pub fn property() -> Property {
    Property { id: "C16", rule: "tbd", assumptions: &[], targets: vec![Target::new("u64", t_u64).cases(10000, 100000)] }
}
