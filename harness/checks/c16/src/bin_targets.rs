//! Binary targets: value round-trip, ordered collections, totality/allocation of decoding
//! arbitrary bytes, cursor/seek/write model.
use crate::val::{derived, ChainMetaW, PolicyW, Val};
use concordium_contracts_common as cc;
use cc::{schema::SizeLength, Deserial, DeserialCtx, Get, Read, Seek, SeekFrom, Serial, SerialCtx, Write};
use std::collections::{BTreeMap, BTreeSet};
use std::marker::PhantomData;
use vcore::{gen, vensure, CheckResult, Ctx, Unstructured, Violation};

// ---------------------------------------------------------------------------------------------
// helpers

/// A reader that hands out at most `chunks[i]` bytes per `read` call (the `Read` contract allows
/// short reads; `read_exact` and everything built on it must cope).
struct Chunky<'a> {
    data:   &'a [u8],
    pos:    usize,
    sizes:  [u8; 4],
    i:      usize,
}

impl Read for Chunky<'_> {
    fn read(&mut self, buf: &mut [u8]) -> cc::ParseResult<usize> {
        let want = (self.sizes[self.i % 4] as usize % 5 + 1).min(buf.len()).min(self.data.len() - self.pos);
        self.i += 1;
        buf[..want].copy_from_slice(&self.data[self.pos..self.pos + want]);
        self.pos += want;
        Ok(want)
    }
}

fn hexs(b: &[u8]) -> String {
    if b.len() > 96 {
        format!("{}…({} bytes)", gen::hex(&b[..96]), b.len())
    } else {
        gen::hex(b)
    }
}

fn dbg<T: std::fmt::Debug>(v: &T) -> String {
    let mut s = format!("{v:?}");
    if s.len() > 400 {
        let mut cut = 400;
        while !s.is_char_boundary(cut) {
            cut -= 1;
        }
        s.truncate(cut);
        s.push('…');
    }
    s
}

// ---------------------------------------------------------------------------------------------
// Target 1: round trip of values

fn rt<T: Val>(u: &mut Unstructured, ctx: &mut Ctx) -> CheckResult {
    let name = T::name();
    let v = T::gen(u);
    let aux = gen::array::<4>(u);
    let split = gen::u16v(u) as usize;
    ctx.class(&format!("type:{name}"));
    let bytes = cc::to_bytes(&v);
    let sig = |o: &str| format!("{o}:{name}");
    ctx.sample(|| format!("{name}: {} => {}", dbg(&v), hexs(&bytes)));
    ctx.describe(|| format!("type {name}\nvalue {v:?}\nbytes {}", gen::hex(&bytes)));
    if v.nt() {
        ctx.class("nontrivial");
        ctx.nontrivial(&(&name, &bytes));
    }

    // (1) decode(encode(v)) == v, consuming exactly the encoding
    let mut cur = cc::Cursor::new(&bytes[..]);
    let got = T::deserial(&mut cur);
    match &got {
        Ok(g) if *g == v => {}
        other => {
            return Err(Violation::new("roundtrip", format!("{name}: value {} encodes to {} which decodes to {}", dbg(&v), hexs(&bytes), dbg(other)))
                .with_signature(sig("roundtrip")))
        }
    }
    vensure!(cur.offset == bytes.len(), "roundtrip-consumed", "{name}: decoder consumed {} of {} bytes of its own encoding {}", cur.offset, bytes.len(), hexs(&bytes));
    // from_bytes is "dual to to_bytes"
    match cc::from_bytes::<T>(&bytes) {
        Ok(g) if g == v => {}
        other => return Err(Violation::new("roundtrip", format!("{name}: from_bytes(to_bytes(v)) = {} for v = {}", dbg(&other), dbg(&v))).with_signature(sig("roundtrip-from_bytes"))),
    }

    // (2) a trailing byte is left unread and does not change the value
    let mut ext = bytes.clone();
    ext.push(aux[0]);
    let mut cur = cc::Cursor::new(&ext[..]);
    let got2 = T::deserial(&mut cur);
    vensure!(matches!(&got2, Ok(g) if *g == v) && cur.offset == bytes.len(), "roundtrip-trailing", "{name}: with one trailing byte the decoder returned {} at offset {} (encoding has {} bytes)", dbg(&got2), cur.offset, bytes.len());

    // (3) the encoding cut by one byte cannot decode (the decoder needed that byte)
    if !bytes.is_empty() {
        let r = cc::from_bytes::<T>(&bytes[..bytes.len() - 1]);
        vensure!(r.is_err(), "roundtrip-truncated", "{name}: encoding {} minus its last byte decodes to {}", hexs(&bytes), dbg(&r));
    }

    // (4) the encoding is the documented one
    let mut reference = Vec::with_capacity(bytes.len());
    if v.refenc(&mut reference) {
        ctx.class("format-compared");
        if reference != bytes {
            return Err(Violation::new("format", format!("{name}: value {} serialises to {} but the documented format gives {}", dbg(&v), hexs(&bytes), hexs(&reference)))
                .with_signature(sig("format")));
        }
    }

    // (5) other writers: Vec<u8> directly, exact-size slice, too-short slice
    let mut direct: Vec<u8> = Vec::new();
    vensure!(v.serial(&mut direct).is_ok() && direct == bytes, "writer-vec", "{name}: serial into Vec<u8> gives {} but to_bytes gives {}", hexs(&direct), hexs(&bytes));
    let mut buf = vec![0u8; bytes.len()];
    {
        let mut sl: &mut [u8] = &mut buf[..];
        let r = v.serial(&mut sl);
        vensure!(r.is_ok() && sl.is_empty(), "writer-slice", "{name}: serial into an exact-size slice failed or left {} bytes", sl.len());
    }
    vensure!(buf == bytes, "writer-slice", "{name}: serial into slice gives {} expected {}", hexs(&buf), hexs(&bytes));
    if !bytes.is_empty() {
        let mut short = vec![0u8; bytes.len() - 1];
        let mut sl: &mut [u8] = &mut short[..];
        vensure!(v.serial(&mut sl).is_err(), "writer-slice-short", "{name}: serial into a slice one byte too short reported success");
    }

    // (6) readers with short reads and chained readers give the same value
    let mut ch = Chunky { data: &bytes, pos: 0, sizes: aux, i: 0 };
    let got3 = T::deserial(&mut ch);
    vensure!(matches!(&got3, Ok(g) if *g == v) && ch.pos == bytes.len(), "reader-chunked", "{name}: decoding through a short-read reader gives {} (pos {} of {})", dbg(&got3), ch.pos, bytes.len());
    let cut = if bytes.is_empty() { 0 } else { split % (bytes.len() + 1) };
    let mut first = cc::Cursor::new(&bytes[..cut]);
    let mut second = cc::Cursor::new(&bytes[cut..]);
    let mut chain = cc::Chain::new(&mut first, &mut second);
    let got4 = T::deserial(&mut chain);
    vensure!(matches!(&got4, Ok(g) if *g == v), "reader-chain", "{name}: decoding through Chain split at {cut} gives {}", dbg(&got4));
    vensure!(first.offset == cut && second.offset == bytes.len() - cut, "reader-chain", "{name}: Chain split at {cut} left cursors at {} and {}", first.offset, second.offset);
    Ok(())
}

/// SerialCtx / DeserialCtx (explicit length width) for the collection types.
fn rt_ctx<T: Val + SerialCtx + DeserialCtx>(u: &mut Unstructured, ctx: &mut Ctx, len_of: impl Fn(&T) -> usize) -> CheckResult {
    let name = format!("ctx:{}", T::name());
    let v = T::gen(u);
    let sl = *gen::choose(u, &[SizeLength::U8, SizeLength::U16, SizeLength::U32, SizeLength::U64]);
    let ordered = gen::boolean(u);
    ctx.class(&format!("type:{name}"));
    let n = len_of(&v);
    let mut out: Vec<u8> = Vec::new();
    let r = v.serial_ctx(sl, &mut out);
    let (width, fits) = match sl {
        SizeLength::U8 => (1, n <= u8::MAX as usize),
        SizeLength::U16 => (2, n <= u16::MAX as usize),
        SizeLength::U32 => (4, n <= u32::MAX as usize),
        SizeLength::U64 => (8, true),
    };
    ctx.sample(|| format!("{name} {sl:?} ordered={ordered}: {} => {}", dbg(&v), hexs(&out)));
    // "failing if the length cannot be represented in the provided size_length"
    vensure!(r.is_ok() == fits, "ctx-length-fit", "{name}: serial_ctx with {sl:?} for length {n} returned ok={}", r.is_ok());
    if !fits {
        ctx.class("ctx-length-does-not-fit");
        return Ok(());
    }
    // prefix is the little-endian length of the stated width, remainder equals the plain encoding's payload
    let mut le = (n as u64).to_le_bytes().to_vec();
    le.truncate(width);
    vensure!(out.len() >= width && out[..width] == le[..], "ctx-length-prefix", "{name}: {sl:?} prefix for length {n} is {}", hexs(&out[..width.min(out.len())]));
    let plain = cc::to_bytes(&v);
    let mut reference = Vec::new();
    if v.refenc(&mut reference) {
        // plain encoding = u32 length + payload (documented); ctx encoding = chosen width + same payload
        vensure!(plain.len() >= 4 && out[width..] == plain[4..], "ctx-payload", "{name}: payload under {sl:?} differs from the payload of the plain encoding");
    }
    let mut cur = cc::Cursor::new(&out[..]);
    let back = T::deserial_ctx(sl, ordered, &mut cur);
    vensure!(matches!(&back, Ok(b) if *b == v) && cur.offset == out.len(), "ctx-roundtrip", "{name}: deserial_ctx({sl:?}, ordered={ordered}) of own encoding gives {} at offset {}/{}", dbg(&back), cur.offset, out.len());
    if v.nt() {
        ctx.class("nontrivial");
        ctx.nontrivial(&(&name, &out));
    }
    Ok(())
}

/// A string of `n` bytes for the length-fit check (256 or 65536 elements with a narrow length).
fn rt_ctx_long(u: &mut Unstructured, ctx: &mut Ctx) -> CheckResult {
    let n = *gen::choose(u, &[255usize, 256, 257, 65535, 65536]);
    let sl = *gen::choose(u, &[SizeLength::U8, SizeLength::U16, SizeLength::U32]);
    ctx.class("type:ctx:long-Vec<u8>/String");
    let v: Vec<u8> = (0..n).map(|i| b'a' + (i % 26) as u8).collect();
    let s = String::from_utf8(v.clone()).unwrap();
    let fits = match sl {
        SizeLength::U8 => n <= 255,
        SizeLength::U16 => n <= 65535,
        _ => true,
    };
    let mut o1 = Vec::new();
    let r1 = v.serial_ctx(sl, &mut o1);
    let mut o2 = Vec::new();
    let r2 = s.serial_ctx(sl, &mut o2);
    vensure!(r1.is_ok() == fits && r2.is_ok() == fits, "ctx-length-fit", "Vec<u8>/String of length {n} with {sl:?}: serial_ctx ok = {} / {}", r1.is_ok(), r2.is_ok());
    if fits {
        vensure!(o1 == o2, "ctx-string-vs-bytes", "String and Vec<u8> encodings differ under {sl:?}");
        let b1 = Vec::<u8>::deserial_ctx(sl, false, &mut cc::Cursor::new(&o1[..]));
        let b2 = String::deserial_ctx(sl, false, &mut cc::Cursor::new(&o2[..]));
        vensure!(b1.as_ref() == Ok(&v) && b2.as_ref() == Ok(&s), "ctx-roundtrip", "Vec<u8>/String of length {n} under {sl:?} do not round-trip");
        ctx.class("nontrivial");
        ctx.nontrivial(&(n, format!("{sl:?}")));
    } else {
        ctx.class("ctx-length-does-not-fit");
        ctx.class("nontrivial");
        ctx.nontrivial(&(n, format!("{sl:?}"), 1));
    }
    Ok(())
}

type Hash32 = cc::hashes::Hash;

macro_rules! dispatch_types {
    ($mac:ident, $sel:expr, $u:expr, $ctx:expr) => {{
        // One entry per instantiation; the order is part of the replay format (append only).
        let fns: &[fn(&mut Unstructured, &mut Ctx) -> CheckResult] = &[
            $mac::<()>, $mac::<u8>, $mac::<u16>, $mac::<u32>, $mac::<u64>, $mac::<u128>,
            $mac::<i8>, $mac::<i16>, $mac::<i32>, $mac::<i64>, $mac::<i128>, $mac::<bool>,
            $mac::<(u8, u16)>, $mac::<(u64, bool, String)>, $mac::<(u8, i16, u32, i64)>,
            $mac::<(u8, u8, u8, u8, u8)>, $mac::<((), u16, Option<u8>, String, bool, i128)>,
            $mac::<cc::Amount>, $mac::<cc::AccountBalance>, $mac::<cc::AccountThreshold>,
            $mac::<cc::ExchangeRate>, $mac::<cc::ExchangeRates>, $mac::<cc::Timestamp>, $mac::<cc::Duration>,
            $mac::<String>, $mac::<Box<String>>, $mac::<Box<u64>>, $mac::<PhantomData<u8>>,
            $mac::<Option<u8>>, $mac::<Option<Option<bool>>>, $mac::<Option<String>>, $mac::<Option<cc::Address>>,
            $mac::<cc::AccountAddress>, $mac::<cc::ContractAddress>, $mac::<cc::Address>,
            $mac::<cc::OwnedContractName>, $mac::<cc::OwnedReceiveName>, $mac::<cc::OwnedEntrypointName>,
            $mac::<cc::OwnedParameter>, $mac::<ChainMetaW>,
            $mac::<Vec<u8>>, $mac::<Vec<u16>>, $mac::<Vec<String>>, $mac::<Vec<Option<u32>>>, $mac::<Vec<Vec<u8>>>,
            $mac::<Vec<(u8, cc::Amount)>>, $mac::<Vec<cc::Address>>,
            $mac::<BTreeMap<u8, u8>>, $mac::<BTreeMap<u16, String>>, $mac::<BTreeMap<String, Vec<u8>>>,
            $mac::<BTreeMap<i16, ()>>, $mac::<BTreeMap<cc::Address, cc::Amount>>, $mac::<BTreeMap<u8, BTreeMap<u8, u8>>>,
            $mac::<BTreeSet<u8>>, $mac::<BTreeSet<u16>>, $mac::<BTreeSet<i32>>, $mac::<BTreeSet<String>>, $mac::<BTreeSet<(u8, u8)>>,
            $mac::<cc::HashMap<u8, u8>>, $mac::<cc::HashMap<u32, String>>, $mac::<cc::HashMap<String, u16>>,
            $mac::<cc::HashSet<u8>>, $mac::<cc::HashSet<u64>>, $mac::<cc::HashSet<String>>,
            $mac::<[u8; 0]>, $mac::<[u8; 1]>, $mac::<[u8; 32]>, $mac::<[u64; 3]>, $mac::<[String; 2]>, $mac::<[Option<u16>; 4]>,
            $mac::<cc::AttributeTag>, $mac::<cc::AttributeValue>, $mac::<PolicyW>, $mac::<Hash32>, $mac::<cc::ModuleReference>,
            $mac::<cc::PublicKeyEd25519>, $mac::<cc::PublicKeyEcdsaSecp256k1>, $mac::<cc::SignatureEd25519>, $mac::<cc::SignatureEcdsaSecp256k1>,
            $mac::<cc::PublicKey>, $mac::<cc::CredentialPublicKeys>, $mac::<cc::AccountPublicKeys>,
            $mac::<cc::Signature>, $mac::<cc::CredentialSignatures>, $mac::<cc::AccountSignatures>,
            $mac::<derived::Rec>, $mac::<derived::En>,
        ];
        let i = $sel % fns.len();
        (fns[i])($u, $ctx)
    }};
}

pub fn t_roundtrip(data: &[u8], ctx: &mut Ctx) -> CheckResult {
    let mut u = Unstructured::new(data);
    let sel = gen::byte(&mut u) as usize;
    if sel >= 200 {
        // contextual (explicit length width) serialisation
        return match gen::byte(&mut u) % 9 {
            0 => rt_ctx::<Vec<u8>>(&mut u, ctx, |v| v.len()),
            1 => rt_ctx::<Vec<String>>(&mut u, ctx, |v| v.len()),
            2 => rt_ctx::<String>(&mut u, ctx, |v| v.len()),
            3 => rt_ctx::<BTreeSet<u16>>(&mut u, ctx, |v| v.len()),
            4 => rt_ctx::<BTreeMap<u8, String>>(&mut u, ctx, |v| v.len()),
            5 => rt_ctx::<cc::HashSet<u32>>(&mut u, ctx, |v| v.len()),
            6 => rt_ctx::<cc::HashMap<u8, u16>>(&mut u, ctx, |v| v.len()),
            7 => rt_ctx::<BTreeMap<String, BTreeSet<u8>>>(&mut u, ctx, |v| v.len()),
            _ => rt_ctx_long(&mut u, ctx),
        };
    }
    let sel2 = gen::byte(&mut u) as usize;
    dispatch_types!(rt, sel * 256 + sel2, &mut u, ctx)
}

// ---------------------------------------------------------------------------------------------
// Target 2: ordered collections

/// Key types for the ordering target: ordering is by *value* (`Ord`), not by encoded bytes, so
/// little-endian multi-byte and signed keys are included on purpose.
trait Key: Val + Ord + Clone + std::hash::Hash {
    fn small(u: &mut Unstructured) -> Self;
}
impl Key for u8 {
    fn small(u: &mut Unstructured) -> Self { *gen::choose(u, &[0u8, 1, 2, 127, 128, 254, 255]) }
}
impl Key for u16 {
    fn small(u: &mut Unstructured) -> Self { *gen::choose(u, &[0u16, 1, 2, 255, 256, 257, 0x0100, 0x0001, 0xff00, 0x00ff, 65535]) }
}
impl Key for i16 {
    fn small(u: &mut Unstructured) -> Self { *gen::choose(u, &[0i16, 1, -1, 2, -2, 255, 256, -256, i16::MIN, i16::MAX]) }
}
impl Key for String {
    fn small(u: &mut Unstructured) -> Self { gen::choose(u, &["", "a", "aa", "ab", "b", "B", "é", "z", "a\0"]).to_string() }
}
impl Key for (u8, u16) {
    fn small(u: &mut Unstructured) -> Self { (*gen::choose(u, &[0u8, 1, 255]), *gen::choose(u, &[0u16, 1, 256, 65535])) }
}
impl Key for cc::Address {
    fn small(u: &mut Unstructured) -> Self {
        match gen::byte(u) % 6 {
            0 => cc::Address::Account(cc::AccountAddress([0; 32])),
            1 => cc::Address::Account(cc::AccountAddress([255; 32])),
            2 => cc::Address::Contract(cc::ContractAddress::new(0, 0)),
            3 => cc::Address::Contract(cc::ContractAddress::new(0, 1)),
            4 => cc::Address::Contract(cc::ContractAddress::new(256, 0)),
            _ => cc::Address::Contract(cc::ContractAddress::new(1, 0)),
        }
    }
}

#[derive(Debug, PartialEq, Eq, cc::Serial, cc::Deserial)]
struct OrderedSetHolder<K: Ord + Serial + Deserial> {
    #[concordium(size_length = 1, ensure_ordered)]
    s: BTreeSet<K>,
}
#[derive(Debug, PartialEq, Eq, cc::Serial, cc::Deserial)]
struct OrderedMapHolder<K: Ord + Serial + Deserial> {
    #[concordium(size_length = 2, ensure_ordered)]
    m: BTreeMap<K, u8>,
}
#[derive(Debug, PartialEq, Eq, cc::Serial, cc::Deserial)]
struct UniqueMapHolder<K: Ord + Serial + Deserial> {
    #[concordium(size_length = 1)]
    m: BTreeMap<K, u8>,
}
use concordium_contracts_common as concordium_std;

fn ordered_case<K: Key>(u: &mut Unstructured, ctx: &mut Ctx) -> CheckResult {
    let kname = K::name();
    // 1. a list of entries, by construction from one of several shapes
    let n = match gen::byte(u) % 8 {
        0 => 0,
        1 => 1,
        2 | 3 => 2,
        4 | 5 => 3,
        _ => gen::range_usize(u, 2, 9),
    };
    let mut keys: Vec<K> = (0..n).map(|_| if gen::ratio(u, 3, 4) { K::small(u) } else { K::gen(u) }).collect();
    let shape = gen::byte(u) % 8;
    match shape {
        0 | 1 => {
            // canonical: sorted, deduplicated
            keys.sort();
            keys.dedup();
        }
        2 => {
            // sorted, then duplicate one key next to itself
            keys.sort();
            keys.dedup();
            if !keys.is_empty() {
                let i = gen::idx(u, keys.len());
                let k = keys[i].clone();
                keys.insert(i, k);
            }
        }
        3 => {
            // sorted unique, then swap two neighbours
            keys.sort();
            keys.dedup();
            if keys.len() >= 2 {
                let i = gen::idx(u, keys.len() - 1);
                keys.swap(i, i + 1);
            }
        }
        4 => {
            keys.sort();
            keys.dedup();
            keys.reverse();
        }
        5 => {
            // sorted unique, then repeat the first key at the end (non-adjacent duplicate)
            keys.sort();
            keys.dedup();
            if let Some(k) = keys.first().cloned() {
                keys.push(k);
            }
        }
        _ => {} // as drawn
    }
    let n = keys.len();
    let vals: Vec<u8> = (0..n).map(|_| gen::byte(u)).collect();
    let sl = *gen::choose(u, &[SizeLength::U8, SizeLength::U16, SizeLength::U32, SizeLength::U64]);

    // 2. the model: strictly increasing? free of duplicates?
    let strictly_increasing = keys.windows(2).all(|w| w[0] < w[1]);
    let mut seen: Vec<&K> = Vec::new();
    let mut unique = true;
    for k in keys.iter() {
        if seen.iter().any(|s| *s == k) {
            unique = false;
        }
        seen.push(k);
    }
    let class = if strictly_increasing {
        "ordered-unique"
    } else if unique {
        "unordered-unique"
    } else {
        "duplicate"
    };
    ctx.class(class);
    ctx.class(&format!("key:{kname}"));
    let model_map: BTreeMap<K, u8> = keys.iter().cloned().zip(vals.iter().cloned()).collect();
    let model_set: BTreeSet<K> = keys.iter().cloned().collect();

    // 3. encodings written by the reference encoder
    let mut set_body = Vec::new();
    let mut map_body = Vec::new();
    for (k, v) in keys.iter().zip(vals.iter()) {
        let mut kb = Vec::new();
        k.refenc(&mut kb);
        set_body.extend_from_slice(&kb);
        map_body.extend_from_slice(&kb);
        map_body.push(*v);
    }
    ctx.sample(|| format!("{class} keys<{kname}> = {} values = {:?}", dbg(&keys), vals));
    ctx.describe(|| format!("{class} keys<{kname}> = {keys:?} values = {vals:?}\nset body {}\nmap body {}", gen::hex(&set_body), gen::hex(&map_body)));
    if n >= 2 {
        ctx.class("nontrivial");
        ctx.nontrivial(&(&kname, &map_body, shape));
    }
    let with_len = |w: SizeLength, body: &[u8]| {
        let mut o = match w {
            SizeLength::U8 => vec![n as u8],
            SizeLength::U16 => (n as u16).to_le_bytes().to_vec(),
            SizeLength::U32 => (n as u32).to_le_bytes().to_vec(),
            SizeLength::U64 => (n as u64).to_le_bytes().to_vec(),
        };
        o.extend_from_slice(body);
        o
    };
    let sigf = |o: &str| format!("{o}:{class}");

    macro_rules! expect {
        ($what:expr, $res:expr, $should_accept:expr, $model:expr) => {{
            let r = $res;
            match (&r, $should_accept) {
                (Ok(got), true) => {
                    if got != $model {
                        return Err(Violation::new("ordered-value", format!("{} accepted keys<{kname}> {} but produced {} instead of {}", $what, dbg(&keys), dbg(got), dbg($model))).with_signature(format!("ordered-value:{}", $what)));
                    }
                }
                (Err(_), false) => {}
                (Ok(got), false) => {
                    return Err(Violation::new("ordered-reject", format!("{} accepted a {class} key sequence<{kname}> {} (produced {})", $what, dbg(&keys), dbg(got))).with_signature(sigf(&format!("ordered-reject:{}", $what))));
                }
                (Err(_), true) => {
                    return Err(Violation::new("ordered-accept", format!("{} rejected the {class} key sequence<{kname}> {}", $what, dbg(&keys))).with_signature(sigf(&format!("ordered-accept:{}", $what))));
                }
            }
        }};
    }

    // "NB: This ensures there are no duplicates ... Moreover this will only succeed if keys are listed in order."
    expect!("deserial_map_no_length", cc::deserial_map_no_length::<_, K, u8>(&mut cc::Cursor::new(&map_body[..]), n), strictly_increasing, &model_map);
    expect!("deserial_set_no_length", cc::deserial_set_no_length::<_, K>(&mut cc::Cursor::new(&set_body[..]), n), strictly_increasing, &model_set);
    // "skipping the order checking. The only check that is made ... is that there are no duplicates."
    expect!("deserial_map_no_length_no_order_check", cc::deserial_map_no_length_no_order_check::<_, K, u8>(&mut cc::Cursor::new(&map_body[..]), n), unique, &model_map);
    expect!("deserial_set_no_length_no_order_check", cc::deserial_set_no_length_no_order_check::<_, K>(&mut cc::Cursor::new(&set_body[..]), n), unique, &model_set);
    // Deserial for BTreeMap / BTreeSet: "does not ensure the ordering of the keys, it only ensures that there are no duplicates"
    expect!("BTreeMap::deserial", cc::from_bytes::<BTreeMap<K, u8>>(&with_len(SizeLength::U32, &map_body)), unique, &model_map);
    expect!("BTreeSet::deserial", cc::from_bytes::<BTreeSet<K>>(&with_len(SizeLength::U32, &set_body)), unique, &model_set);
    // hash collections: "NB: This ensures there are no duplicates."
    let model_hmap: cc::HashMap<K, u8> = keys.iter().cloned().zip(vals.iter().cloned()).collect();
    let model_hset: cc::HashSet<K> = keys.iter().cloned().collect();
    expect!("deserial_hashmap_no_length", cc::deserial_hashmap_no_length::<_, K, u8>(&mut cc::Cursor::new(&map_body[..]), n), unique, &model_hmap);
    expect!("deserial_hashset_no_length", cc::deserial_hashset_no_length::<_, K>(&mut cc::Cursor::new(&set_body[..]), n), unique, &model_hset);
    expect!("HashMap::deserial", cc::from_bytes::<cc::HashMap<K, u8>>(&with_len(SizeLength::U32, &map_body)), unique, &model_hmap);
    expect!("HashSet::deserial", cc::from_bytes::<cc::HashSet<K>>(&with_len(SizeLength::U32, &set_body)), unique, &model_hset);
    // DeserialCtx: `ensure_ordered`: "Whether the ordering should be ensured, for example that keys in BTreeMap and BTreeSet are in strictly increasing order."
    let mb = with_len(sl, &map_body);
    let sb = with_len(sl, &set_body);
    expect!("BTreeMap::deserial_ctx(ordered)", BTreeMap::<K, u8>::deserial_ctx(sl, true, &mut cc::Cursor::new(&mb[..])), strictly_increasing, &model_map);
    expect!("BTreeSet::deserial_ctx(ordered)", BTreeSet::<K>::deserial_ctx(sl, true, &mut cc::Cursor::new(&sb[..])), strictly_increasing, &model_set);
    expect!("BTreeMap::deserial_ctx(unordered)", BTreeMap::<K, u8>::deserial_ctx(sl, false, &mut cc::Cursor::new(&mb[..])), unique, &model_map);
    expect!("BTreeSet::deserial_ctx(unordered)", BTreeSet::<K>::deserial_ctx(sl, false, &mut cc::Cursor::new(&sb[..])), unique, &model_set);
    // hash collections: "setting ensure_ordering have no effect"
    let ord_flag = gen::boolean(u);
    expect!("HashMap::deserial_ctx", cc::HashMap::<K, u8>::deserial_ctx(sl, ord_flag, &mut cc::Cursor::new(&mb[..])), unique, &model_hmap);
    expect!("HashSet::deserial_ctx", cc::HashSet::<K>::deserial_ctx(sl, ord_flag, &mut cc::Cursor::new(&sb[..])), unique, &model_hset);
    // derive(Deserial) with ensure_ordered / without
    let hs = OrderedSetHolder { s: model_set.clone() };
    let hm = OrderedMapHolder { m: model_map.clone() };
    let um = UniqueMapHolder { m: model_map.clone() };
    expect!("derive(ensure_ordered) set", cc::from_bytes::<OrderedSetHolder<K>>(&with_len(SizeLength::U8, &set_body)), strictly_increasing, &hs);
    expect!("derive(ensure_ordered) map", cc::from_bytes::<OrderedMapHolder<K>>(&with_len(SizeLength::U16, &map_body)), strictly_increasing, &hm);
    expect!("derive(size_length) map", cc::from_bytes::<UniqueMapHolder<K>>(&with_len(SizeLength::U8, &map_body)), unique, &um);

    // 4. writers lay out in ascending order ("ordered by the key", "ascending list of keys"):
    //    the serialisation of the model equals the entries sorted by an independent insertion sort
    let mut sorted: Vec<(K, u8)> = Vec::new();
    for (k, v) in model_map.iter() {
        let pos = sorted.iter().position(|(sk, _)| sk > k).unwrap_or(sorted.len());
        sorted.insert(pos, (k.clone(), *v));
    }
    let mut want_map = Vec::new();
    let mut want_set = Vec::new();
    for (k, v) in sorted.iter() {
        let mut kb = Vec::new();
        k.refenc(&mut kb);
        want_set.extend_from_slice(&kb);
        want_map.extend_from_slice(&kb);
        want_map.push(*v);
    }
    let mut got_map = Vec::new();
    cc::serial_map_no_length(&model_map, &mut got_map).map_err(|_| Violation::new("writer", "serial_map_no_length failed on Vec"))?;
    let mut got_set = Vec::new();
    cc::serial_set_no_length(&model_set, &mut got_set).map_err(|_| Violation::new("writer", "serial_set_no_length failed on Vec"))?;
    vensure!(got_map == want_map, "ordered-writer", "serial_map_no_length of {} gives {} expected ascending {}", dbg(&model_map), hexs(&got_map), hexs(&want_map));
    vensure!(got_set == want_set, "ordered-writer", "serial_set_no_length of {} gives {} expected ascending {}", dbg(&model_set), hexs(&got_set), hexs(&want_set));
    // and what the ordered writers produce is accepted by the ordered readers
    let r = cc::deserial_map_no_length::<_, K, u8>(&mut cc::Cursor::new(&got_map[..]), model_map.len());
    vensure!(r.as_ref() == Ok(&model_map), "ordered-writer-reader", "deserial_map_no_length rejects the output of serial_map_no_length for {}", dbg(&model_map));
    let r = cc::deserial_set_no_length::<_, K>(&mut cc::Cursor::new(&got_set[..]), model_set.len());
    vensure!(r.as_ref() == Ok(&model_set), "ordered-writer-reader", "deserial_set_no_length rejects the output of serial_set_no_length for {}", dbg(&model_set));
    // hash writers: same multiset of entries, any order -> reading back gives the same collection
    let mut hm_bytes = Vec::new();
    cc::serial_hashmap_no_length(&model_hmap, &mut hm_bytes).map_err(|_| Violation::new("writer", "serial_hashmap_no_length failed"))?;
    let r = cc::deserial_hashmap_no_length::<_, K, u8>(&mut cc::Cursor::new(&hm_bytes[..]), model_hmap.len());
    vensure!(r.as_ref() == Ok(&model_hmap) && hm_bytes.len() == want_map.len(), "hash-writer-reader", "hash map {} does not survive serial_hashmap_no_length / deserial_hashmap_no_length", dbg(&model_hmap));
    let mut hs_bytes = Vec::new();
    cc::serial_hashset_no_length(&model_hset, &mut hs_bytes).map_err(|_| Violation::new("writer", "serial_hashset_no_length failed"))?;
    let r = cc::deserial_hashset_no_length::<_, K>(&mut cc::Cursor::new(&hs_bytes[..]), model_hset.len());
    vensure!(r.as_ref() == Ok(&model_hset) && hs_bytes.len() == want_set.len(), "hash-writer-reader", "hash set {} does not survive serial_hashset_no_length / deserial_hashset_no_length", dbg(&model_hset));
    Ok(())
}

pub fn t_ordered(data: &[u8], ctx: &mut Ctx) -> CheckResult {
    let mut u = Unstructured::new(data);
    match gen::byte(&mut u) % 6 {
        0 => ordered_case::<u8>(&mut u, ctx),
        1 => ordered_case::<u16>(&mut u, ctx),
        2 => ordered_case::<i16>(&mut u, ctx),
        3 => ordered_case::<String>(&mut u, ctx),
        4 => ordered_case::<(u8, u16)>(&mut u, ctx),
        _ => ordered_case::<cc::Address>(&mut u, ctx),
    }
}

// ---------------------------------------------------------------------------------------------
// Target 3: decoding arbitrary and mutated bytes: totality, allocation bound, invariants

/// Bound on the peak of live heap bytes during one decode: linear in the input plus the constant
/// that covers `MAX_PREALLOCATED_CAPACITY` (4096) elements of the largest element type used here.
pub const ALLOC_SLOPE: usize = 64;
pub const ALLOC_CONST: usize = 1 << 20;
/// `OwnedPolicy::deserial` pre-allocates `len: u16` items of 33 bytes without the 4096 cap: a
/// constant (u16-bounded) 2.06 MiB. Recorded as an observation, bounded separately.
pub const ALLOC_CONST_POLICY: usize = (1 << 20) + 65535 * 33;

/// Type-specific invariants documented for decoded values.
pub trait Invariant {
    fn invariant(&self) -> Result<(), String> { Ok(()) }
    /// Is the documented encoding of this type a bijection (one byte string per value)? Then a
    /// successful decode must have read exactly the documented encoding of its result. False for
    /// collections whose decoders are documented to accept any key order.
    fn canonical() -> bool { true }
}
macro_rules! no_invariant { ($($t:ty),* $(,)?) => { $(impl Invariant for $t {})* } }
macro_rules! any_order { ($($t:ty),* $(,)?) => { $(impl Invariant for $t { fn canonical() -> bool { false } })* } }
no_invariant!(u8, u16, u32, u64, u128, i8, i16, i32, i64, i128, (u64, bool, String), cc::Amount, cc::Timestamp, cc::Duration, String,
    Option<String>, Option<Option<bool>>, cc::AccountAddress, cc::ContractAddress, cc::Address, cc::OwnedParameter, ChainMetaW,
    Vec<u8>, Vec<u16>, Vec<String>, Vec<Vec<u8>>, Vec<Option<u32>>, Vec<cc::Address>, Vec<(String, String, String)>,
    [u8; 32], [String; 2], [Option<u16>; 4], cc::AttributeTag, Hash32, cc::SignatureEd25519, cc::PublicKey, cc::Signature, derived::En);
any_order!(BTreeMap<u8, u8>, BTreeMap<u16, String>, BTreeMap<String, Vec<u8>>, BTreeMap<u32, u64>, BTreeSet<u8>, BTreeSet<u16>, BTreeSet<String>, BTreeSet<u64>,
    cc::HashMap<u8, u8>, cc::HashMap<u32, String>, cc::HashSet<u16>, cc::HashSet<u64>, cc::HashSet<String>,
    cc::CredentialSignatures, cc::AccountSignatures, BTreeMap<u8, BTreeMap<u8, u8>>);

impl Invariant for Vec<cc::OwnedReceiveName> {
    fn invariant(&self) -> Result<(), String> {
        for n in self.iter() {
            n.invariant()?;
        }
        Ok(())
    }
}

impl Invariant for bool {}
impl Invariant for cc::AccountBalance {
    fn invariant(&self) -> Result<(), String> {
        // AccountBalance::new: "ensuring that both the staked amount and the locked amount is smaller than or equal to the total balance"
        if self.staked > self.total || self.locked > self.total {
            return Err(format!("staked/locked exceed total: {self:?}"));
        }
        Ok(())
    }
}
impl Invariant for cc::AccountThreshold {
    fn invariant(&self) -> Result<(), String> {
        if u8::from(*self) == 0 {
            return Err("threshold 0".into());
        }
        Ok(())
    }
}
impl Invariant for cc::ExchangeRate {
    fn invariant(&self) -> Result<(), String> {
        // "This is never 0, and the exchange rate should also never be infinite."
        if self.numerator() == 0 || self.denominator() == 0 {
            return Err(format!("zero component: {self:?}"));
        }
        Ok(())
    }
}
impl Invariant for cc::ExchangeRates {
    fn invariant(&self) -> Result<(), String> {
        self.euro_per_energy.invariant()?;
        self.micro_ccd_per_euro.invariant()
    }
}
impl Invariant for cc::OwnedContractName {
    fn invariant(&self) -> Result<(), String> {
        let s = self.as_contract_name().get_chain_name();
        if !crate::text::ref_valid_contract_name(s) {
            return Err(format!("decoded contract name {s:?} violates the documented format"));
        }
        Ok(())
    }
}
impl Invariant for cc::OwnedReceiveName {
    fn invariant(&self) -> Result<(), String> {
        let s = self.as_receive_name().get_chain_name();
        if !crate::text::ref_valid_receive_name(s) {
            return Err(format!("decoded receive name {s:?} violates the documented format"));
        }
        Ok(())
    }
}
impl Invariant for cc::OwnedEntrypointName {
    fn invariant(&self) -> Result<(), String> {
        let s = self.to_string();
        if !crate::text::ref_valid_entrypoint_name(&s) {
            return Err(format!("decoded entrypoint name {s:?} violates the documented format"));
        }
        Ok(())
    }
}
impl Invariant for cc::AttributeValue {
    fn invariant(&self) -> Result<(), String> {
        if self.len() > 31 {
            return Err(format!("attribute value of length {}", self.len()));
        }
        Ok(())
    }
}
impl Invariant for PolicyW {
    fn invariant(&self) -> Result<(), String> {
        for (_, v) in self.0.items.iter() {
            v.invariant()?;
        }
        Ok(())
    }
}
impl Invariant for cc::CredentialPublicKeys {
    fn canonical() -> bool { false }

    fn invariant(&self) -> Result<(), String> {
        if u8::from(self.threshold) == 0 {
            return Err("threshold 0".into());
        }
        Ok(())
    }
}
impl Invariant for cc::AccountPublicKeys {
    fn canonical() -> bool { false }

    fn invariant(&self) -> Result<(), String> {
        if u8::from(self.threshold) == 0 {
            return Err("threshold 0".into());
        }
        for v in self.keys.values() {
            v.invariant()?;
        }
        Ok(())
    }
}
impl Invariant for derived::Rec {
    fn invariant(&self) -> Result<(), String> { Ok(()) }
}

fn mutate(u: &mut Unstructured, bytes: &mut Vec<u8>) -> &'static str {
    match gen::byte(u) % 8 {
        0 => {
            // truncation
            let n = gen::range_usize(u, 0, bytes.len());
            bytes.truncate(n);
            "truncate"
        }
        1 | 2 | 3 => {
            // length inflation: overwrite 1/2/4/8 bytes (offset 0 favoured: length prefixes) with a huge or slightly-too-large count
            let w = *gen::choose(u, &[1usize, 2, 4, 4, 4, 8]);
            let pos = if gen::boolean(u) || bytes.is_empty() { 0 } else { gen::idx(u, bytes.len()) };
            let val: u64 = match gen::byte(u) % 6 {
                0 => u64::MAX,
                1 => 0x7fff_ffff_ffff_ffff,
                2 => (bytes.len() as u64) + 1,
                3 => 4097,
                4 => 1 << 24,
                _ => gen::u64v(u),
            };
            while bytes.len() < pos + w {
                bytes.push(0);
            }
            bytes[pos..pos + w].copy_from_slice(&val.to_le_bytes()[..w]);
            "inflate"
        }
        4 => {
            if !bytes.is_empty() {
                let pos = gen::idx(u, bytes.len());
                bytes[pos] ^= 1 << (gen::byte(u) % 8);
            }
            "bitflip"
        }
        5 => {
            if !bytes.is_empty() {
                let pos = gen::idx(u, bytes.len());
                bytes[pos] = *gen::choose(u, &[0u8, 1, 2, 0x7f, 0x80, 0xff]);
            }
            "byte-set"
        }
        6 => {
            if gen::boolean(u) {
                let extra = gen::short_bytes(u, 24);
                bytes.extend_from_slice(&extra);
                "append"
            } else {
                // a run of 1..32 equal bytes (0x00 / 0xff) at an offset that is a multiple of the run length where possible
                let w = *gen::choose(u, &[1usize, 2, 4, 8, 8, 16, 32]);
                let fill = *gen::choose(u, &[0u8, 0, 0xff]);
                if !bytes.is_empty() {
                    let slots = (bytes.len() + w - 1) / w;
                    let pos = gen::idx(u, slots) * w;
                    for b in bytes.iter_mut().skip(pos).take(w) {
                        *b = fill;
                    }
                }
                "fill"
            }
        }
        _ => "valid",
    }
}

fn dec<T: Val + Invariant>(u: &mut Unstructured, ctx: &mut Ctx) -> CheckResult { dec_bound::<T>(u, ctx, ALLOC_CONST) }

fn dec_policy(u: &mut Unstructured, ctx: &mut Ctx) -> CheckResult { dec_bound::<PolicyW>(u, ctx, ALLOC_CONST_POLICY) }

fn dec_bound<T: Val + Invariant>(u: &mut Unstructured, ctx: &mut Ctx, konst: usize) -> CheckResult {
    let name = T::name();
    ctx.class(&format!("type:{name}"));
    let (input, how): (Vec<u8>, &'static str) = if gen::ratio(u, 1, 4) {
        (gen::short_bytes(u, 96), "random")
    } else {
        let v = T::gen(u);
        let mut b = cc::to_bytes(&v);
        let how = mutate(u, &mut b);
        if gen::ratio(u, 1, 4) {
            mutate(u, &mut b);
        }
        (b, how)
    };
    ctx.class(&format!("input:{how}"));
    ctx.describe(|| format!("decode {name} from {} ({how})", gen::hex(&input)));
    let ((res, consumed), rep) = vcore::alloc::measure(|| {
        let mut cur = cc::Cursor::new(&input[..]);
        let r = T::deserial(&mut cur);
        (r, cur.offset)
    });
    let bound = ALLOC_SLOPE * input.len() + konst;
    if rep.peak > bound {
        return Err(Violation::new("alloc-bound", format!("decoding {name} from {} bytes ({}) had {} live heap bytes at peak (largest single request {}), bound {}", input.len(), hexs(&input), rep.peak, rep.max_single, bound))
            .with_signature(format!("alloc-bound:{name}")));
    }
    if rep.peak > (1 << 16) + 8 * input.len() {
        ctx.class("prealloc-capped-path"); // the decoder pre-allocated from a declared length
    }
    vensure!(consumed <= input.len(), "cursor-bounds", "{name}: cursor offset {consumed} beyond input length {}", input.len());
    ctx.sample(|| format!("{name} <- {} ({how}): {}", hexs(&input), match &res { Ok(v) => format!("Ok({})", dbg(v)), Err(_) => "Err".into() }));
    match res {
        Ok(v) => {
            ctx.class("decoded-ok");
            if how != "valid" {
                ctx.class("nontrivial");
                ctx.nontrivial(&(&name, &input));
            }
            if let Err(e) = v.invariant() {
                return Err(Violation::new("decoded-invariant", format!("{name}: decoding {} produced a value violating a documented invariant: {e}", hexs(&input))).with_signature(format!("decoded-invariant:{name}")));
            }
            // the decoded value round-trips through its own encoding
            let re = cc::to_bytes(&v);
            match cc::from_bytes::<T>(&re) {
                Ok(v2) if v2 == v => {}
                other => {
                    return Err(Violation::new("roundtrip", format!("{name}: value {} decoded from {} re-encodes to {} which decodes to {}", dbg(&v), hexs(&input), hexs(&re), dbg(&other)))
                        .with_signature(format!("roundtrip-decoded:{name}")))
                }
            }
            // for formats that are bijections, what was read is the documented encoding of what was returned
            let mut reference = Vec::new();
            if T::canonical() && v.refenc(&mut reference) {
                ctx.class("canonical-compared");
                if reference != input[..consumed] {
                    return Err(Violation::new("decode-canonical", format!("{name}: decoding {} consumed {} which is not the documented encoding {} of the result {}", hexs(&input), hexs(&input[..consumed]), hexs(&reference), dbg(&v)))
                        .with_signature(format!("decode-canonical:{name}")));
                }
            }
            // the same bytes decode to the same value again (determinism), and a decode from exactly the consumed prefix agrees
            match cc::from_bytes::<T>(&input[..consumed]) {
                Ok(v3) if v3 == v => {}
                other => {
                    return Err(Violation::new("prefix-decode", format!("{name}: decoding the consumed prefix {} gives {} instead of {}", hexs(&input[..consumed]), dbg(&other), dbg(&v)))
                        .with_signature(format!("prefix-decode:{name}")))
                }
            }
        }
        Err(_) => {
            ctx.class("decoded-err");
            if how != "random" && consumed >= 2 {
                ctx.class("nontrivial");
                ctx.nontrivial(&(&name, &input));
            }
        }
    }
    Ok(())
}

/// Documented rejections on single bytes / tags.
fn dec_documented_rejections(u: &mut Unstructured, ctx: &mut Ctx) -> CheckResult {
    ctx.class("type:documented-rejections");
    let b = gen::byte(u);
    let tail = gen::bytes(u, 40);
    let mut input = vec![b];
    input.extend_from_slice(&tail);
    // bool: "`true` is _only_ represented by `1u8`", "every other value results in an error"
    let r = cc::from_bytes::<bool>(&input);
    vensure!(r.is_ok() == (b <= 1) && (b > 1 || r == Ok(b == 1)), "bool-tag", "bool from byte {b} gives {r:?}");
    // Option: "`0u8` represents `None` and `1u8` represents `Some`, every other value results in an error"
    let r = cc::from_bytes::<Option<u8>>(&input);
    let want = match b {
        0 => Ok(None),
        1 => Ok(Some(tail[0])),
        _ => Err(cc::ParseError::default()),
    };
    vensure!(r == want, "option-tag", "Option<u8> from {} gives {r:?}", hexs(&input[..2]));
    // NonZeroThresholdU8: "Serialization for this type ensures that the threshold is never 0."
    let r = cc::from_bytes::<cc::SignatureThreshold>(&input);
    vensure!(r.is_ok() == (b != 0), "threshold-zero", "threshold from byte {b}: ok={}", r.is_ok());
    // AttributeValue: at most 31 bytes
    let r = cc::from_bytes::<cc::AttributeValue>(&input);
    vensure!(r.is_ok() == (b <= 31), "attribute-length", "AttributeValue with length byte {b}: ok={}", r.is_ok());
    if let Ok(v) = &r {
        let s: &[u8] = v.as_ref();
        vensure!(s == &tail[..b as usize], "attribute-content", "AttributeValue content mismatch for length {b}");
    }
    ctx.class("nontrivial");
    ctx.nontrivial(&(b, tail[0]));
    Ok(())
}

pub fn t_decode_bytes(data: &[u8], ctx: &mut Ctx) -> CheckResult {
    let mut u = Unstructured::new(data);
    let fns: &[fn(&mut Unstructured, &mut Ctx) -> CheckResult] = &[
        dec::<u8>, dec::<u32>, dec::<u128>, dec::<i64>, dec::<bool>, dec::<(u64, bool, String)>,
        dec::<cc::Amount>, dec::<cc::AccountBalance>, dec::<cc::AccountThreshold>, dec::<cc::ExchangeRate>, dec::<cc::ExchangeRates>,
        dec::<cc::Timestamp>, dec::<String>, dec::<Option<String>>, dec::<Option<Option<bool>>>,
        dec::<cc::AccountAddress>, dec::<cc::ContractAddress>, dec::<cc::Address>,
        dec::<cc::OwnedContractName>, dec::<cc::OwnedReceiveName>, dec::<cc::OwnedEntrypointName>, dec::<cc::OwnedParameter>, dec::<ChainMetaW>,
        dec::<Vec<u8>>, dec::<Vec<u16>>, dec::<Vec<String>>, dec::<Vec<Vec<u8>>>, dec::<Vec<Option<u32>>>, dec::<Vec<cc::Address>>, dec::<Vec<(String, String, String)>>,
        dec::<BTreeMap<u8, u8>>, dec::<BTreeMap<u16, String>>, dec::<BTreeMap<String, Vec<u8>>>, dec::<BTreeMap<u32, u64>>,
        dec::<BTreeSet<u8>>, dec::<BTreeSet<u16>>, dec::<BTreeSet<String>>, dec::<BTreeSet<u64>>,
        dec::<cc::HashMap<u8, u8>>, dec::<cc::HashMap<u32, String>>, dec::<cc::HashSet<u16>>, dec::<cc::HashSet<u64>>, dec::<cc::HashSet<String>>,
        dec::<[u8; 32]>, dec::<[String; 2]>, dec::<[Option<u16>; 4]>,
        dec::<cc::AttributeTag>, dec::<cc::AttributeValue>, dec_policy, dec_policy, dec::<Hash32>, dec::<cc::SignatureEd25519>,
        dec::<cc::PublicKey>, dec::<cc::CredentialPublicKeys>, dec::<cc::AccountPublicKeys>, dec::<cc::Signature>, dec::<cc::CredentialSignatures>, dec::<cc::AccountSignatures>,
        dec::<derived::Rec>, dec::<derived::En>, dec::<Vec<cc::OwnedReceiveName>>, dec::<BTreeMap<u8, BTreeMap<u8, u8>>>,
        dec_documented_rejections,
    ];
    let i = gen::idx(&mut u, fns.len());
    (fns[i])(&mut u, ctx)
}

// ---------------------------------------------------------------------------------------------
// Target 3b: the contextual decoders (`DeserialCtx`, i.e. fields with `#[concordium(size_length = N)]`)
// on hostile bytes: total, bounded pre-allocation, and whatever is accepted round-trips.

fn dec_ctx<T: Val + SerialCtx + DeserialCtx>(u: &mut Unstructured, ctx: &mut Ctx) -> CheckResult {
    let name = format!("ctx:{}", T::name());
    let sl = *gen::choose(u, &[SizeLength::U8, SizeLength::U16, SizeLength::U32, SizeLength::U64, SizeLength::U32, SizeLength::U64]);
    let ordered = gen::boolean(u);
    ctx.class(&format!("type:{name}"));
    ctx.class(&format!("size-length:{sl:?}"));
    let (mut input, how): (Vec<u8>, &'static str) = if gen::ratio(u, 1, 4) {
        (gen::short_bytes(u, 96), "random")
    } else {
        let v = T::gen(u);
        let mut b = Vec::new();
        if v.serial_ctx(sl, &mut b).is_err() {
            ctx.class("ctx-length-does-not-fit");
            return Ok(());
        }
        let how = mutate(u, &mut b);
        (b, how)
    };
    // a declared length far beyond the input (all widths): the prefix is overwritten
    let how = if gen::ratio(u, 1, 3) {
        let width = match sl {
            SizeLength::U8 => 1,
            SizeLength::U16 => 2,
            SizeLength::U32 => 4,
            SizeLength::U64 => 8,
        };
        let big: u64 = match gen::byte(u) % 6 {
            0 => u64::MAX,
            1 => 1 << 63,
            2 => (1 << 63) - 1,
            3 => 0xffff_ffff,
            4 => 1 << 26,
            _ => gen::u32v(u) as u64 * 4099,
        };
        let le = big.to_le_bytes();
        if input.len() < width {
            input.resize(width, 0);
        }
        input[..width].copy_from_slice(&le[..width]);
        "huge-declared-length"
    } else {
        how
    };
    ctx.class(&format!("input:{how}"));
    ctx.describe(|| format!("deserial_ctx {name} ({sl:?}, ordered={ordered}) from {} ({how})", gen::hex(&input)));
    let ((res, consumed), rep) = vcore::alloc::measure(|| {
        let mut cur = cc::Cursor::new(&input[..]);
        let r = T::deserial_ctx(sl, ordered, &mut cur);
        (r, cur.offset)
    });
    let bound = ALLOC_SLOPE * input.len() + ALLOC_CONST;
    if rep.peak > bound {
        return Err(Violation::new("alloc-bound", format!("deserial_ctx of {name} ({sl:?}) from {} bytes ({}) had {} live heap bytes at peak (largest single request {}), bound {}", input.len(), hexs(&input), rep.peak, rep.max_single, bound))
            .with_signature(format!("alloc-bound:{name}")));
    }
    vensure!(consumed <= input.len(), "cursor-bounds", "{name}: cursor offset {consumed} beyond input length {}", input.len());
    ctx.sample(|| format!("{name} {sl:?} <- {} ({how}): {}", hexs(&input), match &res { Ok(v) => format!("Ok({})", dbg(v)), Err(_) => "Err".into() }));
    match res {
        Ok(v) => {
            ctx.class("decoded-ok");
            if how != "valid" {
                ctx.class("nontrivial");
                ctx.nontrivial(&(&name, &input));
            }
            let mut re = Vec::new();
            vensure!(v.serial_ctx(sl, &mut re).is_ok(), "ctx-roundtrip-decoded", "{name}: a value decoded under {sl:?} cannot be encoded under it");
            let mut cur = cc::Cursor::new(&re[..]);
            let back = T::deserial_ctx(sl, ordered, &mut cur);
            vensure!(matches!(&back, Ok(b) if *b == v), "ctx-roundtrip-decoded", "{name}: value decoded from {} re-encodes to {} which decodes to {}", hexs(&input), hexs(&re), dbg(&back));
        }
        Err(_) => {
            ctx.class("decoded-err");
            if how == "huge-declared-length" {
                ctx.class("nontrivial");
                ctx.nontrivial(&(&name, &input));
            }
        }
    }
    Ok(())
}

pub fn t_decode_ctx(data: &[u8], ctx: &mut Ctx) -> CheckResult {
    let mut u = Unstructured::new(data);
    let fns: &[fn(&mut Unstructured, &mut Ctx) -> CheckResult] = &[
        dec_ctx::<String>, dec_ctx::<String>, dec_ctx::<Vec<u8>>, dec_ctx::<Vec<u16>>, dec_ctx::<Vec<String>>, dec_ctx::<Vec<Option<u32>>>,
        dec_ctx::<BTreeMap<u8, u8>>, dec_ctx::<BTreeMap<u16, String>>, dec_ctx::<BTreeSet<u16>>, dec_ctx::<BTreeSet<String>>,
        dec_ctx::<cc::HashMap<u32, String>>, dec_ctx::<cc::HashSet<u64>>,
    ];
    let i = gen::idx(&mut u, fns.len());
    (fns[i])(&mut u, ctx)
}

// ---------------------------------------------------------------------------------------------
// Target 4: Cursor read / seek / write against a plain model

pub fn t_cursor(data: &[u8], ctx: &mut Ctx) -> CheckResult {
    let mut u = Unstructured::new(data);
    let content = gen::short_bytes(&mut u, 40);
    let nops = gen::range_usize(&mut u, 1, 24);
    let write_mode = gen::boolean(&mut u);
    let mut trace = Vec::new();
    let mut interesting = false;
    if write_mode {
        ctx.class("mode:write");
        // Cursor<&mut Vec<u8>>: writes overwrite at the offset and extend at the end
        let mut real = content.clone();
        let mut model = content.clone();
        let mut mpos: usize = 0;
        let mut cur = cc::Cursor::new(&mut real);
        for _ in 0..nops {
            match gen::byte(&mut u) % 4 {
                0 | 1 => {
                    let w = gen::short_bytes(&mut u, 12);
                    trace.push(format!("write {}", gen::hex(&w)));
                    let r = cur.write(&w);
                    vensure!(r == Ok(w.len()), "cursor-write", "write of {} bytes returned {r:?}\ntrace {trace:?}", w.len());
                    if !w.is_empty() && mpos < model.len() && mpos + w.len() > model.len() {
                        interesting = true;
                    }
                    for (i, b) in w.iter().enumerate() {
                        if mpos + i < model.len() {
                            model[mpos + i] = *b;
                        } else {
                            model.push(*b);
                        }
                    }
                    mpos += w.len();
                }
                2 => {
                    let v = gen::u32v(&mut u);
                    trace.push(format!("write_u32 {v}"));
                    let r = cur.write_u32(v);
                    vensure!(r.is_ok(), "cursor-write", "write_u32 failed\ntrace {trace:?}");
                    for (i, b) in [(v & 0xff) as u8, (v >> 8 & 0xff) as u8, (v >> 16 & 0xff) as u8, (v >> 24) as u8].iter().enumerate() {
                        if mpos + i < model.len() {
                            model[mpos + i] = *b;
                        } else {
                            model.push(*b);
                        }
                    }
                    mpos += 4;
                }
                _ => {
                    let (sf, want) = gen_seek(&mut u, mpos, model.len(), &mut trace);
                    let r = cur.seek(sf);
                    vensure!(r == want.map(|p| p as u32), "cursor-seek", "seek returned {r:?}, model {want:?}\ntrace {trace:?}");
                    if let Ok(p) = want {
                        mpos = p;
                    }
                }
            }
            vensure!(cur.cursor_position() as usize == mpos, "cursor-position", "cursor_position {} model {mpos}\ntrace {trace:?}", cur.cursor_position());
        }
        drop(cur);
        vensure!(real == model, "cursor-write-content", "content {} model {}\ntrace {trace:?}", hexs(&real), hexs(&model));
    } else {
        ctx.class("mode:read");
        let mut cur = cc::Cursor::new(&content[..]);
        let mut mpos: usize = 0;
        for _ in 0..nops {
            match gen::byte(&mut u) % 6 {
                0 => {
                    let n = gen::range_usize(&mut u, 0, 16);
                    trace.push(format!("read {n}"));
                    let mut buf = vec![0u8; n];
                    let r = cur.read(&mut buf);
                    let avail = (content.len() - mpos).min(n);
                    vensure!(r == Ok(avail) && buf[..avail] == content[mpos..mpos + avail], "cursor-read", "read({n}) at {mpos}/{} returned {r:?} {}\ntrace {trace:?}", content.len(), hexs(&buf));
                    mpos += avail;
                }
                1 => {
                    let n = gen::range_usize(&mut u, 0, 16);
                    trace.push(format!("read_exact {n}"));
                    let mut buf = vec![0u8; n];
                    let r = cur.read_exact(&mut buf);
                    let avail = content.len() - mpos;
                    if n <= avail {
                        vensure!(r.is_ok() && buf[..] == content[mpos..mpos + n], "cursor-read-exact", "read_exact({n}) at {mpos}/{} failed or wrong data\ntrace {trace:?}", content.len());
                        mpos += n;
                    } else {
                        // "If not enough bytes could be read the function returns Err(_)"; position afterwards is not documented: resynchronise
                        vensure!(r.is_err(), "cursor-read-exact", "read_exact({n}) with {avail} available reported success\ntrace {trace:?}");
                        interesting = true;
                        mpos = cur.offset;
                        vensure!(mpos <= content.len(), "cursor-bounds", "offset {mpos} beyond data {}", content.len());
                    }
                }
                2 => {
                    trace.push("get u16".into());
                    let r: cc::ParseResult<u16> = cur.get();
                    if content.len() - mpos >= 2 {
                        let want = content[mpos] as u16 | (content[mpos + 1] as u16) << 8;
                        vensure!(r == Ok(want), "cursor-get", "u16 at {mpos}: {r:?} want {want}\ntrace {trace:?}");
                        mpos += 2;
                    } else {
                        vensure!(r.is_err(), "cursor-get", "u16 with {} bytes left: {r:?}", content.len() - mpos);
                        mpos = cur.offset;
                    }
                }
                3 => {
                    trace.push("get i64".into());
                    let r: cc::ParseResult<i64> = cur.get();
                    if content.len() - mpos >= 8 {
                        let mut want: u64 = 0;
                        for i in 0..8 {
                            want |= (content[mpos + i] as u64) << (8 * i);
                        }
                        vensure!(r == Ok(want as i64), "cursor-get", "i64 at {mpos}: {r:?} want {}\ntrace {trace:?}", want as i64);
                        mpos += 8;
                    } else {
                        vensure!(r.is_err(), "cursor-get", "i64 with {} bytes left: {r:?}", content.len() - mpos);
                        mpos = cur.offset;
                    }
                }
                _ => {
                    let (sf, want) = gen_seek(&mut u, mpos, content.len(), &mut trace);
                    let r = cur.seek(sf);
                    vensure!(r == want.map(|p| p as u32), "cursor-seek", "seek returned {r:?}, model {want:?}\ntrace {trace:?}");
                    if let Ok(p) = want {
                        mpos = p;
                    } else {
                        interesting = true;
                    }
                }
            }
            vensure!(cur.cursor_position() as usize == mpos && cur.offset == mpos, "cursor-position", "cursor_position {} model {mpos}\ntrace {trace:?}", cur.cursor_position());
        }
    }
    ctx.sample(|| format!("content {} ops {:?}", hexs(&content), trace));
    ctx.describe(|| format!("content {} ops {:?}", gen::hex(&content), trace));
    if interesting {
        ctx.class("nontrivial");
        ctx.nontrivial(&(&content, &trace));
    }
    Ok(())
}

/// A seek request with the model's verdict: the new position if 0 <= new <= end, otherwise an error
/// ("cannot seek beyond the end", "before start of data").
fn gen_seek(u: &mut Unstructured, pos: usize, end: usize, trace: &mut Vec<String>) -> (SeekFrom, Result<usize, ()>) {
    let delta: i64 = match gen::byte(u) % 8 {
        0 => 0,
        1 => 1,
        2 => -1,
        3 => end as i64,
        4 => -(end as i64),
        5 => *gen::choose(u, &[i32::MIN as i64, i32::MAX as i64, -(end as i64) - 1, end as i64 + 1]),
        _ => gen::range_u64(u, 0, 2 * end as u64 + 2) as i64 - end as i64 - 1,
    };
    let in_range = |p: i64| if p >= 0 && p <= end as i64 { Ok(p as usize) } else { Err(()) };
    match gen::byte(u) % 3 {
        0 => {
            let off = delta.unsigned_abs().min(u32::MAX as u64) as u32;
            trace.push(format!("seek Start({off})"));
            (SeekFrom::Start(off), in_range(off as i64))
        }
        1 => {
            let d = delta.clamp(i32::MIN as i64, i32::MAX as i64) as i32;
            trace.push(format!("seek End({d})"));
            (SeekFrom::End(d), if d > 0 { Err(()) } else { in_range(end as i64 + d as i64) })
        }
        _ => {
            let d = delta.clamp(i32::MIN as i64, i32::MAX as i64) as i32;
            trace.push(format!("seek Current({d})"));
            (SeekFrom::Current(d), in_range(pos as i64 + d as i64))
        }
    }
}
