//! Text targets: Display/FromStr/serde round trips of generated values and grammar-based
//! candidate strings decided by independent transcriptions of the documented grammars.
use crate::val::{self, Val};
use concordium_contracts_common as cc;
use num_bigint::BigUint;
use num_traits::{ToPrimitive, Zero};
use sha2::{Digest, Sha256};
use std::str::FromStr;
use vcore::{gen, vensure, CheckResult, Ctx, Unstructured, Violation};

// =============================================================================================
// Independent transcriptions of the documented grammars
// =============================================================================================

/// Verdict of a reference grammar on a candidate string.
#[derive(Debug, Clone, PartialEq, Eq)]
pub enum Verdict<T> {
    /// The documentation says this string denotes this value.
    Valid(T),
    /// The documentation excludes this string.
    Invalid,
    /// The documentation is silent on a feature of this string: behaviour is only recorded.
    Silent(&'static str),
}

fn pick_str<'a>(u: &mut Unstructured, xs: &[&'a str]) -> &'a str { xs[gen::idx(u, xs.len())] }

fn all_ascii_digits(s: &str) -> bool { !s.is_empty() && s.bytes().all(|b| b.is_ascii_digit()) }

fn big(s: &str) -> BigUint { BigUint::parse_bytes(s.as_bytes(), 10).expect("digits") }

/// `Amount::from_str` documentation: "The input string must be of the form `n[.m]` where `n` and
/// `m` are both digits. - if `n` starts with 0 then it must be 0 - `m` can have at most 6 digits,
/// and must have at least 1 - both `n` and `m` must be non-negative." Unit: CCD = 10^6 microCCD;
/// the target type holds at most u64::MAX microCCD (error variant `Overflow`).
pub fn ref_amount(s: &str) -> Verdict<u64> {
    if s.chars().any(|c| !c.is_ascii() && c.is_numeric()) {
        return Verdict::Silent("non-ASCII digit");
    }
    let (n, m) = match s.split_once('.') {
        Some((n, m)) => (n, Some(m)),
        None => (s, None),
    };
    if !all_ascii_digits(n) {
        return Verdict::Invalid;
    }
    if n.len() > 1 && n.starts_with('0') {
        return Verdict::Invalid;
    }
    let mut frac = String::new();
    if let Some(m) = m {
        if !all_ascii_digits(m) || m.len() > 6 {
            return Verdict::Invalid;
        }
        frac.push_str(m);
    }
    while frac.len() < 6 {
        frac.push('0');
    }
    let total = big(n) * BigUint::from(1_000_000u32) + big(&frac);
    match total.to_u64() {
        Some(v) => Verdict::Valid(v),
        None => Verdict::Invalid, // not representable: `AmountParseError::Overflow`
    }
}

/// Days since 1970-01-01 of a proleptic Gregorian civil date (Hinnant's algorithm).
pub fn days_from_civil(y: i64, m: i64, d: i64) -> i64 {
    let y = if m <= 2 { y - 1 } else { y };
    let era = if y >= 0 { y } else { y - 399 } / 400;
    let yoe = y - era * 400;
    let mp = (m + 9) % 12;
    let doy = (153 * mp + 2) / 5 + d - 1;
    let doe = yoe * 365 + yoe / 4 - yoe / 100 + doy;
    era * 146097 + doe - 719468
}

pub fn days_in_month(y: i64, m: i64) -> i64 {
    match m {
        1 | 3 | 5 | 7 | 8 | 10 | 12 => 31,
        4 | 6 | 9 | 11 => 30,
        2 => {
            if (y % 4 == 0 && y % 100 != 0) || y % 400 == 0 {
                29
            } else {
                28
            }
        }
        _ => 0,
    }
}

/// RFC 3339 section 5.6 `date-time`, read strictly:
///   4DIGIT "-" 2DIGIT "-" 2DIGIT "T" 2DIGIT ":" 2DIGIT ":" 2DIGIT ["." 1*DIGIT] ("Z" / ("+" / "-") 2DIGIT ":" 2DIGIT)
/// with month 01-12, day 01-(days of that month), hour 00-23, minute 00-59, second 00-59 (leap second
/// 60: silent here), offset hour 00-23, minute 00-59. Lower-case "t"/"z" and a space instead of "T" are
/// allowed by the RFC only as notes ("may"), and "-00:00" has a special meaning: all silent here.
/// Value: milliseconds since the Unix epoch, rounded down ("Any precision above milliseconds is lost").
pub fn ref_rfc3339(s: &str) -> Verdict<i128> {
    if !s.is_ascii() {
        return Verdict::Silent("non-ASCII character");
    }
    let b = s.as_bytes();
    let mut silent: Option<&'static str> = None;
    let num = |from: usize, n: usize| -> Option<i64> {
        if from + n > b.len() || !b[from..from + n].iter().all(|c| c.is_ascii_digit()) {
            return None;
        }
        Some(b[from..from + n].iter().fold(0i64, |a, c| a * 10 + (c - b'0') as i64))
    };
    let lit = |at: usize, c: u8| at < b.len() && b[at] == c;
    let (Some(y), Some(mo), Some(d)) = (num(0, 4), num(5, 2), num(8, 2)) else { return Verdict::Invalid };
    if !lit(4, b'-') || !lit(7, b'-') {
        return Verdict::Invalid;
    }
    if b.len() <= 10 {
        return Verdict::Invalid;
    }
    match b[10] {
        b'T' => {}
        b't' => silent = Some("lower-case t"),
        b' ' => silent = Some("space separator"),
        _ => return Verdict::Invalid,
    }
    let (Some(h), Some(mi), Some(sec)) = (num(11, 2), num(14, 2), num(17, 2)) else { return Verdict::Invalid };
    if !lit(13, b':') || !lit(16, b':') {
        return Verdict::Invalid;
    }
    let mut i = 19;
    let mut frac_ms: i64 = 0;
    if lit(i, b'.') {
        let start = i + 1;
        let mut j = start;
        while j < b.len() && b[j].is_ascii_digit() {
            j += 1;
        }
        if j == start {
            return Verdict::Invalid;
        }
        for k in 0..3 {
            frac_ms = frac_ms * 10 + if start + k < j { (b[start + k] - b'0') as i64 } else { 0 };
        }
        i = j;
    }
    if i >= b.len() {
        return Verdict::Invalid; // time-offset is mandatory
    }
    let offset_min: i64 = match b[i] {
        b'Z' | b'z' => {
            if b[i] == b'z' {
                silent = silent.or(Some("lower-case z"));
            }
            if i + 1 != b.len() {
                return Verdict::Invalid;
            }
            0
        }
        b'+' | b'-' => {
            let (Some(oh), Some(om)) = (num(i + 1, 2), num(i + 4, 2)) else { return Verdict::Invalid };
            if !lit(i + 3, b':') || i + 6 != b.len() {
                return Verdict::Invalid;
            }
            if oh > 23 || om > 59 {
                return Verdict::Invalid;
            }
            if b[i] == b'-' && oh == 0 && om == 0 {
                silent = silent.or(Some("-00:00 offset"));
            }
            let v = oh * 60 + om;
            if b[i] == b'-' {
                -v
            } else {
                v
            }
        }
        _ => return Verdict::Invalid,
    };
    if !(1..=12).contains(&mo) || d < 1 || d > days_in_month(y, mo) || h > 23 || mi > 59 || sec > 60 {
        return Verdict::Invalid;
    }
    if sec == 60 {
        silent = silent.or(Some("leap second"));
    }
    if let Some(why) = silent {
        return Verdict::Silent(why);
    }
    let days = days_from_civil(y, mo, d) as i128;
    let local_ms = days * 86_400_000 + (h as i128) * 3_600_000 + (mi as i128) * 60_000 + (sec as i128) * 1000 + frac_ms as i128;
    Verdict::Valid(local_ms - (offset_min as i128) * 60_000)
}

/// `Timestamp::from_str`: "parses a string representing either an u64 of milliseconds or the time
/// according to RFC3339"; "Timestamps from before January 1st 1970 at 00:00 are not supported."
pub fn ref_timestamp(s: &str) -> Verdict<u64> {
    if all_ascii_digits(s) {
        if s.len() > 1 && s.starts_with('0') {
            return Verdict::Silent("leading zeros in integer");
        }
        return match big(s).to_u64() {
            Some(v) => Verdict::Valid(v),
            None => Verdict::Invalid,
        };
    }
    if let Some(rest) = s.strip_prefix('+') {
        if all_ascii_digits(rest) {
            return Verdict::Silent("explicit plus sign on integer");
        }
    }
    match ref_rfc3339(s) {
        Verdict::Valid(ms) if ms < 0 => Verdict::Invalid,
        Verdict::Valid(ms) => match u64::try_from(ms) {
            Ok(v) => Verdict::Valid(v),
            Err(_) => Verdict::Invalid,
        },
        Verdict::Invalid => Verdict::Invalid,
        Verdict::Silent(w) => Verdict::Silent(w),
    }
}

#[derive(Debug, Clone, PartialEq, Eq)]
pub enum DurVerdict {
    Valid(u64),
    Invalid,
    Silent(&'static str),
    /// The measures denote more than u64::MAX ms: outside the claim (DESIGN observation O4), never
    /// handed to the parser.
    OutOfClaim,
}

/// `Duration::from_str`: "a list of duration measures separated by whitespaces. A measure is a number
/// followed by the unit (no whitespace between is allowed). Every measure is accumulated into a
/// duration. ... any number of measures with the same unit in no particular order." Units ms, s, m, h, d.
/// "Negative durations are not allowed."
pub fn ref_duration(s: &str) -> DurVerdict {
    let mut silent: Option<&'static str> = None;
    if s.chars().any(|c| c.is_whitespace() && !matches!(c, ' ' | '\t' | '\n' | '\r')) {
        silent = Some("exotic whitespace");
    }
    let mut total = BigUint::zero();
    let mut invalid = false;
    let mut measures = 0;
    for m in s.split(|c: char| c.is_whitespace()).filter(|m| !m.is_empty()) {
        measures += 1;
        if m.chars().any(|c| !c.is_ascii() && c.is_numeric()) {
            silent = silent.or(Some("non-ASCII digit"));
            continue;
        }
        let mut body = m;
        if let Some(rest) = m.strip_prefix('+') {
            if rest.starts_with(|c: char| c.is_ascii_digit()) {
                silent = silent.or(Some("explicit plus sign"));
                body = rest;
            }
        }
        let nd = body.bytes().take_while(|b| b.is_ascii_digit()).count();
        let (n, unit) = body.split_at(nd);
        if n.is_empty() {
            invalid = true;
            continue;
        }
        if n.len() > 1 && n.starts_with('0') {
            silent = silent.or(Some("leading zeros"));
        }
        let per: u64 = match unit {
            "ms" => 1,
            "s" => 1000,
            "m" => 60_000,
            "h" => 3_600_000,
            "d" => 86_400_000,
            _ => {
                invalid = true;
                // still count the number towards the out-of-claim guard (as milliseconds at least)
                total += big(n);
                continue;
            }
        };
        total += big(n) * BigUint::from(per);
    }
    if total.to_u64().is_none() {
        return DurVerdict::OutOfClaim;
    }
    if invalid {
        return DurVerdict::Invalid;
    }
    if measures == 0 {
        return DurVerdict::Silent("empty list of measures");
    }
    if let Some(w) = silent {
        return DurVerdict::Silent(w);
    }
    DurVerdict::Valid(total.to_u64().unwrap())
}

/// Name characters: "all characters are ascii alphanumeric or punctuation characters", i.e. the
/// printable ASCII characters without the space.
fn name_chars_ok(s: &str) -> bool { s.chars().all(|c| ('\u{21}'..='\u{7e}').contains(&c)) }

/// "the string is no more than MAX_FUNC_NAME_SIZE (100) bytes; starts with `init_`; does not contain
/// a `.`; all characters are ascii alphanumeric or punctuation characters."
pub fn ref_valid_contract_name(s: &str) -> bool { s.len() <= 100 && s.starts_with("init_") && !s.contains('.') && name_chars_ok(s) }

/// "no more than 100 bytes; contains a `.`; all characters are ascii alphanumeric or punctuation."
pub fn ref_valid_receive_name(s: &str) -> bool { s.len() <= 100 && s.contains('.') && name_chars_ok(s) }

/// "the string is less than 100 bytes; all characters are ascii alphanumeric or punctuation."
pub fn ref_valid_entrypoint_name(s: &str) -> bool { s.len() < 100 && name_chars_ok(s) }

// ---- base58check ----------------------------------------------------------------------------

const B58: &[u8; 58] = b"123456789ABCDEFGHJKLMNPQRSTUVWXYZabcdefghijkmnopqrstuvwxyz";

pub fn b58_encode(data: &[u8]) -> String {
    let zeros = data.iter().take_while(|b| **b == 0).count();
    let mut n = BigUint::from_bytes_be(data);
    let mut digits = Vec::new();
    let base = BigUint::from(58u32);
    while !n.is_zero() {
        let r = (&n % &base).to_u32().unwrap();
        digits.push(B58[r as usize]);
        n /= &base;
    }
    let mut out = vec![b'1'; zeros];
    digits.reverse();
    out.extend_from_slice(&digits);
    String::from_utf8(out).unwrap()
}

pub fn b58_decode(s: &str) -> Option<Vec<u8>> {
    let mut n = BigUint::zero();
    let base = BigUint::from(58u32);
    for c in s.bytes() {
        let d = B58.iter().position(|x| *x == c)?;
        n = n * &base + BigUint::from(d as u32);
    }
    let zeros = s.bytes().take_while(|b| *b == b'1').count();
    let mut out = vec![0u8; zeros];
    if !n.is_zero() {
        out.extend_from_slice(&n.to_bytes_be());
    }
    Some(out)
}

pub fn sha256d4(data: &[u8]) -> [u8; 4] {
    let h1 = Sha256::digest(data);
    let h2 = Sha256::digest(h1);
    [h2[0], h2[1], h2[2], h2[3]]
}

pub fn b58check_encode(version: u8, payload: &[u8]) -> String {
    let mut d = vec![version];
    d.extend_from_slice(payload);
    let c = sha256d4(&d);
    d.extend_from_slice(&c);
    b58_encode(&d)
}

/// "Parse from string assuming base58check encoding", version 1 ("A base58 string, version 1."),
/// payload of exactly 32 bytes.
pub fn ref_account_address(s: &str) -> Option<[u8; 32]> {
    let d = b58_decode(s)?;
    if d.len() != 37 || d[0] != 1 {
        return None;
    }
    if sha256d4(&d[..33]) != d[33..37] {
        return None;
    }
    let mut a = [0u8; 32];
    a.copy_from_slice(&d[1..33]);
    Some(a)
}

/// "a string of the format "<index,subindex>" where index and subindex are ContractIndex (u64) and
/// ContractSubIndex (u64)".
pub fn ref_contract_address(s: &str) -> Verdict<(u64, u64)> {
    if s.chars().any(|c| c.is_whitespace()) {
        return Verdict::Silent("whitespace");
    }
    if s.contains('+') {
        return Verdict::Silent("plus sign");
    }
    if s.len() < 2 || !s.starts_with('<') || !s.ends_with('>') {
        return Verdict::Invalid;
    }
    let inner = &s[1..s.len() - 1];
    let Some((a, b)) = inner.split_once(',') else { return Verdict::Invalid };
    if !all_ascii_digits(a) || !all_ascii_digits(b) {
        return Verdict::Invalid;
    }
    let (Some(x), Some(y)) = (big(a).to_u64(), big(b).to_u64()) else { return Verdict::Invalid };
    if (a.len() > 1 && a.starts_with('0')) || (b.len() > 1 && b.starts_with('0')) {
        return Verdict::Silent("leading zeros");
    }
    Verdict::Valid((x, y))
}

// =============================================================================================
// Target: text round trips of generated values (Display / FromStr / serde JSON)
// =============================================================================================

/// First millisecond of year 10000: RFC 3339 cannot express it (4-digit years).
pub const Y10K_MS: u64 = 253_402_300_800_000;

fn json_rt<T: serde::Serialize + serde::de::DeserializeOwned + PartialEq + std::fmt::Debug>(name: &str, v: &T) -> CheckResult {
    let s = serde_json::to_string(v).map_err(|e| Violation::new("json-serialize", format!("{name}: {v:?} fails to serialise: {e}")))?;
    let back: Result<T, _> = serde_json::from_str(&s);
    match &back {
        Ok(b) if b == v => {}
        _ => return Err(Violation::new("json-roundtrip", format!("{name}: {v:?} -> {s} -> {back:?}")).with_signature(format!("json-roundtrip:{name}"))),
    }
    let val = serde_json::to_value(v).map_err(|e| Violation::new("json-serialize", format!("{name}: to_value failed: {e}")))?;
    let back: Result<T, _> = serde_json::from_value(val.clone());
    match &back {
        Ok(b) if b == v => Ok(()),
        _ => Err(Violation::new("json-roundtrip", format!("{name}: {v:?} -> (value) {val} -> {back:?}")).with_signature(format!("json-value-roundtrip:{name}"))),
    }
}

macro_rules! parse_display {
    ($name:expr, $v:expr, $t:ty) => {{
        let s = $v.to_string();
        let back = <$t>::from_str(&s);
        match &back {
            Ok(b) if *b == $v => {}
            _ => return Err(Violation::new("parse-display", format!("{}: {:?} displays as {:?} which parses to {:?}", $name, $v, s, back)).with_signature(format!("parse-display:{}", $name))),
        }
        s
    }};
}

pub fn t_text_roundtrip(data: &[u8], ctx: &mut Ctx) -> CheckResult {
    let mut u = Unstructured::new(data);
    let u = &mut u;
    match gen::byte(u) % 20 {
        0 | 1 => {
            ctx.class("type:Amount");
            let v = cc::Amount::gen(u);
            ctx.describe(|| format!("Amount {} displays as {:?}", v.micro_ccd(), v.to_string()));
            let s = parse_display!("Amount", v, cc::Amount);
            // the printed form is inside the documented grammar and denotes the value
            vensure!(ref_amount(&s) == Verdict::Valid(v.micro_ccd()), "display-grammar", "Amount {v:?} displays as {s:?}, which the documented grammar reads as {:?}", ref_amount(&s));
            json_rt("Amount", &v)?;
            ctx.sample(|| format!("Amount {} -> {s:?} / json {}", v.micro_ccd(), serde_json::to_string(&v).unwrap()));
            if v.micro_ccd() % 1_000_000 != 0 && (v.micro_ccd() % 10 != 0 || v.nt()) {
                ctx.class("nontrivial");
                ctx.nontrivial(&("amount", v.micro_ccd()));
            }
        }
        2 | 3 | 4 => {
            ctx.class("type:Timestamp");
            let ms = match gen::byte(u) % 8 {
                0 => *gen::choose(u, &[0, 1, 999, 1000, 86_399_999, 86_400_000, 951_782_400_000, 4_102_444_800_000, Y10K_MS - 1, Y10K_MS, Y10K_MS + 1, 8_210_266_876_799_999, 8_210_266_876_800_000, i64::MAX as u64, 1 << 63, 18_438_409_472_480_751_615, 18_438_409_472_480_751_616, u64::MAX - 1, u64::MAX]),
                1 | 2 | 3 => gen::range_u64(u, 0, Y10K_MS - 1),
                4 => {
                    // around year / month / day boundaries
                    let y = gen::range_u64(u, 1970, 9999) as i64;
                    let m = gen::range_u64(u, 1, 12) as i64;
                    let base = days_from_civil(y, m, 1) as u64 * 86_400_000;
                    base.wrapping_add(*gen::choose(u, &[0u64, 1, 999, u64::MAX, u64::MAX - 999])).min(Y10K_MS - 1)
                }
                _ => u64::gen(u),
            };
            let v = cc::Timestamp::from_timestamp_millis(ms);
            let s = v.to_string();
            ctx.sample(|| format!("Timestamp {ms} -> {s:?}"));
            ctx.describe(|| format!("Timestamp {ms} displays as {s:?}, which parses to {:?}", cc::Timestamp::from_str(&s)));
            let back = cc::Timestamp::from_str(&s);
            if back != Ok(v) {
                // beyond year 9999 / i64::MAX ms this is the defect fixed in /repo by b3b30c04b (known finding
                // `timestamp-display-not-reparsable`); the doc says Display falls back to the plain number there
                let sig = if ms >= Y10K_MS { "timestamp-display-not-reparsable" } else { "parse-display:Timestamp" };
                return Err(Violation::new("parse-display", format!("Timestamp {ms} displays as {s:?} which parses to {back:?}")).with_signature(sig));
            }
            if ms >= Y10K_MS {
                ctx.class("timestamp-beyond-rfc3339");
                // "If parsing the timestamp into a chrono::DateTime<Utc> fails, it simply returns the timestamp in milliseconds as a string."
                // RFC 3339 has four-digit years, so from year 10000 on only the number can denote the value.
                vensure!(s == ms.to_string(), "display-grammar", "Timestamp {ms} (beyond year 9999) displays as {s:?}, neither RFC 3339 nor the plain number");
            }
            if ms < Y10K_MS {
                // "attempts to format the timestamp as per the RFC3339 standard, using the UTC time zone"
                vensure!(ref_rfc3339(&s) == Verdict::Valid(ms as i128), "display-grammar", "Timestamp {ms} displays as {s:?}, which RFC 3339 reads as {:?}", ref_rfc3339(&s));
            }
            json_rt("Timestamp", &v)?;
            let cm = cc::ChainMetadata { slot_time: v };
            let js = serde_json::to_string(&cm).map_err(|e| Violation::new("json-serialize", format!("ChainMetadata: {e}")))?;
            let back = serde_json::from_str::<cc::ChainMetadata>(&js);
            vensure!(matches!(&back, Ok(b) if b.slot_time == v), "json-roundtrip", "ChainMetadata {cm:?} -> {js} -> {back:?}");
            if ms % 1000 != 0 || ms >= Y10K_MS {
                ctx.class("nontrivial");
                ctx.nontrivial(&("ts", ms));
            }
        }
        5 | 6 => {
            ctx.class("type:Duration");
            let v = cc::Duration::gen(u);
            ctx.describe(|| format!("Duration {} displays as {:?}", v.millis(), v.to_string()));
            let s = parse_display!("Duration", v, cc::Duration);
            vensure!(ref_duration(&s) == DurVerdict::Valid(v.millis()), "display-grammar", "Duration {} displays as {s:?}, which the documented grammar reads as {:?}", v.millis(), ref_duration(&s));
            json_rt("Duration", &v)?;
            ctx.sample(|| format!("Duration {} -> {s:?}", v.millis()));
            if v.millis() >= 86_400_000 && v.millis() % 1000 != 0 {
                ctx.class("nontrivial");
                ctx.nontrivial(&("dur", v.millis()));
            }
        }
        7 | 8 => {
            ctx.class("type:AccountAddress");
            let v = cc::AccountAddress::gen(u);
            let s = parse_display!("AccountAddress", v, cc::AccountAddress);
            let want = b58check_encode(1, &v.0);
            vensure!(s == want, "display-grammar", "AccountAddress {} displays as {s:?}; base58check(version 1) is {want:?}", gen::hex(&v.0));
            json_rt("AccountAddress", &v)?;
            let a = cc::Address::Account(v);
            let s2 = parse_display!("Address", a, cc::Address);
            vensure!(s2 == s, "display-grammar", "Address::Account displays as {s2:?}, the account as {s:?}");
            json_rt("Address", &a)?;
            ctx.sample(|| format!("AccountAddress {} -> {s:?}", gen::hex(&v.0)));
            ctx.class("nontrivial");
            ctx.nontrivial(&("acc", v.0));
        }
        9 | 10 => {
            ctx.class("type:ContractAddress");
            let v = cc::ContractAddress::gen(u);
            let s = parse_display!("ContractAddress", v, cc::ContractAddress);
            vensure!(ref_contract_address(&s) == Verdict::Valid((v.index, v.subindex)), "display-grammar", "ContractAddress {v:?} displays as {s:?}");
            json_rt("ContractAddress", &v)?;
            let a = cc::Address::Contract(v);
            let s2 = parse_display!("Address", a, cc::Address);
            vensure!(s2 == s, "display-grammar", "Address::Contract displays as {s2:?}, the contract as {s:?}");
            json_rt("Address", &a)?;
            ctx.sample(|| format!("ContractAddress {v:?} -> {s:?} / json {}", serde_json::to_string(&a).unwrap()));
            if v.nt() {
                ctx.class("nontrivial");
                ctx.nontrivial(&("ca", v.index, v.subindex));
            }
        }
        11 | 12 | 13 => {
            ctx.class("type:names");
            let cn = val::gen_contract_name_string(u);
            let ep = val::gen_entrypoint_name_string(u, 99);
            let rn = val::gen_receive_name_string(u);
            // valid by the documented rules, hence accepted, and printing gives the string back
            let c = cc::OwnedContractName::new(cn.clone());
            vensure!(matches!(&c, Ok(c) if c.to_string() == cn && *c == cn.as_str()), "name-accept", "contract name {cn:?} (len {}): {c:?}", cn.len());
            let c = c.unwrap();
            let c2 = cc::OwnedContractName::new(c.to_string());
            vensure!(c2.as_ref() == Ok(&c), "parse-display", "contract name {cn:?} does not survive to_string/new");
            vensure!(c.as_contract_name().contract_name() == &cn[5..] && c.as_contract_name().get_chain_name() == cn, "name-parts", "contract_name()/get_chain_name() of {cn:?}");
            let e = cc::OwnedEntrypointName::new(ep.clone());
            vensure!(matches!(&e, Ok(e) if e.to_string() == ep), "name-accept", "entrypoint name {ep:?} (len {}): {e:?}", ep.len());
            let e = e.unwrap();
            vensure!(cc::OwnedEntrypointName::new(e.to_string()).as_ref() == Ok(&e), "parse-display", "entrypoint name {ep:?} does not survive to_string/new");
            let r = cc::OwnedReceiveName::from_str(&rn);
            vensure!(matches!(&r, Ok(r) if r.to_string() == rn), "name-accept", "receive name {rn:?} (len {}): {r:?}", rn.len());
            let r = r.unwrap();
            vensure!(cc::OwnedReceiveName::from_str(&r.to_string()).as_ref() == Ok(&r), "parse-display", "receive name {rn:?} does not survive to_string/from_str");
            // parts: "Extract the contract name by splitting at the first dot." / "entrypoint name by splitting at the first dot"
            let dot = rn.find('.').unwrap();
            let rr = r.as_receive_name();
            vensure!(rr.contract_name() == &rn[..dot] && rr.entrypoint_name().to_string() == rn[dot + 1..], "name-parts", "parts of receive name {rn:?}: {:?} / {:?}", rr.contract_name(), rr.entrypoint_name().to_string());
            // the entrypoint part of a valid receive name is a valid entrypoint name
            vensure!(cc::EntrypointName::new(&rn[dot + 1..]).is_ok() && ref_valid_entrypoint_name(&rn[dot + 1..]), "name-consistency", "entrypoint part of valid receive name {rn:?} is not a valid entrypoint name");
            // construct: `contract.entrypoint` is a valid receive name whenever both parts are valid and the total fits
            let total = (cn.len() - 5) + 1 + ep.len();
            let built = cc::OwnedReceiveName::construct(c.as_contract_name(), e.as_entrypoint_name());
            let want = format!("{}.{}", &cn[5..], ep);
            if total <= 100 {
                vensure!(matches!(&built, Ok(b) if b.to_string() == want), "name-construct", "construct({cn:?}, {ep:?}) (total {total}) gives {built:?}");
            } else {
                vensure!(built.is_err(), "name-construct", "construct({cn:?}, {ep:?}) of total length {total} > 100 accepted: {built:?}");
            }
            vensure!(cc::OwnedReceiveName::construct_unchecked(c.as_contract_name(), e.as_entrypoint_name()).to_string() == want, "name-construct", "construct_unchecked({cn:?}, {ep:?})");
            json_rt("OwnedContractName", &c)?;
            json_rt("OwnedEntrypointName", &e)?;
            json_rt("OwnedReceiveName", &r)?;
            ctx.sample(|| format!("names {cn:?} {ep:?} {rn:?}"));
            if cn.len() >= 99 || ep.len() >= 98 || rn.len() >= 99 || (99..=102).contains(&total) {
                ctx.class("nontrivial");
                ctx.nontrivial(&(&cn, &ep, &rn));
            }
        }
        14 => {
            ctx.class("type:hex-types");
            let h = <cc::hashes::Hash as Val>::gen(u);
            let s = parse_display!("HashBytes", h, cc::hashes::Hash);
            vensure!(s == gen::hex(&h.bytes), "display-grammar", "HashBytes displays as {s:?}");
            json_rt("HashBytes", &h)?;
            let pk = cc::PublicKeyEd25519::gen(u);
            let s = parse_display!("PublicKeyEd25519", pk, cc::PublicKeyEd25519);
            vensure!(s == gen::hex(&pk.0), "display-grammar", "PublicKeyEd25519 displays as {s:?}");
            json_rt("PublicKeyEd25519", &pk)?;
            let pk2 = cc::PublicKeyEcdsaSecp256k1::gen(u);
            let s = parse_display!("PublicKeyEcdsaSecp256k1", pk2, cc::PublicKeyEcdsaSecp256k1);
            vensure!(s == gen::hex(&pk2.0), "display-grammar", "PublicKeyEcdsaSecp256k1 displays as {s:?}");
            let sg = cc::SignatureEd25519::gen(u);
            let s = parse_display!("SignatureEd25519", sg, cc::SignatureEd25519);
            vensure!(s == gen::hex(&sg.0), "display-grammar", "SignatureEd25519 displays as {s:?}");
            json_rt("SignatureEd25519", &sg)?;
            let sg2 = cc::SignatureEcdsaSecp256k1::gen(u);
            let _ = parse_display!("SignatureEcdsaSecp256k1", sg2, cc::SignatureEcdsaSecp256k1);
            json_rt("SignatureEcdsaSecp256k1", &sg2)?;
            ctx.class("nontrivial");
            ctx.nontrivial(&("hex", h.bytes, pk.0));
        }
        15 => {
            ctx.class("type:signatures-json");
            let a = cc::AccountSignatures::gen(u);
            json_rt("AccountSignatures", &a)?;
            let c = cc::CredentialSignatures::gen(u);
            json_rt("CredentialSignatures", &c)?;
            let s = cc::Signature::gen(u);
            json_rt("Signature", &s)?;
            let t = cc::AccountThreshold::gen(u);
            json_rt("NonZeroThresholdU8", &t)?;
            // try_from = "u8": zero is refused
            vensure!(serde_json::from_str::<cc::AccountThreshold>("0").is_err(), "threshold-zero", "JSON 0 accepted as threshold");
            ctx.sample(|| format!("AccountSignatures json {}", serde_json::to_string(&a).unwrap()));
            if a.nt() {
                ctx.class("nontrivial");
                ctx.nontrivial(&cc::to_bytes(&a));
            }
        }
        16 => {
            ctx.class("type:OwnedParameter/WasmVersion");
            let p = cc::OwnedParameter::new_unchecked(gen::short_bytes(u, 80));
            json_rt("OwnedParameter", &p)?;
            vensure!(p.to_string() == gen::hex(p.as_ref()) && format!("{p:?}") == gen::hex(p.as_ref()), "display-grammar", "OwnedParameter displays as {}", p);
            for w in [cc::WasmVersion::V0, cc::WasmVersion::V1] {
                let _ = parse_display!("WasmVersion", w, cc::WasmVersion);
                json_rt("WasmVersion", &w)?;
            }
            if p.as_ref().len() >= 2 {
                ctx.class("nontrivial");
                ctx.nontrivial(p.as_ref());
            }
        }
        _ => {
            ctx.class("type:ExchangeRate-json");
            // reduced fractions only: the type's documented invariant ("they have to be in reduced form")
            let (n, d) = gen_reduced(u);
            let er = cc::ExchangeRate::new(n, d);
            vensure!(er.is_some(), "exchange-rate-new", "ExchangeRate::new({n}, {d}) refused a reduced non-zero fraction");
            let er = er.unwrap();
            json_rt("ExchangeRate", &er)?;
            ctx.sample(|| format!("ExchangeRate {n}/{d} json {}", serde_json::to_string(&er).unwrap()));
            if n.nt() || d.nt() {
                ctx.class("nontrivial");
                ctx.nontrivial(&(n, d));
            }
        }
    }
    Ok(())
}

pub fn gcd(mut a: u64, mut b: u64) -> u64 {
    while b != 0 {
        let t = a % b;
        a = b;
        b = t;
    }
    a
}

pub fn gen_reduced(u: &mut Unstructured) -> (u64, u64) {
    let n = val::gen_nonzero_u64(u);
    let d = val::gen_nonzero_u64(u);
    let g = gcd(n, d);
    (n / g, d / g)
}

// =============================================================================================
// Target: amount grammar
// =============================================================================================

fn digits_v(u: &mut Unstructured, base: usize, spread: usize, first_nonzero: bool) -> String {
    let n = base + gen::idx(u, spread);
    digits(u, n, first_nonzero)
}

fn digits(u: &mut Unstructured, n: usize, first_nonzero: bool) -> String {
    let mut s = String::new();
    for i in 0..n {
        let d = match gen::byte(u) % 4 {
            0 => 0,
            1 => 9,
            _ => gen::byte(u) % 10,
        };
        let d = if i == 0 && first_nonzero && d == 0 { 1 } else { d };
        s.push((b'0' + d) as char);
    }
    s
}

pub fn t_amount_grammar(data: &[u8], ctx: &mut Ctx) -> CheckResult {
    let mut u = Unstructured::new(data);
    let u = &mut u;
    // integer part
    let int_part: String = match gen::byte(u) % 12 {
        0 => "0".into(),
        1 => String::new(),
        2 => "00".into(),
        3 => format!("0{}", digits_v(u, 1, 3, false)),
        4 => pick_str(u, &["18446744073709", "18446744073710", "18446744073708", "1844674407370", "184467440737095", "18446744073709551615", "18446744073709551616", "99999999999999", "10000000000000"]).to_string(),
        5 => digits_v(u, 13, 3, true),
        _ => digits_v(u, 1, 12, true),
    };
    // fraction
    let frac: Option<String> = match gen::byte(u) % 12 {
        0 | 1 => None,
        2 => Some(String::new()),
        3 => Some(pick_str(u, &["551615", "551616", "551614", "55161", "5516150", "999999", "000000", "000001", "0000001", "0000000"]).to_string()),
        4 => Some(digits_v(u, 7, 2, false)),
        5 => Some(digits(u, 6, false)),
        _ => Some(digits_v(u, 1, 6, false)),
    };
    let mut s = int_part.clone();
    if let Some(f) = &frac {
        s.push('.');
        s.push_str(f);
    }
    // decoration
    let deco = gen::byte(u) % 24;
    match deco {
        0 => s.insert(0, '+'),
        1 => s.insert(0, '-'),
        2 => s.insert(0, ' '),
        3 => s.push(' '),
        4 => s.push_str("e3"),
        5 => s.push('.'),
        6 => s.push_str(".1"),
        7 => {
            if !s.is_empty() {
                let i = gen::idx(u, s.len());
                s.insert(i, *gen::choose(u, &['_', ',', ' ', 'x', '\u{0663}', '\u{ff11}', '-', '\t', '\0']));
            }
        }
        8 => {
            // replace one digit by a non-ASCII digit
            if let Some(i) = s.bytes().position(|b| b.is_ascii_digit()) {
                s.replace_range(i..i + 1, pick_str(u, &["\u{0663}", "\u{ff11}", "\u{0967}"]));
            }
        }
        9 => s = s.replace('.', ","),
        _ => {}
    }
    let verdict = ref_amount(&s);
    let got = cc::Amount::from_str(&s);
    ctx.sample(|| format!("{s:?}: documented {verdict:?}, parsed {got:?}"));
    ctx.describe(|| format!("candidate {s:?}: documented grammar {verdict:?}, Amount::from_str {got:?}"));
    let boundary = frac.as_ref().map(|f| f.len() >= 6).unwrap_or(false) || int_part.len() >= 13 || int_part.starts_with('0');
    match &verdict {
        Verdict::Valid(v) => {
            ctx.class("documented-valid");
            if got != Ok(cc::Amount::from_micro_ccd(*v)) {
                return Err(Violation::new("grammar-accept", format!("{s:?} is valid by the documented grammar (= {v} microCCD) but from_str gives {got:?}")).with_signature("grammar-accept:Amount"));
            }
        }
        Verdict::Invalid => {
            ctx.class("documented-invalid");
            if let Ok(a) = got {
                return Err(Violation::new("grammar-reject", format!("{s:?} is outside the documented grammar but from_str accepts it as {a:?}")).with_signature("grammar-reject:Amount"));
            }
        }
        Verdict::Silent(w) => {
            ctx.class(&format!("silent:{w}:{}", if got.is_ok() { "accepted" } else { "rejected" }));
        }
    }
    // serde form: "a string containing the amount in microCCD" (u64 decimal)
    if boundary {
        ctx.class("nontrivial");
        ctx.nontrivial(&s);
    }
    Ok(())
}

// =============================================================================================
// Target: timestamp and duration grammar
// =============================================================================================

fn two(n: u64) -> String { format!("{:02}", n) }

fn gen_rfc3339_candidate(u: &mut Unstructured) -> (String, &'static str) {
    let year = match gen::byte(u) % 8 {
        0 => *gen::choose(u, &[0u64, 1, 1969, 1970, 1971, 1972, 1999, 2000, 2038, 2100, 2400, 9999]),
        1 => gen::range_u64(u, 0, 9999),
        _ => gen::range_u64(u, 1969, 2200),
    };
    let month = match gen::byte(u) % 8 {
        0 => 1,
        1 => 12,
        2 => 2,
        _ => gen::range_u64(u, 1, 12),
    };
    let dim = days_in_month(year as i64, month as i64) as u64;
    let day = match gen::byte(u) % 8 {
        0 => 1,
        1 | 2 => dim,
        _ => gen::range_u64(u, 1, dim),
    };
    let pick = |u: &mut Unstructured, max: u64| match gen::byte(u) % 4 {
        0 => 0,
        1 => max,
        _ => gen::range_u64(u, 0, max),
    };
    let (h, mi, s) = (pick(u, 23), pick(u, 59), pick(u, 59));
    let frac = match gen::byte(u) % 6 {
        0 | 1 => String::new(),
        2 => format!(".{}", pick_str(u, &["0", "9", "999", "001", "9999", "0009", "999999999", "1234567890123", "000000000000001"])),
        _ => format!(".{}", digits_v(u, 1, 9, false)),
    };
    let off = match gen::byte(u) % 8 {
        0 | 1 | 2 => "Z".to_string(),
        3 => "+00:00".to_string(),
        4 => format!("{}{}:{}", pick_str(u, &["+", "-"]), two(pick(u, 23)), two(pick(u, 59))),
        5 => pick_str(u, &["+23:59", "-23:59", "+01:00", "-01:00", "+00:01", "-00:01", "+14:00", "-12:00"]).to_string(),
        _ => format!("{}{}:{}", pick_str(u, &["+", "-"]), two(gen::range_u64(u, 0, 2)), two(*gen::choose(u, &[0u64, 30, 45]))),
    };
    let mut parts = [format!("{:04}", year), two(month), two(day), two(h), two(mi), two(s)];
    let mut sep = "T";
    let mut tail = off.clone();
    let mut frac = frac;
    let how: &'static str = match gen::byte(u) % 32 {
        0 => {
            parts[1] = pick_str(u, &["00", "13", "99"]).to_string();
            "bad-month"
        }
        1 => {
            parts[2] = match gen::byte(u) % 3 {
                0 => "00".into(),
                1 => two(dim + 1),
                _ => "32".into(),
            };
            "bad-day"
        }
        2 => {
            parts[3] = pick_str(u, &["24", "25", "99"]).to_string();
            "bad-hour"
        }
        3 => {
            parts[4] = pick_str(u, &["60", "61", "99"]).to_string();
            "bad-minute"
        }
        4 => {
            parts[5] = pick_str(u, &["61", "62", "99"]).to_string();
            "bad-second"
        }
        5 => {
            parts[5] = "60".into();
            "leap-second"
        }
        6 => {
            tail = String::new();
            "no-offset"
        }
        7 => {
            tail = pick_str(u, &["+24:00", "-24:00", "+00:60", "-23:60", "+99:99"]).to_string();
            "bad-offset"
        }
        8 => {
            tail = pick_str(u, &["+0100", "+01", "+1:00", "+01:0", "+01:000", "UTC", "GMT", " Z", "ZZ", "+01:00:00"]).to_string();
            "malformed-offset"
        }
        9 => {
            sep = pick_str(u, &["t", " "]);
            "lenient-separator"
        }
        10 => {
            sep = pick_str(u, &["", "_", "-", ":", "TT", "  ", "\t"]);
            "bad-separator"
        }
        11 => {
            tail = tail.replace('Z', "z");
            "lower-z"
        }
        12 => {
            frac = pick_str(u, &[".", ",5", ". 5", ".-5", ".5.5"]).to_string();
            "bad-fraction"
        }
        13 => {
            let i = gen::idx(u, 6);
            parts[i] = parts[i][1..].to_string();
            "short-field"
        }
        14 => {
            tail = "-00:00".into();
            "minus-zero-offset"
        }
        15 => {
            // February 29 on a (possibly) non-leap year
            parts[1] = "02".into();
            parts[2] = "29".into();
            "feb-29"
        }
        _ => "well-formed",
    };
    let mut s = format!("{}-{}-{}{}{}:{}:{}{}{}", parts[0], parts[1], parts[2], sep, parts[3], parts[4], parts[5], frac, tail);
    let how = match (how, gen::byte(u) % 24) {
        ("well-formed", 0) => {
            s.push(*gen::choose(u, &[' ', '\n', 'Z', '0', 'x']));
            "trailing-garbage"
        }
        ("well-formed", 1) => {
            s.insert(0, *gen::choose(u, &[' ', '+', '-', 'x', '0']));
            "leading-garbage"
        }
        ("well-formed", 2) => {
            s = s.replacen('-', pick_str(u, &["/", ".", ":", ""]), 1);
            "bad-date-separator"
        }
        ("well-formed", 3) => {
            s = s.replacen(':', pick_str(u, &[".", "-", ""]), 1);
            "bad-time-separator"
        }
        ("well-formed", 4) => {
            let i = s.bytes().position(|b| b.is_ascii_digit()).unwrap();
            s.replace_range(i..i + 1, pick_str(u, &["\u{0661}", "a", "\u{ff11}"]));
            "non-digit"
        }
        (h, _) => h,
    };
    (s, how)
}

fn gen_duration_candidate(u: &mut Unstructured) -> (String, &'static str) {
    const UNITS: [(&str, u64); 5] = [("ms", 1), ("s", 1000), ("m", 60_000), ("h", 3_600_000), ("d", 86_400_000)];
    let n = match gen::byte(u) % 8 {
        0 => 0,
        1 | 2 => 1,
        _ => gen::range_usize(u, 1, 7),
    };
    // budget keeps the total inside u64 (observation O4): every measure is drawn from what is left
    let mut left: u64 = u64::MAX;
    let mut measures: Vec<String> = Vec::new();
    for _ in 0..n {
        let (name, per) = UNITS[gen::idx(u, 5)];
        let max_n = left / per;
        let k = match gen::byte(u) % 8 {
            0 => 0,
            1 => max_n,
            2 => max_n.saturating_sub(1),
            3 => max_n / 2,
            4 => gen::range_u64(u, 0, max_n),
            _ => gen::range_u64(u, 0, max_n.min(1000)),
        };
        left -= k * per;
        measures.push(format!("{k}{name}"));
    }
    let mut how: &'static str = "well-formed";
    if !measures.is_empty() {
        let i = gen::idx(u, measures.len());
        match gen::byte(u) % 24 {
            0 => {
                let nd = measures[i].bytes().take_while(|b| b.is_ascii_digit()).count();
                if gen::boolean(u) {
                    measures[i].replace_range(nd.., pick_str(u, &["S", "M", "H", "D", "MS", "Ms", "mS", "sec", "secs", "min", "mins", "hr", "hrs", "hour", "hours", "day", "days", "msec", "millis", "w", "y", "us", "ns", "mss", "sm", "", "µs", "ms ", "s.", "m/s"]));
                } else {
                    // one to three letters from the unit alphabet: the reference grammar decides (it may be a real unit)
                    let k = 1 + gen::idx(u, 3);
                    let unit: String = (0..k).map(|_| *gen::choose(u, &['m', 's', 'h', 'd', 'i', 'n', 'e', 'c', 'r', 'w', 'y', 'a', 'o', 'u'])).collect();
                    measures[i].replace_range(nd.., &unit);
                }
                how = "bad-unit";
            }
            1 => {
                measures[i].insert(0, '-');
                how = "negative";
            }
            2 => {
                measures[i].insert(0, '+');
                how = "plus";
            }
            3 => {
                let nd = measures[i].bytes().take_while(|b| b.is_ascii_digit()).count();
                measures[i].insert(nd, ' ');
                how = "space-before-unit";
            }
            4 => {
                let nd = measures[i].bytes().take_while(|b| b.is_ascii_digit()).count();
                measures[i].replace_range(..nd, "");
                how = "no-number";
            }
            5 => {
                measures[i].insert_str(0, pick_str(u, &["0", "00", "000"]));
                how = "leading-zeros";
            }
            6 => {
                let nd = measures[i].bytes().take_while(|b| b.is_ascii_digit()).count();
                measures[i].insert_str(nd, pick_str(u, &[".5", ",5", "e3", "_0"]));
                how = "decimal";
            }
            7 => {
                if measures.len() >= 2 {
                    // glue two measures without whitespace
                    let a = measures.remove(i);
                    let j = i.min(measures.len() - 1);
                    measures[j] = format!("{a}{}", measures[j]);
                    how = "glued";
                }
            }
            8 => {
                measures[i] = pick_str(u, &["\u{0663}s", "1\u{0663}s", "١ms"]).to_string();
                how = "non-ascii-digit";
            }
            _ => {}
        }
    }
    let seps: &[&str] = if gen::ratio(u, 1, 16) { &["\u{a0}", "\u{2003}", "\u{3000}"] } else { &[" ", " ", " ", "  ", "\t", "\n", " \r\n"] };
    let mut s = String::new();
    if gen::ratio(u, 1, 8) {
        s.push_str(pick_str(u, seps));
    }
    for (i, m) in measures.iter().enumerate() {
        if i > 0 {
            s.push_str(pick_str(u, seps));
        }
        s.push_str(m);
    }
    if gen::ratio(u, 1, 8) {
        s.push_str(pick_str(u, seps));
    }
    (s, how)
}

pub fn t_time_grammar(data: &[u8], ctx: &mut Ctx) -> CheckResult {
    let mut u = Unstructured::new(data);
    let u = &mut u;
    if gen::ratio(u, 3, 5) {
        // ---- timestamps
        let (s, how) = if gen::ratio(u, 1, 6) {
            // integer form
            let s = match gen::byte(u) % 8 {
                0 => pick_str(u, &["0", "1", "18446744073709551615", "18446744073709551616", "18446744073709551614", "9223372036854775808", "99999999999999999999", "253402300800000"]).to_string(),
                1 => format!("+{}", gen::boundary_u64(u)),
                2 => format!("0{}", gen::boundary_u64(u)),
                3 => format!("-{}", gen::boundary_u64(u)),
                4 => format!(" {}", gen::boundary_u64(u)),
                5 => format!("{}.0", gen::boundary_u64(u)),
                _ => gen::boundary_u64(u).to_string(),
            };
            (s, "integer")
        } else {
            gen_rfc3339_candidate(u)
        };
        let verdict = ref_timestamp(&s);
        let got = cc::Timestamp::from_str(&s);
        ctx.class(&format!("ts:{how}"));
        ctx.sample(|| format!("timestamp {s:?} ({how}): documented {verdict:?}, parsed {got:?}"));
        ctx.describe(|| format!("timestamp candidate {s:?} ({how}): documented {verdict:?}, Timestamp::from_str {got:?}"));
        match &verdict {
            Verdict::Valid(v) => {
                ctx.class("documented-valid");
                if got.as_ref().ok() != Some(&cc::Timestamp::from_timestamp_millis(*v)) {
                    return Err(Violation::new("grammar-accept", format!("timestamp {s:?} denotes {v} ms by RFC 3339 / u64 but from_str gives {got:?}")).with_signature("grammar-accept:Timestamp"));
                }
                // the JSON form goes through the same parser
                let j: Result<cc::Timestamp, _> = serde_json::from_value(serde_json::Value::String(s.clone()));
                vensure!(j.as_ref().ok() == Some(&cc::Timestamp::from_timestamp_millis(*v)), "grammar-accept-json", "timestamp JSON string {s:?}: {j:?}");
            }
            Verdict::Invalid => {
                ctx.class("documented-invalid");
                if let Ok(t) = got {
                    return Err(Violation::new("grammar-reject", format!("timestamp {s:?} ({how}) is neither a u64 nor RFC 3339 (or lies before 1970) but from_str accepts it as {t:?}")).with_signature(format!("grammar-reject:Timestamp:{how}")));
                }
            }
            Verdict::Silent(w) => ctx.class(&format!("silent:{w}:{}", if got.is_ok() { "accepted" } else { "rejected" })),
        }
        if how != "well-formed" || matches!(verdict, Verdict::Invalid) || s.contains('.') {
            ctx.class("nontrivial");
            ctx.nontrivial(&s);
        }
    } else {
        // ---- durations
        let (s, how) = gen_duration_candidate(u);
        let verdict = ref_duration(&s);
        ctx.class(&format!("dur:{how}"));
        if verdict == DurVerdict::OutOfClaim {
            // never reached by construction unless a mutation glued digits together; not handed to the parser
            ctx.class("out-of-claim-O4-skipped");
            return Ok(());
        }
        let got = cc::Duration::from_str(&s);
        ctx.sample(|| format!("duration {s:?} ({how}): documented {verdict:?}, parsed {got:?}"));
        ctx.describe(|| format!("duration candidate {s:?} ({how}): documented {verdict:?}, Duration::from_str {got:?}"));
        match &verdict {
            DurVerdict::Valid(v) => {
                ctx.class("documented-valid");
                if got != Ok(cc::Duration::from_millis(*v)) {
                    return Err(Violation::new("grammar-accept", format!("duration {s:?} denotes {v} ms but from_str gives {got:?}")).with_signature("grammar-accept:Duration"));
                }
                let j: Result<cc::Duration, _> = serde_json::from_value(serde_json::Value::String(s.clone()));
                vensure!(j.as_ref().ok() == Some(&cc::Duration::from_millis(*v)), "grammar-accept-json", "duration JSON string {s:?}: {j:?}");
            }
            DurVerdict::Invalid => {
                ctx.class("documented-invalid");
                if let Ok(d) = got {
                    return Err(Violation::new("grammar-reject", format!("duration {s:?} ({how}) is outside the documented grammar but from_str accepts it as {d:?}")).with_signature(format!("grammar-reject:Duration:{how}")));
                }
            }
            DurVerdict::Silent(w) => ctx.class(&format!("silent:{w}:{}", if got.is_ok() { "accepted" } else { "rejected" })),
            DurVerdict::OutOfClaim => unreachable!(),
        }
        let near_max = matches!(verdict, DurVerdict::Valid(v) if v > u64::MAX / 2);
        if how != "well-formed" || near_max || s.split_whitespace().count() >= 3 {
            ctx.class("nontrivial");
            ctx.nontrivial(&s);
        }
    }
    Ok(())
}

// =============================================================================================
// Target: address grammar (account base58check, contract "<index,subindex>", Address)
// =============================================================================================

pub fn t_addr_grammar(data: &[u8], ctx: &mut Ctx) -> CheckResult {
    let mut u = Unstructured::new(data);
    let u = &mut u;
    let (s, how): (String, &'static str) = if gen::boolean(u) {
        // ---- account addresses
        let payload = val::gen_bytes_n::<32>(u);
        let mut how = "valid";
        let mut s = b58check_encode(1, &payload);
        match gen::byte(u) % 16 {
            0 | 1 | 2 => {
                // one character replaced by another alphabet character
                let i = gen::idx(u, s.len());
                let c = B58[gen::idx(u, 58)] as char;
                s.replace_range(i..i + 1, &c.to_string());
                how = "one-char-changed";
            }
            3 => {
                let i = gen::idx(u, s.len());
                s.replace_range(i..i + 1, pick_str(u, &["0", "O", "I", "l", " ", "-", "+", "é"]));
                how = "non-alphabet-char";
            }
            4 => {
                let i = gen::idx(u, s.len());
                s.remove(i);
                how = "char-deleted";
            }
            5 => {
                let i = gen::idx(u, s.len() + 1);
                s.insert(i, B58[gen::idx(u, 58)] as char);
                how = "char-inserted";
            }
            6 => {
                s = b58check_encode(*gen::choose(u, &[0u8, 2, 3, 255]), &payload);
                how = "other-version";
            }
            7 => {
                let n = *gen::choose(u, &[0usize, 1, 20, 31, 33, 64]);
                s = b58check_encode(1, &gen::bytes(u, n));
                how = "other-payload-length";
            }
            8 => {
                let mut d = vec![1u8];
                d.extend_from_slice(&payload);
                let mut c = sha256d4(&d);
                c[gen::idx(u, 4)] ^= 1 << (gen::byte(u) % 8);
                d.extend_from_slice(&c);
                s = b58_encode(&d);
                how = "checksum-bit-flipped";
            }
            9 => {
                s.insert(0, '1');
                how = "extra-leading-1";
            }
            10 => {
                s = match gen::byte(u) % 4 {
                    0 => String::new(),
                    1 => " ".into(),
                    2 => format!(" {s}"),
                    _ => format!("{s} "),
                };
                how = "empty-or-space";
            }
            11 => {
                // two adjacent characters swapped
                let i = gen::idx(u, s.len() - 1);
                let mut b = s.into_bytes();
                b.swap(i, i + 1);
                s = String::from_utf8(b).unwrap();
                how = "swap-neighbours";
            }
            _ => {}
        }
        let want = ref_account_address(&s);
        let got = cc::AccountAddress::from_str(&s).ok().map(|a| a.0);
        ctx.class(&format!("account:{how}"));
        ctx.class(if want.is_some() { "documented-valid" } else { "documented-invalid" });
        ctx.describe(|| format!("account address candidate {s:?} ({how}): base58check v1 decodes to {:?}, from_str {:?}", want.map(|w| gen::hex(&w)), got.map(|w| gen::hex(&w))));
        ctx.sample(|| format!("account {s:?} ({how}): base58check(v1,32) -> {:?}, from_str -> {:?}", want.map(|w| gen::hex(&w)), got.map(|w| gen::hex(&w))));
        if got != want {
            return Err(Violation::new(if want.is_some() { "grammar-accept" } else { "grammar-reject" }, format!("account address {s:?} ({how}): independent base58check(version 1, 32 bytes) gives {:?}, from_str gives {:?}", want.map(|w| gen::hex(&w)), got.map(|w| gen::hex(&w))))
                .with_signature(format!("grammar:AccountAddress:{how}")));
        }
        let j: Option<[u8; 32]> = serde_json::from_value::<cc::AccountAddress>(serde_json::Value::String(s.clone())).ok().map(|a| a.0);
        vensure!(j == want, "grammar-json", "account address JSON string {s:?}: {:?} vs {:?}", j.map(|w| gen::hex(&w)), want.map(|w| gen::hex(&w)));
        // Address: "first trying to parse the string as a contract address. If this fails, because of missing bracket, ... account address"
        if !s.starts_with('<') {
            let a = cc::Address::from_str(&s).ok();
            vensure!(a == want.map(|w| cc::Address::Account(cc::AccountAddress(w))), "grammar-address", "Address::from_str({s:?}) = {a:?}");
        }
        if how != "valid" {
            ctx.class("nontrivial");
            ctx.nontrivial(&s);
        }
        (s, how)
    } else {
        // ---- contract addresses
        let comp = |u: &mut Unstructured| -> String {
            match gen::byte(u) % 12 {
                0 => String::new(),
                1 => "18446744073709551616".into(),
                2 => format!("{}0", u64::MAX),
                3 => format!("-{}", gen::byte(u)),
                4 => format!("+{}", gen::byte(u)),
                5 => format!("0{}", gen::byte(u)),
                6 => format!("{}x", gen::byte(u)),
                7 => format!(" {}", gen::byte(u)),
                _ => gen::boundary_u64(u).to_string(),
            }
        };
        let (a, b) = if gen::ratio(u, 2, 3) { (gen::boundary_u64(u).to_string(), gen::boundary_u64(u).to_string()) } else { (comp(u), comp(u)) };
        let mut how = "composed";
        let mut s = format!("<{a},{b}>");
        match gen::byte(u) % 16 {
            0 => {
                s.remove(0);
                how = "no-open";
            }
            1 => {
                s.pop();
                how = "no-close";
            }
            2 => {
                s = s.replace(',', pick_str(u, &[";", "", ".", ":", " "]));
                how = "no-comma";
            }
            3 => {
                s = format!("<{a},{b},{a}>");
                how = "three-components";
            }
            4 => {
                s = pick_str(u, &["", "<", ">", "<>", "<,>", "<<1,2>>", "(1,2)", "[1,2]", "<1,2>x", "x<1,2>", "<é,1>", "<1,2\u{ff1e}"]).to_string();
                how = "degenerate";
            }
            5 => {
                s = format!("{}{s}{}", pick_str(u, &[" ", "", "\n"]), pick_str(u, &[" ", "\n", ""]));
                how = "outer-whitespace";
            }
            _ => {}
        }
        let verdict = ref_contract_address(&s);
        let got = cc::ContractAddress::from_str(&s).ok().map(|c| (c.index, c.subindex));
        ctx.class(&format!("contract:{how}"));
        ctx.describe(|| format!("contract address candidate {s:?} ({how}): documented {verdict:?}, from_str {got:?}"));
        ctx.sample(|| format!("contract {s:?} ({how}): documented {verdict:?}, from_str -> {got:?}"));
        match &verdict {
            Verdict::Valid(v) => {
                ctx.class("documented-valid");
                if got != Some(*v) {
                    return Err(Violation::new("grammar-accept", format!("contract address {s:?} denotes {v:?} but from_str gives {got:?}")).with_signature("grammar-accept:ContractAddress"));
                }
                let a = cc::Address::from_str(&s).ok();
                vensure!(a == Some(cc::Address::Contract(cc::ContractAddress::new(v.0, v.1))), "grammar-address", "Address::from_str({s:?}) = {a:?}");
            }
            Verdict::Invalid => {
                ctx.class("documented-invalid");
                if let Some(g) = got {
                    return Err(Violation::new("grammar-reject", format!("contract address {s:?} ({how}) is outside the documented format but from_str accepts it as {g:?}")).with_signature(format!("grammar-reject:ContractAddress:{how}")));
                }
                if s.starts_with('<') {
                    // starts with the bracket: the fallback to account parsing does not apply
                    let a = cc::Address::from_str(&s);
                    vensure!(a.is_err(), "grammar-address", "Address::from_str({s:?}) accepted an invalid contract address: {a:?}");
                }
            }
            Verdict::Silent(w) => ctx.class(&format!("silent:{w}:{}", if got.is_some() { "accepted" } else { "rejected" })),
        }
        if how != "composed" || !matches!(verdict, Verdict::Valid(_)) {
            ctx.class("nontrivial");
            ctx.nontrivial(&s);
        }
        (s, how)
    };
    let _ = (s, how);
    Ok(())
}

// =============================================================================================
// Target: contract / receive / entrypoint name grammar
// =============================================================================================

pub fn t_name_grammar(data: &[u8], ctx: &mut Ctx) -> CheckResult {
    let mut u = Unstructured::new(data);
    let u = &mut u;
    let prefix = pick_str(u, &["init_", "init_", "init_", "init_", "", "init", "Init_", "init-", "_init_", "x", "init_."]);
    let target_len = match gen::byte(u) % 10 {
        0 => gen::range_usize(u, 0, 8),
        1 => 98,
        2 | 3 => 99,
        4 | 5 => 100,
        6 | 7 => 101,
        8 => 102,
        _ => gen::range_usize(u, 0, 110),
    };
    let dots = gen::byte(u) % 4; // 0: none, 1: one, 2: a few, 3: as drawn
    let poison = gen::byte(u) % 12; // which kind of foreign character to insert (if any)
    let mut s = String::from(prefix);
    while s.len() < target_len {
        let c = match gen::byte(u) % 8 {
            0..=4 => (b'a' + gen::byte(u) % 26) as char,
            5 => *gen::choose(u, &['A', 'Z', '0', '9', '_']),
            6 => *gen::choose(u, &['!', '"', '#', '$', '%', '&', '\'', '(', ')', '*', '+', ',', '-', '/', ':', ';', '<', '=', '>', '?', '@', '[', '\\', ']', '^', '_', '`', '{', '|', '}', '~']),
            _ => {
                if dots == 3 {
                    '.'
                } else {
                    'q'
                }
            }
        };
        s.push(c);
    }
    if (dots == 1 || dots == 2) && !s.is_empty() {
        for _ in 0..(if dots == 1 { 1 } else { 3 }) {
            let i = gen::idx(u, s.len());
            if s.is_char_boundary(i) && s.is_char_boundary(i + 1) {
                s.replace_range(i..i + 1, ".");
            }
        }
    }
    let foreign: Option<&str> = match poison {
        0 => Some(" "),
        1 => Some(pick_str(u, &["\n", "\0", "\t", "\u{7f}", "\u{1f}", "\r"])),
        2 => Some(pick_str(u, &["é", "ß", "名", "😀", "\u{a0}", "\u{ff0e}", "\u{2024}", "İ"])),
        _ => None,
    };
    if let Some(f) = foreign {
        if s.is_empty() {
            s.push_str(f);
        } else {
            // replace so that the byte length stays near the drawn boundary where possible
            let i = gen::idx(u, s.len());
            let end = (i + f.len()).min(s.len());
            if s.is_char_boundary(i) && s.is_char_boundary(end) && gen::boolean(u) {
                s.replace_range(i..end, f);
            } else if s.is_char_boundary(i) {
                s.insert_str(i, f);
            }
        }
    }
    let len = s.len();
    let want_c = ref_valid_contract_name(&s);
    let want_r = ref_valid_receive_name(&s);
    let want_e = ref_valid_entrypoint_name(&s);
    ctx.class(&format!("len:{}", match len {
        0..=97 => "<=97",
        98 => "98",
        99 => "99",
        100 => "100",
        101 => "101",
        _ => ">=102",
    }));
    if want_c {
        ctx.class("valid-contract-name");
    }
    if want_r {
        ctx.class("valid-receive-name");
    }
    if want_e {
        ctx.class("valid-entrypoint-name");
    }
    if foreign.is_some() {
        ctx.class("has-foreign-character");
    }
    ctx.sample(|| format!("{s:?} (len {len}): contract={want_c} receive={want_r} entrypoint={want_e}"));
    ctx.describe(|| format!("name candidate {s:?} (len {len}): documented contract={want_c} receive={want_r} entrypoint={want_e}"));

    macro_rules! same {
        ($what:expr, $got:expr, $want:expr) => {{
            let got: bool = $got;
            if got != $want {
                let o = if $want { "grammar-accept" } else { "grammar-reject" };
                return Err(Violation::new(o, format!("{}: {s:?} (len {len}) is {} by the documented rules but the validator {}", $what, if $want { "valid" } else { "invalid" }, if got { "accepts it" } else { "rejects it" }))
                    .with_signature(format!("{o}:{}", $what)));
            }
        }};
    }
    // contract names
    same!("ContractName::is_valid_contract_name", cc::ContractName::is_valid_contract_name(&s).is_ok(), want_c);
    same!("ContractName::new", cc::ContractName::new(&s).is_ok(), want_c);
    same!("OwnedContractName::new", cc::OwnedContractName::new(s.clone()).is_ok(), want_c);
    same!("OwnedContractName::try_from", cc::OwnedContractName::try_from(s.clone()).is_ok(), want_c);
    // receive names
    same!("ReceiveName::is_valid_receive_name", cc::ReceiveName::is_valid_receive_name(&s).is_ok(), want_r);
    same!("ReceiveName::new", cc::ReceiveName::new(&s).is_ok(), want_r);
    same!("OwnedReceiveName::new", cc::OwnedReceiveName::new(s.clone()).is_ok(), want_r);
    same!("OwnedReceiveName::from_str", cc::OwnedReceiveName::from_str(&s).is_ok(), want_r);
    same!("OwnedReceiveName::try_from", cc::OwnedReceiveName::try_from(s.clone()).is_ok(), want_r);
    // entrypoint names
    same!("is_valid_entrypoint_name", cc::is_valid_entrypoint_name(&s).is_ok(), want_e);
    same!("EntrypointName::new", cc::EntrypointName::new(&s).is_ok(), want_e);
    same!("OwnedEntrypointName::new", cc::OwnedEntrypointName::new(s.clone()).is_ok(), want_e);
    same!("OwnedEntrypointName::try_from", cc::OwnedEntrypointName::try_from(s.clone()).is_ok(), want_e);
    // JSON strings go through the same validators (serde try_from = "String")
    let jv = serde_json::Value::String(s.clone());
    same!("json OwnedContractName", serde_json::from_value::<cc::OwnedContractName>(jv.clone()).is_ok(), want_c);
    same!("json OwnedReceiveName", serde_json::from_value::<cc::OwnedReceiveName>(jv.clone()).is_ok(), want_r);
    same!("json OwnedEntrypointName", serde_json::from_value::<cc::OwnedEntrypointName>(jv).is_ok(), want_e);
    // binary form: u16 length + bytes, validated on decoding
    let mut enc = (len as u16).to_le_bytes().to_vec();
    enc.extend_from_slice(s.as_bytes());
    same!("binary OwnedContractName", cc::from_bytes::<cc::OwnedContractName>(&enc).is_ok(), want_c);
    same!("binary OwnedReceiveName", cc::from_bytes::<cc::OwnedReceiveName>(&enc).is_ok(), want_r);
    same!("binary OwnedEntrypointName", cc::from_bytes::<cc::OwnedEntrypointName>(&enc).is_ok(), want_e);
    // invalid UTF-8 in the binary form is refused for all three
    if gen::ratio(u, 1, 8) && !enc[2..].is_empty() {
        let i = 2 + gen::idx(u, len);
        enc[i] = *gen::choose(u, &[0x80u8, 0xff, 0xc0, 0xf8]);
        if std::str::from_utf8(&enc[2..]).is_err() {
            ctx.class("binary-invalid-utf8");
            vensure!(cc::from_bytes::<cc::OwnedContractName>(&enc).is_err() && cc::from_bytes::<cc::OwnedReceiveName>(&enc).is_err() && cc::from_bytes::<cc::OwnedEntrypointName>(&enc).is_err(), "grammar-reject", "a name with invalid UTF-8 decodes: {}", gen::hex(&enc));
        }
    }
    // mutual consistency
    if want_r {
        let r = cc::ReceiveName::new(&s).unwrap();
        let dot = s.find('.').unwrap();
        vensure!(r.contract_name() == &s[..dot] && r.entrypoint_name().to_string() == s[dot + 1..], "name-parts", "parts of {s:?}");
        vensure!(ref_valid_entrypoint_name(&s[dot + 1..]) && cc::EntrypointName::new(&s[dot + 1..]).is_ok(), "name-consistency", "entrypoint part of valid receive name {s:?} is not a valid entrypoint name");
    }
    if (98..=102).contains(&len) || foreign.is_some() || prefix != "init_" {
        ctx.class("nontrivial");
        ctx.nontrivial(&s);
    }
    Ok(())
}
