//! Value generators (construction from the choice sequence, boundary biased) together with an
//! independent reference encoder transcribed from the documentation of the binary format
//! ("consistently little-endian", `u32` length prefixes for `Vec`/`String`/maps/sets, `u16` for
//! names/parameters/policy items, tags 0/1 for `bool`/`Option`/`Address`, ordered collections in
//! ascending key order, arrays without length).
use concordium_contracts_common as cc;
use cc::{Deserial, Serial};
use std::collections::{BTreeMap, BTreeSet};
use std::fmt::Debug;
use vcore::gen;
use vcore::Unstructured;

pub trait Val: Sized + Serial + Deserial + PartialEq + Debug {
    fn name() -> String;
    fn gen(u: &mut Unstructured) -> Self;
    /// Reference encoding; returns false when the documentation leaves the byte string open
    /// (hash collections: "no particular order").
    fn refenc(&self, out: &mut Vec<u8>) -> bool;
    /// Does the value sit at a documented boundary / exercise a variable-length or optional part?
    fn nt(&self) -> bool;
}

// ---------------------------------------------------------------------------------------------
// integers

macro_rules! int_val {
    ($t:ty, $ut:ty, $bits:expr) => {
        impl Val for $t {
            fn name() -> String { stringify!($t).to_string() }

            fn gen(u: &mut Unstructured) -> Self {
                if $bits <= 32 {
                    let v = gen::boundary_u32(u);
                    match gen::byte(u) % 4 {
                        0 => v as $t,
                        1 => (v as $ut).wrapping_neg() as $t,
                        2 => match gen::byte(u) % 4 {
                            0 => <$t>::MAX,
                            1 => <$t>::MIN,
                            2 => <$t>::MAX.wrapping_sub(1),
                            _ => <$t>::MIN.wrapping_add(1),
                        },
                        _ => gen::u32v(u) as $t,
                    }
                } else {
                    let v = gen::boundary_u64(u);
                    match gen::byte(u) % 4 {
                        0 => v as $t,
                        1 => match gen::byte(u) % 4 {
                            0 => <$t>::MAX,
                            1 => <$t>::MIN,
                            2 => <$t>::MAX.wrapping_sub(1),
                            _ => <$t>::MIN.wrapping_add(1),
                        },
                        2 => ((gen::u64v(u) as u128) << 64 | gen::u64v(u) as u128) as $t,
                        _ => gen::u64v(u) as $t,
                    }
                }
            }

            fn refenc(&self, out: &mut Vec<u8>) -> bool {
                // little endian, written out by hand (least significant byte first)
                let mut x = *self as $ut;
                for _ in 0..($bits / 8) {
                    out.push((x & 0xff) as u8);
                    x = x.checked_shr(8).unwrap_or(0);
                }
                true
            }

            fn nt(&self) -> bool {
                let x = *self;
                x == <$t>::MAX || x == <$t>::MIN || x == <$t>::MAX.wrapping_sub(1) || {
                    let y = x as $ut;
                    y >= 0x80 && (y.count_ones() == 1 || (y.wrapping_add(1)).count_ones() == 1 || y.wrapping_sub(1).count_ones() == 1)
                }
            }
        }
    };
}
int_val!(u8, u8, 8);
int_val!(u16, u16, 16);
int_val!(u32, u32, 32);
int_val!(u64, u64, 64);
int_val!(u128, u128, 128);
int_val!(i8, u8, 8);
int_val!(i16, u16, 16);
int_val!(i32, u32, 32);
int_val!(i64, u64, 64);
int_val!(i128, u128, 128);

impl Val for () {
    fn name() -> String { "()".into() }

    fn gen(_u: &mut Unstructured) -> Self {}

    fn refenc(&self, _out: &mut Vec<u8>) -> bool { true }

    fn nt(&self) -> bool { false }
}

impl Val for bool {
    fn name() -> String { "bool".into() }

    fn gen(u: &mut Unstructured) -> Self { gen::boolean(u) }

    fn refenc(&self, out: &mut Vec<u8>) -> bool {
        out.push(if *self { 1 } else { 0 });
        true
    }

    fn nt(&self) -> bool { false }
}

// ---------------------------------------------------------------------------------------------
// strings, options, boxes, tuples, arrays

pub fn gen_string(u: &mut Unstructured, max_chars: usize) -> String {
    let n = match gen::byte(u) % 8 {
        0 => 0,
        1 => 1,
        2..=5 => gen::range_usize(u, 0, max_chars.min(12)),
        6 => gen::range_usize(u, 0, max_chars),
        _ => max_chars,
    };
    let mut s = String::new();
    for _ in 0..n {
        let c = match gen::byte(u) % 8 {
            0..=3 => (b'a' + gen::byte(u) % 26) as char,
            4 => (0x20 + gen::byte(u) % 0x5f) as char,
            5 => *gen::choose(u, &['\0', '\n', '\u{7f}', 'é', 'ß', '\u{a0}', '名', '\u{ffff}', '😀', '\u{10ffff}']),
            6 => char::from_u32(gen::range_u64(u, 0x80, 0x7ff) as u32).unwrap_or('x'),
            _ => char::from_u32(gen::range_u64(u, 0x800, 0xd7ff) as u32).unwrap_or('y'),
        };
        s.push(c);
    }
    s
}

impl Val for String {
    fn name() -> String { "String".into() }

    fn gen(u: &mut Unstructured) -> Self { gen_string(u, 40) }

    fn refenc(&self, out: &mut Vec<u8>) -> bool {
        (self.len() as u32).refenc(out);
        out.extend_from_slice(self.as_bytes());
        true
    }

    fn nt(&self) -> bool { !self.is_ascii() || self.len() >= 32 }
}

impl<T: Val> Val for Option<T> {
    fn name() -> String { format!("Option<{}>", T::name()) }

    fn gen(u: &mut Unstructured) -> Self {
        if gen::ratio(u, 1, 3) {
            None
        } else {
            Some(T::gen(u))
        }
    }

    fn refenc(&self, out: &mut Vec<u8>) -> bool {
        match self {
            None => {
                out.push(0);
                true
            }
            Some(x) => {
                out.push(1);
                x.refenc(out)
            }
        }
    }

    fn nt(&self) -> bool { self.is_some() }
}

impl<T: Val> Val for Box<T> {
    fn name() -> String { format!("Box<{}>", T::name()) }

    fn gen(u: &mut Unstructured) -> Self { Box::new(T::gen(u)) }

    fn refenc(&self, out: &mut Vec<u8>) -> bool { self.as_ref().refenc(out) }

    fn nt(&self) -> bool { self.as_ref().nt() }
}

impl<T> Val for std::marker::PhantomData<T> {
    fn name() -> String { "PhantomData".into() }

    fn gen(_u: &mut Unstructured) -> Self { std::marker::PhantomData }

    fn refenc(&self, _out: &mut Vec<u8>) -> bool { true }

    fn nt(&self) -> bool { false }
}

macro_rules! tuple_val {
    ($($t:ident : $i:tt),+) => {
        impl<$($t: Val),+> Val for ($($t),+) {
            fn name() -> String { let v: Vec<String> = vec![$($t::name()),+]; format!("({})", v.join(",")) }
            fn gen(u: &mut Unstructured) -> Self { ($($t::gen(u)),+) }
            fn refenc(&self, out: &mut Vec<u8>) -> bool { $(self.$i.refenc(out))&&+ }
            fn nt(&self) -> bool { $(self.$i.nt())||+ }
        }
    };
}
tuple_val!(A:0, B:1);
tuple_val!(A:0, B:1, C:2);
tuple_val!(A:0, B:1, C:2, D:3);
tuple_val!(A:0, B:1, C:2, D:3, E:4);
tuple_val!(A:0, B:1, C:2, D:3, E:4, F:5);

impl<T: Val, const N: usize> Val for [T; N] {
    fn name() -> String { format!("[{};{}]", T::name(), N) }

    fn gen(u: &mut Unstructured) -> Self { std::array::from_fn(|_| T::gen(u)) }

    fn refenc(&self, out: &mut Vec<u8>) -> bool { self.iter().all(|x| x.refenc(out)) }

    fn nt(&self) -> bool { N > 0 && self.iter().any(|x| x.nt()) }
}

// ---------------------------------------------------------------------------------------------
// collections

pub fn gen_len(u: &mut Unstructured, max: usize) -> usize {
    match gen::byte(u) % 8 {
        0 => 0,
        1 => 1,
        2..=5 => gen::range_usize(u, 0, max.min(5)),
        6 => gen::range_usize(u, 0, max),
        _ => max,
    }
}

impl<T: Val> Val for Vec<T> {
    fn name() -> String { format!("Vec<{}>", T::name()) }

    fn gen(u: &mut Unstructured) -> Self {
        let n = gen_len(u, 12);
        (0..n).map(|_| T::gen(u)).collect()
    }

    fn refenc(&self, out: &mut Vec<u8>) -> bool {
        (self.len() as u32).refenc(out);
        self.iter().all(|x| x.refenc(out))
    }

    fn nt(&self) -> bool { self.len() >= 2 || self.iter().any(|x| x.nt()) }
}

impl<K: Val + Ord, V: Val> Val for BTreeMap<K, V> {
    fn name() -> String { format!("BTreeMap<{},{}>", K::name(), V::name()) }

    fn gen(u: &mut Unstructured) -> Self {
        let n = gen_len(u, 10);
        (0..n).map(|_| (K::gen(u), V::gen(u))).collect()
    }

    fn refenc(&self, out: &mut Vec<u8>) -> bool {
        // "They are serialized in ascending order."
        let mut entries: Vec<(&K, &V)> = self.iter().collect();
        entries.sort_by(|a, b| a.0.cmp(b.0));
        (entries.len() as u32).refenc(out);
        entries.iter().all(|(k, v)| k.refenc(out) && v.refenc(out))
    }

    fn nt(&self) -> bool { self.len() >= 2 }
}

impl<K: Val + Ord> Val for BTreeSet<K> {
    fn name() -> String { format!("BTreeSet<{}>", K::name()) }

    fn gen(u: &mut Unstructured) -> Self {
        let n = gen_len(u, 10);
        (0..n).map(|_| K::gen(u)).collect()
    }

    fn refenc(&self, out: &mut Vec<u8>) -> bool {
        let mut entries: Vec<&K> = self.iter().collect();
        entries.sort();
        (entries.len() as u32).refenc(out);
        entries.iter().all(|k| k.refenc(out))
    }

    fn nt(&self) -> bool { self.len() >= 2 }
}

impl<K: Val + Eq + std::hash::Hash, V: Val> Val for cc::HashMap<K, V> {
    fn name() -> String { format!("HashMap<{},{}>", K::name(), V::name()) }

    fn gen(u: &mut Unstructured) -> Self {
        let n = gen_len(u, 10);
        (0..n).map(|_| (K::gen(u), V::gen(u))).collect()
    }

    fn refenc(&self, _out: &mut Vec<u8>) -> bool { false }

    fn nt(&self) -> bool { self.len() >= 2 }
}

impl<K: Val + Eq + std::hash::Hash> Val for cc::HashSet<K> {
    fn name() -> String { format!("HashSet<{}>", K::name()) }

    fn gen(u: &mut Unstructured) -> Self {
        let n = gen_len(u, 10);
        (0..n).map(|_| K::gen(u)).collect()
    }

    fn refenc(&self, _out: &mut Vec<u8>) -> bool { false }

    fn nt(&self) -> bool { self.len() >= 2 }
}

// ---------------------------------------------------------------------------------------------
// domain types

macro_rules! u64_newtype {
    ($t:ty, $name:expr, $mk:expr, $get:expr) => {
        impl Val for $t {
            fn name() -> String { $name.into() }

            fn gen(u: &mut Unstructured) -> Self { $mk(u64::gen(u)) }

            fn refenc(&self, out: &mut Vec<u8>) -> bool { ($get(self) as u64).refenc(out) }

            fn nt(&self) -> bool { ($get(self) as u64).nt() }
        }
    };
}
u64_newtype!(cc::Amount, "Amount", cc::Amount::from_micro_ccd, |a: &cc::Amount| a.micro_ccd());
u64_newtype!(cc::Timestamp, "Timestamp", cc::Timestamp::from_timestamp_millis, |a: &cc::Timestamp| a.timestamp_millis());
u64_newtype!(cc::Duration, "Duration", cc::Duration::from_millis, |a: &cc::Duration| a.millis());

impl Val for cc::AccountBalance {
    fn name() -> String { "AccountBalance".into() }

    fn gen(u: &mut Unstructured) -> Self {
        let total = u64::gen(u);
        let pick = |u: &mut Unstructured| match gen::byte(u) % 4 {
            0 => 0,
            1 => total,
            2 => total.saturating_sub(1),
            _ => gen::range_u64(u, 0, total),
        };
        let staked = pick(u);
        let locked = pick(u);
        cc::AccountBalance::new(cc::Amount::from_micro_ccd(total), cc::Amount::from_micro_ccd(staked), cc::Amount::from_micro_ccd(locked))
            .expect("staked, locked <= total by construction")
    }

    fn refenc(&self, out: &mut Vec<u8>) -> bool { self.total.refenc(out) && self.staked.refenc(out) && self.locked.refenc(out) }

    fn nt(&self) -> bool { self.staked == self.total || self.locked == self.total }
}

impl Val for cc::AccountThreshold {
    fn name() -> String { "NonZeroThresholdU8".into() }

    fn gen(u: &mut Unstructured) -> Self {
        let t = match gen::byte(u) % 4 {
            0 => 1,
            1 => 255,
            _ => gen::range_u64(u, 1, 255) as u8,
        };
        cc::AccountThreshold::try_from(t).expect("non-zero")
    }

    fn refenc(&self, out: &mut Vec<u8>) -> bool {
        out.push(u8::from(*self));
        true
    }

    fn nt(&self) -> bool { u8::from(*self) == 1 || u8::from(*self) == 255 }
}

pub fn gen_nonzero_u64(u: &mut Unstructured) -> u64 {
    let v = u64::gen(u);
    if v == 0 {
        1
    } else {
        v
    }
}

impl Val for cc::ExchangeRate {
    fn name() -> String { "ExchangeRate".into() }

    fn gen(u: &mut Unstructured) -> Self { cc::ExchangeRate::new_unchecked(gen_nonzero_u64(u), gen_nonzero_u64(u)) }

    fn refenc(&self, out: &mut Vec<u8>) -> bool { self.numerator().refenc(out) && self.denominator().refenc(out) }

    fn nt(&self) -> bool { self.numerator().nt() || self.denominator().nt() }
}

impl Val for cc::ExchangeRates {
    fn name() -> String { "ExchangeRates".into() }

    fn gen(u: &mut Unstructured) -> Self { cc::ExchangeRates { euro_per_energy: Val::gen(u), micro_ccd_per_euro: Val::gen(u) } }

    fn refenc(&self, out: &mut Vec<u8>) -> bool { self.euro_per_energy.refenc(out) && self.micro_ccd_per_euro.refenc(out) }

    fn nt(&self) -> bool { self.euro_per_energy.nt() || self.micro_ccd_per_euro.nt() }
}

pub fn gen_bytes_n<const N: usize>(u: &mut Unstructured) -> [u8; N] {
    match gen::byte(u) % 8 {
        0 => [0u8; N],
        1 => [0xffu8; N],
        2 => {
            let mut a = [0u8; N];
            if N > 0 {
                a[N - 1] = 1;
            }
            a
        }
        _ => gen::array::<N>(u),
    }
}

impl Val for cc::AccountAddress {
    fn name() -> String { "AccountAddress".into() }

    fn gen(u: &mut Unstructured) -> Self { cc::AccountAddress(gen_bytes_n::<32>(u)) }

    fn refenc(&self, out: &mut Vec<u8>) -> bool {
        out.extend_from_slice(&self.0);
        true
    }

    fn nt(&self) -> bool { true }
}

impl Val for cc::ContractAddress {
    fn name() -> String { "ContractAddress".into() }

    fn gen(u: &mut Unstructured) -> Self { cc::ContractAddress::new(u64::gen(u), u64::gen(u)) }

    fn refenc(&self, out: &mut Vec<u8>) -> bool { self.index.refenc(out) && self.subindex.refenc(out) }

    fn nt(&self) -> bool { self.index.nt() || self.subindex.nt() }
}

impl Val for cc::Address {
    fn name() -> String { "Address".into() }

    fn gen(u: &mut Unstructured) -> Self {
        if gen::boolean(u) {
            cc::Address::Contract(Val::gen(u))
        } else {
            cc::Address::Account(Val::gen(u))
        }
    }

    fn refenc(&self, out: &mut Vec<u8>) -> bool {
        match self {
            cc::Address::Account(a) => {
                out.push(0);
                a.refenc(out)
            }
            cc::Address::Contract(c) => {
                out.push(1);
                c.refenc(out)
            }
        }
    }

    fn nt(&self) -> bool {
        match self {
            cc::Address::Account(a) => a.nt(),
            cc::Address::Contract(c) => c.nt(),
        }
    }
}

/// Characters allowed in names by the documentation: ASCII alphanumeric or punctuation, i.e. every
/// printable ASCII character except the space: 0x21..=0x7e.
pub fn gen_name_char(u: &mut Unstructured, allow_dot: bool) -> char {
    loop {
        let c = match gen::byte(u) % 4 {
            0 | 1 => (b'a' + gen::byte(u) % 26) as char,
            2 => *gen::choose(u, &['A', 'Z', '0', '9', '_', '-', '!', '~', '@', '/', '\\', '"', '`', '|', '.', '.']),
            _ => (0x21 + gen::byte(u) % 0x5e) as char,
        };
        if c != '.' || allow_dot {
            return c;
        }
        if u.is_empty() {
            return 'a';
        }
    }
}

/// Length of a generated name: biased to the documented limits.
pub fn gen_name_len(u: &mut Unstructured, min: usize, max: usize) -> usize {
    match gen::byte(u) % 8 {
        0 => min,
        1 => max,
        2 => max.saturating_sub(1).max(min),
        3 => (min + 1).min(max),
        4 | 5 => gen::range_usize(u, min, (min + 12).min(max)),
        _ => gen::range_usize(u, min, max),
    }
}

pub fn gen_contract_name_string(u: &mut Unstructured) -> String {
    let len = gen_name_len(u, 5, 100);
    let mut s = String::from("init_");
    while s.len() < len {
        s.push(gen_name_char(u, false));
    }
    s
}

pub fn gen_entrypoint_name_string(u: &mut Unstructured, max: usize) -> String {
    let len = gen_name_len(u, 0, max);
    let mut s = String::new();
    while s.len() < len {
        s.push(gen_name_char(u, true));
    }
    s
}

pub fn gen_receive_name_string(u: &mut Unstructured) -> String {
    let len = gen_name_len(u, 1, 100);
    let dot = gen::range_usize(u, 0, len - 1);
    let mut s = String::new();
    while s.len() < len {
        if s.len() == dot {
            s.push('.');
        } else {
            // before the chosen dot: no dots, so that `dot` is the first one; after it: anything
            let allow = s.len() > dot;
            s.push(gen_name_char(u, allow));
        }
    }
    s
}

fn refenc_u16_bytes(b: &[u8], out: &mut Vec<u8>) -> bool {
    (b.len() as u16).refenc(out);
    out.extend_from_slice(b);
    true
}

impl Val for cc::OwnedContractName {
    fn name() -> String { "OwnedContractName".into() }

    fn gen(u: &mut Unstructured) -> Self { cc::OwnedContractName::new_unchecked(gen_contract_name_string(u)) }

    fn refenc(&self, out: &mut Vec<u8>) -> bool { refenc_u16_bytes(self.as_contract_name().get_chain_name().as_bytes(), out) }

    fn nt(&self) -> bool { self.as_contract_name().get_chain_name().len() >= 99 }
}

impl Val for cc::OwnedReceiveName {
    fn name() -> String { "OwnedReceiveName".into() }

    fn gen(u: &mut Unstructured) -> Self { cc::OwnedReceiveName::new_unchecked(gen_receive_name_string(u)) }

    fn refenc(&self, out: &mut Vec<u8>) -> bool { refenc_u16_bytes(self.as_receive_name().get_chain_name().as_bytes(), out) }

    fn nt(&self) -> bool { self.as_receive_name().get_chain_name().len() >= 99 }
}

impl Val for cc::OwnedEntrypointName {
    fn name() -> String { "OwnedEntrypointName".into() }

    fn gen(u: &mut Unstructured) -> Self { cc::OwnedEntrypointName::new_unchecked(gen_entrypoint_name_string(u, 99)) }

    fn refenc(&self, out: &mut Vec<u8>) -> bool { refenc_u16_bytes(self.to_string().as_bytes(), out) }

    fn nt(&self) -> bool { self.to_string().len() >= 98 }
}

impl Val for cc::OwnedParameter {
    fn name() -> String { "OwnedParameter".into() }

    fn gen(u: &mut Unstructured) -> Self {
        let b = match gen::byte(u) % 16 {
            0 => vec![0xabu8; 65535],
            1 => vec![1u8; 65534],
            2 => vec![2u8; 4097],
            _ => gen::short_bytes(u, 300),
        };
        cc::OwnedParameter::new_unchecked(b)
    }

    fn refenc(&self, out: &mut Vec<u8>) -> bool { refenc_u16_bytes(self.as_ref(), out) }

    fn nt(&self) -> bool { self.as_ref().len() >= 256 }
}

impl Val for cc::AttributeTag {
    fn name() -> String { "AttributeTag".into() }

    fn gen(u: &mut Unstructured) -> Self { cc::AttributeTag(u8::gen(u)) }

    fn refenc(&self, out: &mut Vec<u8>) -> bool {
        out.push(self.0);
        true
    }

    fn nt(&self) -> bool { self.0 > 12 }
}

impl Val for cc::AttributeValue {
    fn name() -> String { "AttributeValue".into() }

    fn gen(u: &mut Unstructured) -> Self {
        let n = match gen::byte(u) % 4 {
            0 => 0,
            1 => 31,
            2 => 30,
            _ => gen::range_usize(u, 0, 31),
        };
        cc::AttributeValue::new(&gen::bytes(u, n)).expect("length <= 31")
    }

    fn refenc(&self, out: &mut Vec<u8>) -> bool {
        let b: &[u8] = self.as_ref();
        out.push(b.len() as u8);
        out.extend_from_slice(b);
        true
    }

    fn nt(&self) -> bool { self.len() >= 30 || self.is_empty() }
}

impl<P> Val for cc::hashes::HashBytes<P> {
    fn name() -> String { "HashBytes".into() }

    fn gen(u: &mut Unstructured) -> Self { cc::hashes::HashBytes::new(gen_bytes_n::<32>(u)) }

    fn refenc(&self, out: &mut Vec<u8>) -> bool {
        out.extend_from_slice(&self.bytes);
        true
    }

    fn nt(&self) -> bool { true }
}

macro_rules! bytes_newtype {
    ($t:path, $name:expr, $n:expr) => {
        impl Val for $t {
            fn name() -> String { $name.into() }

            fn gen(u: &mut Unstructured) -> Self { $t(gen_bytes_n::<$n>(u)) }

            fn refenc(&self, out: &mut Vec<u8>) -> bool {
                out.extend_from_slice(&self.0);
                true
            }

            fn nt(&self) -> bool { true }
        }
    };
}
bytes_newtype!(cc::PublicKeyEd25519, "PublicKeyEd25519", 32);
bytes_newtype!(cc::PublicKeyEcdsaSecp256k1, "PublicKeyEcdsaSecp256k1", 33);
bytes_newtype!(cc::SignatureEd25519, "SignatureEd25519", 64);
bytes_newtype!(cc::SignatureEcdsaSecp256k1, "SignatureEcdsaSecp256k1", 64);

// Types with `#[concordium(size_length = 1)]` maps: documented through the attribute (one byte
// length) and the derive documentation (fields in order, enum tag one byte in declaration order).
fn gen_u8_map<V>(u: &mut Unstructured, mut f: impl FnMut(&mut Unstructured) -> V) -> BTreeMap<u8, V> {
    let n = gen_len(u, 6);
    let mut m = BTreeMap::new();
    for _ in 0..n {
        let k = match gen::byte(u) % 4 {
            0 => 0,
            1 => 255,
            _ => gen::byte(u),
        };
        m.insert(k, f(u));
    }
    m
}

impl Val for cc::PublicKey {
    fn name() -> String { "PublicKey".into() }

    fn gen(u: &mut Unstructured) -> Self { cc::PublicKey::Ed25519(Val::gen(u)) }

    fn refenc(&self, out: &mut Vec<u8>) -> bool {
        let cc::PublicKey::Ed25519(k) = self;
        out.push(0);
        k.refenc(out)
    }

    fn nt(&self) -> bool { true }
}

impl Val for cc::Signature {
    fn name() -> String { "Signature".into() }

    fn gen(u: &mut Unstructured) -> Self { cc::Signature::Ed25519(Val::gen(u)) }

    fn refenc(&self, out: &mut Vec<u8>) -> bool {
        match self {
            cc::Signature::Ed25519(s) => {
                out.push(0);
                s.refenc(out)
            }
            #[allow(unreachable_patterns)]
            _ => false,
        }
    }

    fn nt(&self) -> bool { true }
}

impl Val for cc::CredentialPublicKeys {
    fn name() -> String { "CredentialPublicKeys".into() }

    fn gen(u: &mut Unstructured) -> Self {
        cc::CredentialPublicKeys {
            keys:      gen_u8_map(u, |u| Val::gen(u)),
            threshold: cc::SignatureThreshold::try_from(u8::from(cc::AccountThreshold::gen(u))).unwrap(),
        }
    }

    fn refenc(&self, out: &mut Vec<u8>) -> bool {
        out.push(self.keys.len() as u8);
        for (k, v) in self.keys.iter() {
            out.push(*k);
            v.refenc(out);
        }
        out.push(u8::from(self.threshold));
        true
    }

    fn nt(&self) -> bool { self.keys.len() >= 2 }
}

impl Val for cc::AccountPublicKeys {
    fn name() -> String { "AccountPublicKeys".into() }

    fn gen(u: &mut Unstructured) -> Self {
        let n = gen_len(u, 3);
        let mut keys = BTreeMap::new();
        for _ in 0..n {
            keys.insert(gen::byte(u), cc::CredentialPublicKeys::gen(u));
        }
        cc::AccountPublicKeys { keys, threshold: Val::gen(u) }
    }

    fn refenc(&self, out: &mut Vec<u8>) -> bool {
        out.push(self.keys.len() as u8);
        for (k, v) in self.keys.iter() {
            out.push(*k);
            v.refenc(out);
        }
        out.push(u8::from(self.threshold));
        true
    }

    fn nt(&self) -> bool { self.keys.len() >= 2 }
}

impl Val for cc::CredentialSignatures {
    fn name() -> String { "CredentialSignatures".into() }

    fn gen(u: &mut Unstructured) -> Self { cc::CredentialSignatures { sigs: gen_u8_map(u, |u| Val::gen(u)) } }

    fn refenc(&self, out: &mut Vec<u8>) -> bool {
        out.push(self.sigs.len() as u8);
        for (k, v) in self.sigs.iter() {
            out.push(*k);
            v.refenc(out);
        }
        true
    }

    fn nt(&self) -> bool { self.sigs.len() >= 2 }
}

impl Val for cc::AccountSignatures {
    fn name() -> String { "AccountSignatures".into() }

    fn gen(u: &mut Unstructured) -> Self {
        let n = gen_len(u, 3);
        let mut sigs = BTreeMap::new();
        for _ in 0..n {
            sigs.insert(gen::byte(u), cc::CredentialSignatures::gen(u));
        }
        cc::AccountSignatures { sigs }
    }

    fn refenc(&self, out: &mut Vec<u8>) -> bool {
        out.push(self.sigs.len() as u8);
        for (k, v) in self.sigs.iter() {
            out.push(*k);
            v.refenc(out);
        }
        true
    }

    fn nt(&self) -> bool { self.sigs.len() >= 2 }
}

// ---------------------------------------------------------------------------------------------
// Wrappers for types without `PartialEq`.

#[derive(Debug, Clone)]
pub struct PolicyW(pub cc::OwnedPolicy);

impl PartialEq for PolicyW {
    fn eq(&self, o: &Self) -> bool {
        self.0.identity_provider == o.0.identity_provider
            && self.0.created_at == o.0.created_at
            && self.0.valid_to == o.0.valid_to
            && self.0.items == o.0.items
    }
}

impl Serial for PolicyW {
    fn serial<W: cc::Write>(&self, out: &mut W) -> Result<(), W::Err> { self.0.serial(out) }
}

impl Deserial for PolicyW {
    fn deserial<R: cc::Read>(source: &mut R) -> cc::ParseResult<Self> { cc::OwnedPolicy::deserial(source).map(PolicyW) }
}

impl Val for PolicyW {
    fn name() -> String { "OwnedPolicy".into() }

    fn gen(u: &mut Unstructured) -> Self {
        let n = match gen::byte(u) % 32 {
            0 => 300,
            1 => 4097,
            _ => gen_len(u, 14),
        };
        let mut items = Vec::with_capacity(n);
        for i in 0..n {
            if n > 20 {
                items.push((cc::AttributeTag(i as u8), cc::AttributeValue::new(&[i as u8]).unwrap()));
            } else {
                items.push((Val::gen(u), Val::gen(u)));
            }
        }
        PolicyW(cc::OwnedPolicy { identity_provider: Val::gen(u), created_at: Val::gen(u), valid_to: Val::gen(u), items })
    }

    fn refenc(&self, out: &mut Vec<u8>) -> bool {
        self.0.identity_provider.refenc(out);
        self.0.created_at.refenc(out);
        self.0.valid_to.refenc(out);
        (self.0.items.len() as u16).refenc(out);
        for (t, v) in self.0.items.iter() {
            t.refenc(out);
            v.refenc(out);
        }
        true
    }

    fn nt(&self) -> bool { !self.0.items.is_empty() }
}

#[derive(Debug, Clone)]
pub struct ChainMetaW(pub cc::ChainMetadata);

impl PartialEq for ChainMetaW {
    fn eq(&self, o: &Self) -> bool { self.0.slot_time == o.0.slot_time }
}

impl Serial for ChainMetaW {
    fn serial<W: cc::Write>(&self, out: &mut W) -> Result<(), W::Err> { self.0.serial(out) }
}

impl Deserial for ChainMetaW {
    fn deserial<R: cc::Read>(source: &mut R) -> cc::ParseResult<Self> { cc::ChainMetadata::deserial(source).map(ChainMetaW) }
}

impl Val for ChainMetaW {
    fn name() -> String { "ChainMetadata".into() }

    fn gen(u: &mut Unstructured) -> Self { ChainMetaW(cc::ChainMetadata { slot_time: Val::gen(u) }) }

    fn refenc(&self, out: &mut Vec<u8>) -> bool { self.0.slot_time.refenc(out) }

    fn nt(&self) -> bool { self.0.slot_time.nt() }
}

// ---------------------------------------------------------------------------------------------
// Harness-defined types using the re-exported derive macros (as `types.rs` does for the key and
// signature types): struct with fields in order, enum with one-byte tag, size_length, ensure_ordered.

pub mod derived {
    use super::*;
    use concordium_contracts_common as concordium_std;
    use concordium_contracts_common::{Deserial, Serial};

    #[derive(Debug, PartialEq, Eq, Serial, Deserial)]
    pub struct Rec {
        pub a: u8,
        pub b: u32,
        #[concordium(size_length = 1)]
        pub c: Vec<u16>,
        #[concordium(size_length = 2)]
        pub d: String,
        #[concordium(size_length = 1, ensure_ordered)]
        pub e: BTreeSet<u8>,
        pub f: Option<cc::Address>,
    }

    #[derive(Debug, PartialEq, Eq, Serial, Deserial)]
    pub enum En {
        A,
        B(u16),
        C { x: cc::Amount, y: String },
    }

    impl Val for Rec {
        fn name() -> String { "derived::Rec".into() }

        fn gen(u: &mut Unstructured) -> Self {
            Rec { a: Val::gen(u), b: Val::gen(u), c: Val::gen(u), d: gen_string(u, 20), e: Val::gen(u), f: Val::gen(u) }
        }

        fn refenc(&self, out: &mut Vec<u8>) -> bool {
            self.a.refenc(out);
            self.b.refenc(out);
            out.push(self.c.len() as u8);
            for x in &self.c {
                x.refenc(out);
            }
            (self.d.len() as u16).refenc(out);
            out.extend_from_slice(self.d.as_bytes());
            out.push(self.e.len() as u8);
            for x in &self.e {
                out.push(*x);
            }
            self.f.refenc(out)
        }

        fn nt(&self) -> bool { self.c.len() >= 2 || self.e.len() >= 2 }
    }

    impl Val for En {
        fn name() -> String { "derived::En".into() }

        fn gen(u: &mut Unstructured) -> Self {
            match gen::byte(u) % 3 {
                0 => En::A,
                1 => En::B(Val::gen(u)),
                _ => En::C { x: Val::gen(u), y: Val::gen(u) },
            }
        }

        fn refenc(&self, out: &mut Vec<u8>) -> bool {
            match self {
                En::A => {
                    out.push(0);
                    true
                }
                En::B(x) => {
                    out.push(1);
                    x.refenc(out)
                }
                En::C { x, y } => {
                    out.push(2);
                    x.refenc(out) && y.refenc(out)
                }
            }
        }

        fn nt(&self) -> bool { !matches!(self, En::A) }
    }
}
