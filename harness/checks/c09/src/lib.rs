//! C09: validation admits only safe modules; parsing and validation are total.
use concordium_wasm::types::{FunctionType, Name, ValueType};
use concordium_wasm::validate::ValidateImportExport;
use vcore::{gen as g, vensure, CheckResult, Ctx, Property, Target, Unstructured, Violation};
use wasmgen::ast::*;
use wasmgen::gen::{gen_args, gen_module, GenConfig};
use wasmgen::hostmodel::std_imports;
use wasmgen::validate::{validate, Config};
use wasmrun::{instantiate, to_values, Metering, RealOutcome, RecHost, VCfg};

fn cfg_of(v: VCfg) -> Config {
    match v {
        VCfg::V0 => Config::V0,
        VCfg::V1 => Config::V1,
    }
}

fn base_module(u: &mut Unstructured, max_body: usize) -> Module {
    let sign_ext = g::boolean(u);
    let cfg = GenConfig {
        sign_ext,
        globals_in_offsets: g::boolean(u),
        imports: if g::boolean(u) { std_imports() } else { Vec::new() },
        max_body,
        // accepted mutants are executed under an energy budget, so the base may loop freely
        unbounded: g::ratio(u, 1, 4),
        ..GenConfig::default()
    };
    gen_module(u, &cfg).module
}

/// Execute every exported function of an accepted module with boundary arguments under metering
/// with a small budget. The build has the bounds assertions of hook H1 enabled, so an
/// out-of-bounds register/constant/code/memory access is a panic, which the engine reports as a
/// violation. Returns the number of exports run.
fn run_accepted(bytes: &[u8], v: VCfg, m: &Module, u: &mut Unstructured, ctx: &mut Ctx) -> CheckResult {
    let art = match instantiate(bytes, v, Metering::V1) {
        Ok(a) => a,
        Err(e) => {
            return Err(Violation::new(
                "compiles-with-metering",
                format!("module accepted without metering is rejected with metering injected under {:?}: {e:#}", v),
            ))
        }
    };
    let mut ran = 0;
    for (name, idx) in m.exported_funcs().into_iter().take(4) {
        if (idx as usize) < m.imports.len() {
            continue;
        }
        let Some(ty) = m.func_type(idx) else { continue };
        let raw = gen_args(u, ty);
        let args = to_values(&ty.params, &raw);
        let mut host = RecHost::new(20_000);
        host.max_depth = 300;
        let (out, _) = wasmrun::run(&art, name, &args, &mut host, 50_000_000);
        vensure!(
            out != RealOutcome::StepLimit,
            "bounded-execution",
            "export {name} with 20000 energy still running after 50M interpreter steps"
        );
        ran += 1;
        match out {
            RealOutcome::Done { .. } => ctx.class("exec-done"),
            RealOutcome::Trap(_) => ctx.class("exec-trap"),
            RealOutcome::OutOfEnergy => ctx.class("exec-out-of-energy"),
            RealOutcome::StepLimit => {}
        }
    }
    if ran > 0 {
        ctx.class("executed-accepted");
    }
    Ok(())
}

fn t_ast(data: &[u8], ctx: &mut Ctx) -> CheckResult {
    let mut u = Unstructured::new(data);
    let mut m = base_module(&mut u, 60);
    let k = match g::byte(&mut u) % 8 {
        0 => 0,
        1..=5 => 1,
        6 => 2,
        _ => 3,
    };
    let mut names = Vec::new();
    for _ in 0..k {
        names.push(wasmgen::mutate::mutate_ast(&mut u, &mut m));
    }
    let bytes = wasmgen::encode::encode(&m);
    ctx.describe(|| format!("mutations {:?}\n{}", names, pretty(&m)));
    for n in &names {
        ctx.class(&format!("mut:{n}"));
    }
    if k == 0 {
        ctx.class("unmutated");
    }
    let mut any_reject = false;
    let mut any_accept = false;
    for v in [VCfg::V0, VCfg::V1] {
        let expected = validate(&m, cfg_of(v));
        let real = instantiate(&bytes, v, Metering::None);
        match (&expected, &real) {
            (Ok(()), Ok(_)) => {
                any_accept = true;
                ctx.class("verdict-accept");
                run_accepted(&bytes, v, &m, &mut u, ctx)?;
            }
            (Err(why), Err(_)) => {
                // `instantiate` is validate + compile: the rejection must come from validation itself
                // ("every accepted module compiles"), not from the compiler tripping over a module
                // that validate_module let through
                if wasmrun::validate_only(&bytes, v).is_ok() {
                    return Err(Violation::new(
                        "accepts-invalid",
                        format!("under {:?} validate_module accepts a module (mutations {:?}) that is not valid ({why}); only compilation rejects it", v, names),
                    )
                    .with_signature(format!("accepts-invalid-compile-rejects:{}", why.split(':').next().unwrap_or(why))));
                }
                any_reject = true;
                ctx.class("verdict-reject");
            }
            (Ok(()), Err(e)) => {
                return Err(Violation::new(
                    "rejects-valid",
                    format!("under {:?} the reference validator accepts the module (mutations {:?}) but the engine rejects it: {e:#}", v, names),
                ))
            }
            (Err(why), Ok(_)) => {
                return Err(Violation::new(
                    "accepts-invalid",
                    format!("under {:?} the engine accepts a module (mutations {:?}) that is not valid: {why}", v, names),
                )
                .with_signature(format!("accepts-invalid:{}", why.split(':').next().unwrap_or(why))))
            }
        }
    }
    if k > 0 && any_reject {
        // a mutant that still parses at the section level but is rejected for a semantic reason
        ctx.nontrivial(&(m.clone(), 0u8));
        ctx.class("rejected-mutant");
    } else if any_accept {
        ctx.nontrivial(&(m.clone(), 1u8));
    }
    ctx.sample(|| {
        format!(
            "mutations {:?}: {} funcs, {} instrs; verdict V1: {:?}",
            names,
            m.funcs.len(),
            m.instruction_count(),
            validate(&m, Config::V1)
        )
    });
    Ok(())
}

fn t_bytes(data: &[u8], ctx: &mut Ctx) -> CheckResult {
    let mut u = Unstructured::new(data);
    let mode = g::byte(&mut u) % 8;
    let mut names: Vec<&'static str> = Vec::new();
    let bytes = if mode == 0 {
        ctx.class("random-bytes");
        let mut b = vec![0x00, 0x61, 0x73, 0x6d, 0x01, 0x00, 0x00, 0x00];
        if g::boolean(&mut u) {
            b.clear();
        }
        let n = g::range_usize(&mut u, 0, 64);
        b.extend_from_slice(&g::bytes(&mut u, n));
        b
    } else {
        let m = base_module(&mut u, 40);
        let pad = if g::ratio(&mut u, 1, 4) { g::range_u64(&mut u, 1, 4) as u8 } else { 0 };
        if pad > 0 {
            ctx.class("leb-padded");
        }
        let mut b = wasmgen::encode::encode_with(&m, wasmgen::encode::EncodeOpts { leb_pad: pad });
        let k = if mode == 1 { 0 } else { g::range_usize(&mut u, 1, 4) };
        for _ in 0..k {
            names.push(wasmgen::mutate::mutate_bytes(&mut u, &mut b));
        }
        if k == 0 {
            ctx.class("unmutated");
        }
        b
    };
    for n in &names {
        ctx.class(&format!("mut:{n}"));
    }
    ctx.describe(|| format!("byte mutations {:?}; module bytes: {}", names, g::hex(&bytes)));
    let mut accepted_any = false;
    for v in [VCfg::V0, VCfg::V1] {
        // totality: a panic here is caught by the engine and reported
        let real = instantiate(&bytes, v, Metering::None);
        let with_metering = instantiate(&bytes, v, Metering::V0);
        vensure!(
            real.is_ok() == with_metering.is_ok(),
            "metering-changes-verdict",
            "under {:?}: accepted without metering = {}, with metering = {}",
            v,
            real.is_ok(),
            with_metering.is_ok()
        );
        if real.is_ok() {
            accepted_any = true;
            ctx.class("accepted");
            // soundness: our own decoder and the reference validator must accept it too
            let m = match wasmgen::decode::decode(&bytes) {
                Ok(m) => m,
                Err(e) => {
                    return Err(Violation::new(
                        "accepts-malformed",
                        format!("under {:?} the engine accepts bytes that are not a well-formed module of the supported subset: {e}", v),
                    )
                    .with_signature(format!("accepts-malformed:{e}")))
                }
            };
            if let Err(why) = validate(&m, cfg_of(v)) {
                return Err(Violation::new(
                    "accepts-invalid",
                    format!("under {:?} the engine accepts a module that is not valid: {why}\n{}", v, pretty(&m)),
                )
                .with_signature(format!("accepts-invalid:{}", why.split(':').next().unwrap_or(&why))));
            }
            run_accepted(&bytes, v, &m, &mut u, ctx)?;
        } else {
            ctx.class("rejected");
            // completeness on the decodable part: if our decoder and validator accept, so must the engine
            if let Ok(m) = wasmgen::decode::decode(&bytes) {
                if validate(&m, cfg_of(v)).is_ok() {
                    return Err(Violation::new(
                        "rejects-valid",
                        format!("under {:?} the engine rejects a module the reference accepts: {:#}\n{}", v, real.err().unwrap(), pretty(&m)),
                    ));
                }
                ctx.class("rejected-but-decodable");
            }
        }
    }
    if !names.is_empty() {
        ctx.nontrivial(&bytes);
    }
    let _ = accepted_any;
    ctx.sample(|| format!("byte mutations {:?}, {} bytes, accepted: {}", names, bytes.len(), accepted_any));
    Ok(())
}

// ------------------------------------------------------------------------------------------
// Import / export policies of the chain (v0 and v1 contracts)

fn host_table_v1() -> Vec<(&'static str, Vec<ValueType>, Option<ValueType>)> {
    use ValueType::*;
    vec![
        ("invoke", vec![I32, I32, I32], Some(I64)),
        ("write_output", vec![I32, I32, I32], Some(I32)),
        ("get_parameter_size", vec![I32], Some(I32)),
        ("get_parameter_section", vec![I32, I32, I32, I32], Some(I32)),
        ("get_policy_section", vec![I32, I32, I32], Some(I32)),
        ("log_event", vec![I32, I32], Some(I32)),
        ("get_init_origin", vec![I32], None),
        ("get_receive_invoker", vec![I32], None),
        ("get_receive_self_address", vec![I32], None),
        ("get_receive_self_balance", vec![], Some(I64)),
        ("get_receive_sender", vec![I32], None),
        ("get_receive_owner", vec![I32], None),
        ("get_receive_entrypoint_size", vec![], Some(I32)),
        ("get_receive_entrypoint", vec![I32], None),
        ("get_slot_time", vec![], Some(I64)),
        ("state_lookup_entry", vec![I32, I32], Some(I64)),
        ("state_create_entry", vec![I32, I32], Some(I64)),
        ("state_delete_entry", vec![I32, I32], Some(I32)),
        ("state_delete_prefix", vec![I32, I32], Some(I32)),
        ("state_iterate_prefix", vec![I32, I32], Some(I64)),
        ("state_iterator_next", vec![I64], Some(I64)),
        ("state_iterator_delete", vec![I64], Some(I32)),
        ("state_iterator_key_size", vec![I64], Some(I32)),
        ("state_iterator_key_read", vec![I64, I32, I32, I32], Some(I32)),
        ("state_entry_read", vec![I64, I32, I32, I32], Some(I32)),
        ("state_entry_write", vec![I64, I32, I32, I32], Some(I32)),
        ("state_entry_size", vec![I64], Some(I32)),
        ("state_entry_resize", vec![I64, I32], Some(I32)),
        ("verify_ed25519_signature", vec![I32, I32, I32, I32], Some(I32)),
        ("verify_ecdsa_secp256k1_signature", vec![I32, I32, I32], Some(I32)),
        ("hash_sha2_256", vec![I32, I32, I32], None),
        ("hash_sha3_256", vec![I32, I32, I32], None),
        ("hash_keccak_256", vec![I32, I32, I32], None),
    ]
}

fn host_table_v0() -> Vec<(&'static str, Vec<ValueType>, Option<ValueType>)> {
    use ValueType::*;
    vec![
        ("accept", vec![], Some(I32)),
        ("simple_transfer", vec![I32, I64], Some(I32)),
        ("send", vec![I64, I64, I32, I32, I64, I32, I32], Some(I32)),
        ("combine_and", vec![I32, I32], Some(I32)),
        ("combine_or", vec![I32, I32], Some(I32)),
        ("get_parameter_size", vec![], Some(I32)),
        ("get_parameter_section", vec![I32, I32, I32], Some(I32)),
        ("get_policy_section", vec![I32, I32, I32], Some(I32)),
        ("log_event", vec![I32, I32], Some(I32)),
        ("load_state", vec![I32, I32, I32], Some(I32)),
        ("write_state", vec![I32, I32, I32], Some(I32)),
        ("resize_state", vec![I32], Some(I32)),
        ("state_size", vec![], Some(I32)),
        ("get_init_origin", vec![I32], None),
        ("get_receive_invoker", vec![I32], None),
        ("get_receive_self_address", vec![I32], None),
        ("get_receive_self_balance", vec![], Some(I64)),
        ("get_receive_sender", vec![I32], None),
        ("get_receive_owner", vec![I32], None),
        ("get_slot_time", vec![], Some(I64)),
    ]
}

/// Documented rule for exported function names (both contract versions): at most 100 bytes, only
/// ASCII alphanumeric or punctuation characters. v0: every exported function must be an init name
/// (`init_` prefix, no '.') or a receive name (contains '.') and have type [i64] -> i32.
/// v1: init/receive-shaped names must have that type, other names are unconstrained.
fn export_expected(v1: bool, name: &str, ty: &FunctionType) -> bool {
    let valid_name = name.len() <= 100 && name.chars().all(|c| c.is_ascii_alphanumeric() || c.is_ascii_punctuation());
    if !valid_name {
        return false;
    }
    let entry_type = ty.parameters.as_slice() == [ValueType::I64] && ty.result == Some(ValueType::I32);
    let shaped = if name.starts_with("init_") { !name.contains('.') } else { name.contains('.') };
    if v1 {
        !shaped || entry_type
    } else {
        shaped && entry_type
    }
}

fn t_policy(data: &[u8], ctx: &mut Ctx) -> CheckResult {
    let mut u = Unstructured::new(data);
    let v1 = g::boolean(&mut u);
    let support_upgrade = g::boolean(&mut u);
    let enable_debug = g::boolean(&mut u);
    let table = if v1 { host_table_v1() } else { host_table_v0() };
    // ---- import
    let mut module = "concordium".to_string();
    let i = g::idx(&mut u, table.len() + 3);
    let (mut name, mut params, mut result): (String, Vec<ValueType>, Option<ValueType>) = if i < table.len() {
        (table[i].0.to_string(), table[i].1.clone(), table[i].2)
    } else if i == table.len() {
        ("upgrade".to_string(), vec![ValueType::I32], Some(ValueType::I64))
    } else if i == table.len() + 1 {
        ("debug_print".to_string(), vec![ValueType::I32; 6], None)
    } else {
        ("no_such_function".to_string(), vec![], None)
    };
    let mut duplicate = false;
    let deviation = g::byte(&mut u) % 10;
    match deviation {
        0 => {
            params.push(ValueType::I32);
        }
        1 => {
            params.pop();
        }
        2 => {
            result = match result {
                None => Some(ValueType::I32),
                Some(ValueType::I32) => Some(ValueType::I64),
                Some(ValueType::I64) => None,
            };
        }
        3 => {
            if !params.is_empty() {
                let k = g::idx(&mut u, params.len());
                params[k] = if params[k] == ValueType::I32 { ValueType::I64 } else { ValueType::I32 };
            }
        }
        4 => name.push('x'),
        5 => module = "env".to_string(),
        6 => duplicate = true,
        7 => name = name.to_uppercase(),
        _ => {}
    }
    ctx.class(if deviation < 8 { "import-deviation" } else { "import-exact" });
    let ty = FunctionType { parameters: params.clone(), result };
    let known = module == "concordium"
        && !duplicate
        && (table.iter().any(|(n, p, r)| *n == name && *p == params && *r == result)
            || (v1 && name == "upgrade" && support_upgrade && params == vec![ValueType::I32] && result == Some(ValueType::I64))
            || (v1 && name == "debug_print" && enable_debug && params == vec![ValueType::I32; 6] && result.is_none()));
    let got = if v1 {
        let p = concordium_smart_contract_engine::v1::ConcordiumAllowedImports { support_upgrade, enable_debug };
        p.validate_import_function(duplicate, &Name::from(module.as_str()), &Name::from(name.as_str()), &ty)
    } else {
        let p = concordium_smart_contract_engine::v0::ConcordiumAllowedImports;
        p.validate_import_function(duplicate, &Name::from(module.as_str()), &Name::from(name.as_str()), &ty)
    };
    ctx.describe(|| {
        format!("v1={v1} upgrade={support_upgrade} debug={enable_debug} import {module}.{name} {:?}->{:?} duplicate={duplicate}", params, result)
    });
    vensure!(
        got == known,
        "import-policy",
        "import {module}.{name} : {:?} -> {:?} (duplicate={duplicate}, v1={v1}, upgrade={support_upgrade}, debug={enable_debug}): policy says {got}, documented table says {known}",
        params,
        result
    );
    // ---- export
    let base = match g::byte(&mut u) % 8 {
        0 => "init_contract".to_string(),
        1 => "contract.receive".to_string(),
        2 => "init_con.tract".to_string(),
        3 => "helper".to_string(),
        4 => format!("init_{}", "x".repeat(g::range_usize(&mut u, 90, 100))),
        5 => format!("c.{}", "y".repeat(g::range_usize(&mut u, 94, 102))),
        6 => "init_a b".to_string(),
        _ => "a.b\u{7f}".to_string(),
    };
    let ety = match g::byte(&mut u) % 4 {
        0 | 1 => FunctionType { parameters: vec![ValueType::I64], result: Some(ValueType::I32) },
        2 => FunctionType { parameters: vec![ValueType::I32], result: Some(ValueType::I32) },
        _ => FunctionType { parameters: vec![ValueType::I64], result: None },
    };
    let exp = export_expected(v1, &base, &ety);
    let got = if v1 {
        let p = concordium_smart_contract_engine::v1::ConcordiumAllowedImports { support_upgrade, enable_debug };
        p.validate_export_function(&Name::from(base.as_str()), &ety)
    } else {
        let p = concordium_smart_contract_engine::v0::ConcordiumAllowedImports;
        p.validate_export_function(&Name::from(base.as_str()), &ety)
    };
    vensure!(
        got == exp,
        "export-policy",
        "export {:?} : {:?} (v1={v1}): policy says {got}, documented rule says {exp}",
        base,
        ety
    );
    ctx.nontrivial(&(v1, module, name, params.len(), deviation, base));
    ctx.sample(|| format!("v1={v1} import deviation {deviation} -> {got}"));
    Ok(())
}

/// Hand-written modules around earlier findings and limits (independent of the generator, so they
/// stay pinned when the generator changes). Each entry: name, module, expected verdict under V1.
fn regress_modules() -> Vec<(&'static str, Module, bool)> {
    use Op::*;
    let base = |body: Vec<Op>, result: Option<ValType>| {
        let mut m = Module::default();
        m.types.push(FuncType { params: vec![ValType::I32], result });
        m.funcs.push(Func { ty: 0, locals: vec![], body });
        m.exports.push(Export { name: "f".into(), kind: ExportKind::Func(0) });
        m
    };
    let mut v = vec![
        ("plain", base(vec![LocalGet(0), End], Some(ValType::I32)), true),
        ("f7-nop-after-end", base(vec![LocalGet(0), End, Nop], Some(ValType::I32)), false),
        ("f7-const-after-end", base(vec![End, I32Const(1)], None), false),
        ("f7-return-after-end", base(vec![LocalGet(0), Br(0), End, Return], Some(ValType::I32)), false),
        ("f7-global-get-after-end", {
            let mut m = base(vec![End, GlobalGet(0)], None);
            m.globals.push(Global { ty: ValType::I32, mutable: false, init: ConstExpr::I32(0) });
            m
        }, false),
        ("f7-call-after-end", {
            let mut m = base(vec![End, Call(1)], None);
            m.types.push(FuncType { params: vec![], result: None });
            m.funcs.push(Func { ty: 1, locals: vec![], body: vec![End] });
            m
        }, false),
        ("missing-end", base(vec![LocalGet(0)], Some(ValType::I32)), false),
        ("if-result-without-else", base(vec![LocalGet(0), If(BlockType::Val(ValType::I32)), I32Const(1), End, End], Some(ValType::I32)), false),
        ("locals-1024", {
            let mut m = base(vec![End], None);
            m.funcs[0].locals.push((1023, ValType::I64));
            m
        }, true),
        ("locals-1025", {
            let mut m = base(vec![End], None);
            m.funcs[0].locals.push((1024, ValType::I64));
            m
        }, false),
        ("memory-32-pages", { let mut m = base(vec![End], None); m.memory = Some(Limits { min: 32, max: None }); m }, true),
        ("memory-33-pages", { let mut m = base(vec![End], None); m.memory = Some(Limits { min: 33, max: None }); m }, false),
        ("table-1000", { let mut m = base(vec![End], None); m.table = Some(Limits { min: 1000, max: None }); m }, true),
        ("table-1001", { let mut m = base(vec![End], None); m.table = Some(Limits { min: 1001, max: None }); m }, false),
        ("start-section", { let mut m = base(vec![End], None); m.start = Some(0); m }, false),
        ("elem-negative-offset", {
            let mut m = base(vec![End], None);
            m.table = Some(Limits { min: 2, max: None });
            m.elems.push(Elem { offset: ConstExpr::I32(-1), funcs: vec![0] });
            m
        }, false),
        ("data-at-end-of-memory", {
            let mut m = base(vec![End], None);
            m.memory = Some(Limits { min: 1, max: Some(1) });
            m.datas.push(Data { offset: ConstExpr::I32(65532), bytes: vec![1, 2, 3, 4] });
            m
        }, true),
        ("data-one-past-end", {
            let mut m = base(vec![End], None);
            m.memory = Some(Limits { min: 1, max: Some(1) });
            m.datas.push(Data { offset: ConstExpr::I32(65533), bytes: vec![1, 2, 3, 4] });
            m
        }, false),
    ];
    // stack height boundary: locals (1 param) + k pushes <= 1024
    for (k, ok) in [(1023usize, true), (1024, false)] {
        let mut body = Vec::new();
        for _ in 0..k {
            body.push(I32Const(0));
        }
        for _ in 0..k {
            body.push(Drop);
        }
        body.push(End);
        v.push((if ok { "stack-1023-plus-1-local" } else { "stack-1024-plus-1-local" }, base(body, None), ok));
    }
    v
}

fn t_regress(data: &[u8], ctx: &mut Ctx) -> CheckResult {
    let mut u = Unstructured::new(data);
    let ms = regress_modules();
    let i = g::idx(&mut u, ms.len());
    let (name, m, expect) = &ms[i];
    ctx.class(name);
    ctx.describe(|| format!("{name}\n{}", pretty(m)));
    let bytes = wasmgen::encode::encode(m);
    let reference = validate(m, Config::V1).is_ok();
    vensure!(reference == *expect, "harness", "reference validator verdict for {name} is {reference}, expected {expect}");
    for v in [VCfg::V0, VCfg::V1] {
        for mt in [Metering::None, Metering::V1] {
            let got = instantiate(&bytes, v, mt).is_ok();
            vensure!(
                got == *expect,
                if *expect { "rejects-valid" } else { "accepts-invalid" },
                "module {name} under {:?}/{:?}: engine verdict accepted={got}, expected accepted={expect}",
                v,
                mt
            );
        }
    }
    if *expect {
        run_accepted(&bytes, VCfg::V1, m, &mut u, ctx)?;
    }
    ctx.nontrivial(&i);
    Ok(())
}

pub fn property() -> Property {
    Property {
        id: "C09",
        rule: "Target ast: a valid-by-construction module plus 0-3 AST-level mutations (instruction replace/insert/delete/swap, index and label retargeting, block types, limits at and beyond each documented bound, start section, exports, globals, segments, names, float and other unsupported opcodes); the engine's verdict under V0 and V1 must equal the independent reference validator's, every accepted module must also compile with metering, and each of its exports is executed with boundary arguments under 20000 energy with the interpreter's bounds assertions (hook H1) enabled. Target bytes: encodings (optionally with over-long LEB128) damaged at byte level, and random bytes: parse/validate/compile must return without panic, the verdict must not depend on metering, anything accepted must decode with the independent decoder and pass the reference validator, anything rejected must not be accepted by them, and accepted modules are executed as above. Target policy: import and export policies of v0/v1 contracts against a transcription of the host function table and the export naming rule, with one-step deviations. Non-trivial = mutated case (rejected for a semantic reason or accepted and executed); distinct by module / bytes.",
        assumptions: &[
            "the iff is relative to the harness's reference validator and decoder, written from the WebAssembly 1.0 spec and the documented chain restrictions (see DESIGN.md C09, limits)",
            "out-of-bounds accesses are observed through the guarded assertions of hook H1 in machine.rs (and Rust's checked indexing elsewhere), not through a sanitizer",
            "parse_artifact on untrusted bytes is outside the claim (documented as trusted-source only)",
        ],
        targets: vec![
            Target::new("ast", t_ast).len(48, 1024).cases(50_000, 3_000_000).floors(&[
                ("verdict-accept", 0.15),
                ("rejected-mutant", 0.15),
                ("executed-accepted", 0.10),
            ]),
            Target::new("bytes", t_bytes).len(32, 768).cases(80_000, 5_000_000).floors(&[("accepted", 0.03), ("rejected", 0.3)]),
            Target::new("policy", t_policy).len(8, 32).cases(40_000, 400_000),
            Target::new("regress", t_regress).len(2, 16).cases(2_000, 20_000),
        ],
    }
}
