//! C01: compiled Wasm execution conforms to WebAssembly semantics.
//! Differential: generated valid modules run on the real engine (compile + register machine)
//! under {V0,V1} x {no metering, cost V0, cost V1} against the reference interpreter.
use vcore::{gen as g, vensure, CheckResult, Ctx, Property, Target, Unstructured, Violation};
use wasmgen::ast::*;
use wasmgen::gen::{gen_args, gen_module, GenConfig};
use wasmgen::hostmodel::std_imports;
use wasmgen::interp::{prepare, Instance, Outcome, Trap};
use wasmgen::util::{add_global_digests, ModelHost};
use wasmrun::{instantiate, to_values, Metering, RealOutcome, RecHost, VCfg};

pub struct Case {
    pub vcfg:    VCfg,
    pub module:  Module,
    pub func:    usize,
    pub args:    Vec<u64>,
}

pub fn decode_case(u: &mut Unstructured, max_body: usize) -> Case {
    let vcfg = if g::boolean(u) { VCfg::V1 } else { VCfg::V0 };
    let cfg = GenConfig {
        sign_ext: vcfg == VCfg::V1,
        globals_in_offsets: vcfg == VCfg::V0,
        imports: if g::ratio(u, 3, 4) { std_imports() } else { Vec::new() },
        max_body,
        ..GenConfig::default()
    };
    let gen = gen_module(u, &cfg);
    let mut module = gen.module;
    let nf = module.funcs.len();
    add_global_digests(&mut module);
    let func = g::idx(u, nf);
    let ty = module.types[module.funcs[func].ty as usize].clone();
    let args = gen_args(u, &ty);
    Case { vcfg, module, func, args }
}

fn uses_sign_ext(m: &Module) -> bool {
    m.funcs.iter().any(|f| f.body.iter().any(|o| matches!(o, Op::Num(n) if n.is_sign_extension())))
}

fn uses_global_offsets(m: &Module) -> bool {
    m.datas.iter().any(|d| matches!(d.offset, ConstExpr::GlobalGet(_)))
        || m.elems.iter().any(|d| matches!(d.offset, ConstExpr::GlobalGet(_)))
}

struct RefRun {
    outcome: Outcome,
    memory:  Vec<u8>,
    log:     Vec<(String, Vec<u64>)>,
    stats:   wasmgen::interp::Stats,
}

fn ref_run(m: &Module, prep: &wasmgen::interp::Prepared, fidx: u32, args: &[u64]) -> RefRun {
    let mut inst = Instance::new(m, prep, None);
    inst.fuel = 200_000;
    let mut host = ModelHost::new(m);
    let outcome = inst.run(fidx, args, &mut host);
    RefRun { outcome, memory: std::mem::take(&mut inst.memory), log: host.model.log, stats: inst.stats }
}

fn describe(c: &Case) -> String {
    format!(
        "config {:?}, export f{} (and digest wrapper g{}), args {:?}\n{}",
        c.vcfg,
        c.func,
        c.func,
        c.args,
        pretty(&c.module)
    )
}

fn compare(
    what: &str,
    cfg: (VCfg, Metering),
    r: &RefRun,
    real: &RealOutcome,
    real_log: &[(String, Vec<u64>)],
    compare_memory: bool,
) -> CheckResult {
    match (&r.outcome, real) {
        (Outcome::Done(v), RealOutcome::Done { result, memory }) => {
            vensure!(
                v == result,
                "result",
                "{what} under {cfg:?}: reference result {:?}, engine result {:?}",
                v,
                result
            );
            if compare_memory {
                vensure!(
                    r.memory.len() == memory.len(),
                    "memory-size",
                    "{what} under {cfg:?}: reference memory {} bytes, engine {} bytes",
                    r.memory.len(),
                    memory.len()
                );
                if r.memory != *memory {
                    let i = r.memory.iter().zip(memory.iter()).position(|(a, b)| a != b).unwrap();
                    return Err(Violation::new(
                        "memory",
                        format!(
                            "{what} under {cfg:?}: final memory differs at byte {i}: reference {:#x}, engine {:#x}",
                            r.memory[i], memory[i]
                        ),
                    ));
                }
            }
        }
        (Outcome::Trap(t), RealOutcome::Trap(_)) => {
            let _ = t;
        }
        (o, real) => {
            let sig = match (o, real) {
                (Outcome::Trap(t), _) => format!("trap-mismatch:ref-{:?}:engine-{}", t, real.kind()),
                (Outcome::Done(_), _) => format!("trap-mismatch:ref-done:engine-{}", real.kind()),
            };
            let detail = match real {
                RealOutcome::Trap(s) => format!("engine trapped with '{s}'"),
                other => format!("engine outcome {}", other.kind()),
            };
            return Err(Violation::new(
                "trap",
                format!("{what} under {cfg:?}: reference outcome {:?} (trap at {:?}), {detail}", o, r.stats.trap_at),
            )
            .with_signature(sig));
        }
    }
    vensure!(
        r.log == real_log,
        "host-calls",
        "{what} under {cfg:?}: host call sequences differ: reference {:?} engine {:?}",
        r.log,
        real_log
    );
    Ok(())
}

fn check_case(c: &Case, ctx: &mut Ctx) -> CheckResult {
    ctx.describe(|| describe(c));
    let m = &c.module;
    let prep = match prepare(m) {
        Some(p) => p,
        None => return Err(Violation::new("harness", "generator produced an ill-nested body")),
    };
    let nimports = m.imports.len() as u32;
    let nf = (m.funcs.len() / 2) as u32;
    let f_idx = nimports + c.func as u32;
    let g_idx = nimports + nf + c.func as u32;
    let fty = m.types[m.funcs[c.func].ty as usize].clone();
    let rf = ref_run(m, &prep, f_idx, &c.args);
    if rf.outcome == Outcome::Trap(Trap::Fuel) {
        ctx.class("ref-out-of-fuel");
        return Ok(());
    }
    let rg = ref_run(m, &prep, g_idx, &c.args);

    // classification
    let s = &rf.stats;
    match &rf.outcome {
        Outcome::Done(_) => ctx.class("done"),
        Outcome::Trap(t) => ctx.class(&format!("trap-{:?}", t)),
    }
    let mut nontrivial = false;
    if s.taken_brif > 0 && s.nottaken_brif > 0 {
        ctx.class("brif-both");
        nontrivial = true;
    }
    if s.carried_branches > 0 {
        ctx.class("carried-branch");
        nontrivial = true;
    }
    if s.carried_brif_nottaken > 0 {
        ctx.class("carried-brif-not-taken");
    }
    if s.calls > 0 {
        ctx.class("call");
        nontrivial = true;
    }
    if s.host_calls > 0 {
        ctx.class("host-call");
    }
    if s.loop_backedges > 0 {
        ctx.class("loop-backedge");
        nontrivial = true;
    }
    if s.br_tables > 0 {
        ctx.class("br-table");
    }
    if s.local_writes > 0 {
        ctx.class("local-write");
    }
    if s.mem_grows > 0 {
        ctx.class("memory-grow");
    }
    if m.funcs.iter().any(|f| has_dead_code(&f.body)) {
        ctx.class("has-dead-code");
    }
    if nontrivial {
        ctx.nontrivial(&(c.module.clone(), c.func, c.args.clone(), c.vcfg));
    }
    ctx.sample(|| {
        format!(
            "{:?} f{} args {:?}: {} instrs, ref outcome {:?}, steps {}, brif {}/{} carried {} calls {} loops {}",
            c.vcfg,
            c.func,
            c.args,
            m.instruction_count(),
            rf.outcome,
            s.steps,
            s.taken_brif,
            s.nottaken_brif,
            s.carried_branches,
            s.calls,
            s.loop_backedges
        )
    });

    let bytes = wasmgen::encode::encode(m);
    let mut vcfgs = vec![c.vcfg];
    if !uses_sign_ext(m) && !uses_global_offsets(m) {
        vcfgs.push(if c.vcfg == VCfg::V0 { VCfg::V1 } else { VCfg::V0 });
        ctx.class("both-validation-configs");
    }
    let args = to_values(&fty.params, &c.args);
    for v in vcfgs {
        for metering in [Metering::None, Metering::V0, Metering::V1] {
            let art = match instantiate(&bytes, v, metering) {
                Ok(a) => a,
                Err(e) => {
                    return Err(Violation::new(
                        "accepts-valid",
                        format!("valid-by-construction module rejected under {:?}/{:?}: {:#}", v, metering, e),
                    ))
                }
            };
            let fname = format!("f{}", c.func);
            let mut host = RecHost::new(u64::MAX / 2);
            let (out, _) = wasmrun::run(&art, &fname, &args, &mut host, 100_000_000);
            compare(&fname, (v, metering), &rf, &out, &host.model.log, true)?;
            if rg.outcome != Outcome::Trap(Trap::Fuel) {
                let gname = format!("g{}", c.func);
                let mut host = RecHost::new(u64::MAX / 2);
                let (out, _) = wasmrun::run(&art, &gname, &args, &mut host, 100_000_000);
                compare(&gname, (v, metering), &rg, &out, &host.model.log, false)
                    .map_err(|mut e| {
                        e.oracle = format!("globals/{}", e.oracle);
                        e
                    })?;
            }
        }
    }
    Ok(())
}

fn has_dead_code(body: &[Op]) -> bool {
    body.windows(2).any(|w| {
        matches!(w[0], Op::Br(_) | Op::Return | Op::Unreachable | Op::BrTable(..)) && !matches!(w[1], Op::End | Op::Else)
    })
}

fn t_diff(data: &[u8], ctx: &mut Ctx) -> CheckResult {
    let mut u = Unstructured::new(data);
    let c = decode_case(&mut u, 150);
    check_case(&c, ctx)
}

fn t_diff_small(data: &[u8], ctx: &mut Ctx) -> CheckResult {
    let mut u = Unstructured::new(data);
    let c = decode_case(&mut u, 30);
    check_case(&c, ctx)
}

/// Hand-written programs around defects found earlier (F1..F6 in DESIGN.md), run with generated
/// arguments through the same differential oracle.
pub fn regress_programs() -> Vec<(&'static str, FuncType, Vec<(u32, ValType)>, Vec<Op>)> {
    use BlockType as B;
    use Op::*;
    use ValType::*;
    let t = |p: Vec<ValType>, r: Option<ValType>| FuncType { params: p, result: r };
    vec![
        ("f1-brif-function-label", t(vec![I32, I32], Some(I32)), vec![], vec![
            I32Const(5), LocalGet(1), BrIf(0), Drop, LocalGet(0), End,
        ]),
        ("f2-brif-block-result-reused", t(vec![I32, I32], Some(I32)), vec![], vec![
            Block(B::Val(I32)), I32Const(10), LocalGet(0), BrIf(0), I32Const(3), LocalGet(1), BrIf(0), Num(NumOp::I32Sub), End, End,
        ]),
        ("f2b-brif-drop-reuse", t(vec![I32, I32], Some(I32)), vec![], vec![
            Block(B::Val(I32)), I32Const(10), LocalGet(0), BrIf(0), Drop, I32Const(4), I32Const(16), Num(NumOp::I32Add),
            I32Const(7), LocalGet(1), BrIf(0), Drop, End, End,
        ]),
        ("f3-rem-s-32", t(vec![I32, I32], Some(I32)), vec![], vec![LocalGet(0), LocalGet(1), Num(NumOp::I32RemS), End]),
        ("f3-rem-s-64", t(vec![I64, I64], Some(I64)), vec![], vec![LocalGet(0), LocalGet(1), Num(NumOp::I64RemS), End]),
        ("f3-div-s-32", t(vec![I32, I32], Some(I32)), vec![], vec![LocalGet(0), LocalGet(1), Num(NumOp::I32DivS), End]),
        ("f3-div-s-64", t(vec![I64, I64], Some(I64)), vec![], vec![LocalGet(0), LocalGet(1), Num(NumOp::I64DivS), End]),
        ("f5-local-on-stack-set-in-loop", t(vec![I32, I32], Some(I32)), vec![(1, I32)], vec![
            LocalGet(0), Block(B::Empty), Loop(B::Empty), LocalGet(0), I32Const(1), Num(NumOp::I32Add), LocalSet(0),
            LocalGet(2), I32Const(1), Num(NumOp::I32Add), LocalTee(2), I32Const(3), Num(NumOp::I32LtU), BrIf(0), End, End,
            LocalGet(0), Num(NumOp::I32Sub), End,
        ]),
        ("f6-local-on-stack-set-skipped-by-branch", t(vec![I32, I32], Some(I32)), vec![], vec![
            LocalGet(0), Block(B::Empty), LocalGet(1), BrIf(0), I32Const(5), LocalSet(0), End, LocalGet(0), Num(NumOp::I32Sub), End,
        ]),
        ("f6b-local-on-stack-set-in-if", t(vec![I32, I32], Some(I32)), vec![], vec![
            LocalGet(0), LocalGet(1), If(B::Empty), I32Const(5), LocalSet(0), End, LocalGet(0), Num(NumOp::I32Sub), End,
        ]),
        ("f6c-local-on-stack-tee-in-else", t(vec![I64, I32], Some(I64)), vec![], vec![
            LocalGet(0), LocalGet(1), If(B::Val(I64)), I64Const(1), Else, I64Const(9), LocalTee(0), End, Num(NumOp::I64Add),
            LocalGet(0), Num(NumOp::I64Add), End,
        ]),
        ("f6d-local-cond-of-if", t(vec![I32, I32], Some(I32)), vec![], vec![
            LocalGet(1), LocalGet(0), If(B::Empty), I32Const(5), LocalSet(1), I32Const(0), LocalSet(0), End, LocalGet(0), Num(NumOp::I32Add), End,
        ]),
    ]
}

fn t_regress(data: &[u8], ctx: &mut Ctx) -> CheckResult {
    let mut u = Unstructured::new(data);
    let progs = regress_programs();
    let i = g::idx(&mut u, progs.len());
    let (name, ty, locals, body) = progs[i].clone();
    let mut module = Module::default();
    module.types.push(ty.clone());
    module.funcs.push(Func { ty: 0, locals, body });
    module.exports.push(Export { name: "f0".into(), kind: ExportKind::Func(0) });
    add_global_digests(&mut module);
    let args = gen_args(&mut u, &ty);
    ctx.class(name);
    let c = Case { vcfg: if g::boolean(&mut u) { VCfg::V1 } else { VCfg::V0 }, module, func: 0, args };
    ctx.nontrivial(&(i, c.args.clone()));
    check_case(&c, ctx)
}

pub fn property() -> Property {
    Property {
        id: "C01",
        rule: "Typed generator (wasmgen) builds valid-by-construction modules (1-4 functions, optional memory/table/globals/host imports) from the choice sequence; one export and boundary-value arguments are run on the engine under {V0,V1} x {no metering, cost V0, cost V1} and compared with an independent reference interpreter: result, trap/no-trap, final memory byte-for-byte, host call sequence, and final globals (through a digest wrapper function). Non-trivial = the reference execution took both a taken and a not-taken br_if, or a carried-value branch, or a call, or a loop back-edge; distinct by (module, export, args, config).",
        assumptions: &[
            "agreement is with the harness's reading of the WebAssembly 1.0 integer semantics (wasmgen::interp); disagreements are triaged against the spec text",
            "floats are outside the engine (rejected by the parser) and outside the generator",
            "reference executions exceeding 200k steps are skipped (counted as ref-out-of-fuel)",
        ],
        targets: vec![
            Target::new("diff", t_diff).len(64, 2048).cases(60_000, 4_000_000).floors(&[
                ("brif-both", 0.05),
                ("carried-branch", 0.05),
                ("call", 0.05),
                ("has-dead-code", 0.05),
            ]),
            Target::new("diff-small", t_diff_small).len(16, 256).cases(60_000, 4_000_000),
            Target::new("regress", t_regress).len(4, 32).cases(4_000, 100_000),
        ],
    }
}
