pub fn x(){ let _ = concordium_wasm::machine::verif::steps(); }
