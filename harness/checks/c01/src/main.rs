fn main() { vcore::main(c01::property()) }
