//! Target `bytes`: totality, bounded allocation and decode-side consistency on mutated / random
//! input, for every decoder, under both `UnknownMapKeys` settings.
use crate::derived::*;
use crate::gen::{self, Opt};
use crate::model::*;
use crate::typed::{enc, opts};
use concordium_base::common::cbor::{
    cbor_decode_with_options, value::Value, Bytes, CborDeserialize, CborMaybeKnown, CborSerialize, DecimalFraction, MapKey,
    UnsignedDecimalFraction,
};
use concordium_base::common::upward::CborUpward;
use concordium_base::protocol_level_tokens::*;
use std::collections::HashMap;
use vcore::gen::*;
use vcore::{CheckResult, Ctx, Unstructured, Violation};

pub const MAX_DEPTH: usize = 64;

fn alloc_bound(len: usize) -> usize { 64 * len + (1 << 20) }

const HEAD_BYTES: [u8; 40] = [
    0x00, 0x17, 0x18, 0x19, 0x1a, 0x1b, 0x1c, 0x1f, 0x20, 0x3b, 0x40, 0x58, 0x5b, 0x5f, 0x60, 0x78, 0x7b, 0x7f, 0x80, 0x81, 0x98, 0x9b, 0x9f, 0xa0,
    0xa1, 0xb8, 0xbb, 0xbf, 0xc2, 0xc4, 0xd8, 0xd9, 0xdb, 0xf4, 0xf6, 0xf8, 0xf9, 0xfb, 0xff, 0xe0,
];

fn seed(u: &mut Unstructured, ctx: &mut Ctx) -> Vec<u8> {
    match byte(u) % 16 {
        0 => {
            ctx.class("seed:random");
            let n = range_usize(u, 0, 48);
            bytes(u, n)
        }
        1 | 2 => {
            ctx.class("seed:head-soup");
            // a sequence of heads with arguments from the boundary table (inflated lengths etc.)
            let n = range_usize(u, 1, 12);
            let mut out = Vec::new();
            for _ in 0..n {
                match byte(u) % 4 {
                    0 => out.push(*choose(u, &HEAD_BYTES)),
                    1 => {
                        let major = byte(u) % 8;
                        let mut s = gen::Sloppy::default();
                        let mut tmp = Vec::new();
                        let a = gen::arg(u);
                        // reuse the sloppy head writer through a Pos item, then patch the major type
                        gen::encode_sloppy(&mut tmp, &M::Pos(a), u, &mut s);
                        tmp[0] = (tmp[0] & 0x1f) | (major << 5);
                        out.extend_from_slice(&tmp);
                    }
                    2 => out.extend_from_slice(&short_bytes(u, 6)),
                    _ => {
                        let mut fuel = 4usize;
                        let m = gen::tree(u, &mut fuel, 2, Opt { nan_ok: true, long_ok: false, dup_ok: true });
                        encode_into(&mut out, &m);
                    }
                }
            }
            out
        }
        3 => {
            ctx.class("seed:deep-nesting");
            // around the depth limit of the claim, to exercise the scanner and the skip path
            let d = *choose(u, &[60usize, 63, 64, 65, 66, 80, 200]);
            let mut out = Vec::new();
            let kind = byte(u) % 5;
            for i in 0..d {
                match if kind == 4 { (i % 4) as u8 } else { kind } {
                    0 => out.push(0x81),
                    1 => out.push(0xc1),
                    2 => out.extend_from_slice(&[0xa1, 0x00]),
                    _ => out.push(0x9f),
                }
            }
            out.push(0x00);
            if boolean(u) {
                // close the indefinite arrays
                let opens = out.iter().filter(|b| **b == 0x9f).count();
                out.extend(std::iter::repeat(0xff).take(opens));
            }
            out
        }
        4..=8 => {
            ctx.class("seed:value");
            let mut fuel = range_usize(u, 1, 24);
            let m = gen::tree(u, &mut fuel, 6, Opt { nan_ok: true, long_ok: false, dup_ok: true });
            if boolean(u) {
                encode(&canon(&m))
            } else {
                let mut s = gen::Sloppy::default();
                let mut out = Vec::new();
                gen::encode_sloppy(&mut out, &m, u, &mut s);
                out
            }
        }
        9..=12 => {
            ctx.class("seed:token-type");
            let m = crate::tokens::seed_model(u);
            if byte(u) % 4 == 0 {
                let mut s = gen::Sloppy::default();
                let mut out = Vec::new();
                gen::encode_sloppy(&mut out, &gen::shuffle_maps(&m, u), u, &mut s);
                out
            } else {
                encode(&canon(&m))
            }
        }
        _ => {
            ctx.class("seed:derive-type");
            encode(&canon(&crate::derived::seed_model(u)))
        }
    }
}

fn mutate(b: &mut Vec<u8>, u: &mut Unstructured, ctx: &mut Ctx) {
    let n = match byte(u) % 8 {
        0 | 1 => 0,
        2..=5 => 1,
        6 => 2,
        _ => range_usize(u, 2, 5),
    };
    if n == 0 {
        ctx.class("mutations:0");
    } else {
        ctx.class("mutations:1+");
    }
    for _ in 0..n {
        let len = b.len();
        match byte(u) % 10 {
            0 if len > 0 => b.truncate(range_usize(u, 0, len - 1)),
            1 if len > 0 => {
                let i = idx(u, len);
                b[i] ^= 1 << (byte(u) % 8);
            }
            2 if len > 0 => {
                let i = idx(u, len);
                b[i] = *choose(u, &HEAD_BYTES);
            }
            3 => {
                let i = range_usize(u, 0, len);
                let ins = short_bytes(u, 5);
                b.splice(i..i, ins);
            }
            4 if len > 0 => {
                let i = idx(u, len);
                let j = range_usize(u, i, len.min(i + 8));
                b.drain(i..j);
            }
            5 if len > 0 => {
                // duplicate a range (duplicate keys / extra elements)
                let i = idx(u, len);
                let j = range_usize(u, i, len.min(i + 40));
                let part = b[i..j].to_vec();
                b.splice(j..j, part);
            }
            6 if len > 0 => {
                // inflate: turn the byte into a head with an 8/4/2-byte argument of all ones
                let i = idx(u, len);
                let major = b[i] & 0xe0;
                let w = *choose(u, &[1usize, 2, 4, 8]);
                let ai = match w {
                    1 => 24,
                    2 => 25,
                    4 => 26,
                    _ => 27,
                };
                let fill = *choose(u, &[0xffu8, 0x7f, 0x00, 0x10]);
                let mut ins = vec![major | ai];
                ins.extend(std::iter::repeat(fill).take(w));
                if boolean(u) {
                    b.splice(i..=i, ins);
                } else {
                    b.splice(i..i, ins);
                }
            }
            7 if len > 0 => {
                // make a container indefinite / inject a break
                let i = idx(u, len);
                if b[i] >> 5 >= 2 && b[i] >> 5 <= 5 {
                    b[i] |= 0x1f;
                } else {
                    b.insert(i, 0xff);
                }
            }
            8 => b.extend_from_slice(&short_bytes(u, 4)),
            _ => {
                b.push(*choose(u, &HEAD_BYTES));
            }
        }
    }
}

struct Env<'a> {
    input:    &'a [u8],
    /// end of the first data item, if the independent strict decoder finds a well-formed one
    first:    Option<usize>,
    accepted: u32,
}

fn probe<T>(name: &'static str, env: &mut Env, ctx: &mut Ctx) -> CheckResult
where
    T: CborSerialize + CborDeserialize + std::fmt::Debug,
{
    let input = env.input;
    for fail in [false, true] {
        let (r, rep) = vcore::alloc::measure(|| cbor_decode_with_options::<T>(input, opts(fail)).map_err(|e| e.to_string()));
        if rep.peak > alloc_bound(input.len()) {
            return Err(Violation::new(
                "bounded-allocation",
                format!(
                    "decoding {} bytes as {} (UnknownMapKeys::{}) allocated a peak of {} bytes (largest single request {}), bound {}; input {}",
                    input.len(),
                    name,
                    if fail { "Fail" } else { "Ignore" },
                    rep.peak,
                    rep.max_single,
                    alloc_bound(input.len()),
                    crate::hex_cut(input)
                ),
            )
            .with_signature(format!("bounded-allocation:{}", name)));
        }
        if let Ok(t) = r {
            env.accepted += 1;
            if !fail {
                ctx.class_n(&format!("accepted:{}", name), 1);
            }
            // trailing data: the strict decoder's first item ends before the end of the input
            if let Some(n) = env.first {
                if n < input.len() {
                    return Err(Violation::new(
                        "trailing-data",
                        format!("{}: the first data item ends at offset {} of {} but the input was accepted as {:?}; input {}", name, n, input.len(), t, crate::hex_cut(input)),
                    )
                    .with_signature(format!("trailing-data:{}", name)));
                }
            }
            // whatever was accepted re-encodes, and the encoding is a fixed point
            let e = enc(&t).map_err(|e| {
                Violation::new("encode-total", format!("{}: accepted {} as {:?} but that value fails to encode: {}", name, crate::hex_cut(input), t, e))
                    .with_signature(format!("encode-total:{}", name))
            })?;
            match cbor_decode_with_options::<T>(&e, opts(fail)) {
                Ok(t2) => {
                    let e2 = enc(&t2).map_err(|e| Violation::new("encode-total", format!("{}: {}", name, e)))?;
                    if e2 != e {
                        return Err(Violation::new(
                            "decode-encode-fixed-point",
                            format!("{}: input {} -> {:?} -> {} -> {:?} -> {}", name, crate::hex_cut(input), t, crate::hex_cut(&e), t2, crate::hex_cut(&e2)),
                        )
                        .with_signature(format!("decode-encode-fixed-point:{}", name)));
                    }
                }
                Err(err) => {
                    return Err(Violation::new(
                        "own-encoding-rejected",
                        format!("{}: input {} -> {:?} -> {} -> rejected: {}", name, crate::hex_cut(input), t, crate::hex_cut(&e), err),
                    )
                    .with_signature(format!("own-encoding-rejected:{}", name)))
                }
            }
        }
    }
    Ok(())
}

pub fn t_bytes(data: &[u8], ctx: &mut Ctx) -> CheckResult {
    let mut u = Unstructured::new(data);
    let u = &mut u;
    let mut input = seed(u, ctx);
    mutate(&mut input, u, ctx);
    if input.len() > 4000 {
        // keeps every string below the 4096-byte chunk size (finding C17-F1 cannot be reached)
        input.truncate(4000);
    }
    let depth = scan_depth(&input);
    ctx.describe(|| format!("{} bytes, scanner depth {}: {}", input.len(), depth, crate::hex_cut(&input)));
    if depth > MAX_DEPTH {
        ctx.class("skipped:depth>64");
        return Ok(());
    }
    if depth >= 32 {
        ctx.class("depth:32-64");
    }
    let strict = decode_one(&input);
    let first = match &strict {
        Ok((_, n, f)) => {
            debug_assert!(f.depth <= depth, "scanner depth {} below decoder depth {}", depth, f.depth);
            if *n == input.len() {
                ctx.class("strict:well-formed-complete");
            } else {
                ctx.class("strict:well-formed+trailing");
            }
            Some(*n)
        }
        Err(_) => {
            ctx.class("strict:malformed");
            None
        }
    };
    ctx.sample(|| format!("{} bytes depth {} strict {:?}: {}", input.len(), depth, strict.as_ref().map(|x| x.1).map_err(|e| e.clone()), crate::hex_cut(&input)));
    let mut env = Env { input: &input, first, accepted: 0 };

    // the generic data model, with the differential against the strict decoder
    {
        let (r, rep) = vcore::alloc::measure(|| cbor_decode_with_options::<Value>(&input, opts(false)).map_err(|e| e.to_string()));
        if rep.peak > alloc_bound(input.len()) {
            return Err(Violation::new(
                "bounded-allocation",
                format!("decoding {} bytes as Value allocated a peak of {} bytes, bound {}; input {}", input.len(), rep.peak, alloc_bound(input.len()), crate::hex_cut(&input)),
            )
            .with_signature("bounded-allocation:Value"));
        }
        match (&strict, &r) {
            (Ok((m, n, _)), Ok(v)) if *n == input.len() => {
                let dm = from_value(v);
                if !crate::eq_mod_nan(&dm, m) {
                    vcore::vfail!("differential", "input {} : crate decodes {} , reference decodes {}", crate::hex_cut(&input), diag(&dm), diag(m));
                }
            }
            (Ok((m, n, _)), Err(e)) if *n == input.len() => {
                vcore::vfail!("well-formed-accepted", "well-formed item {} = {} rejected by cbor_decode::<Value>: {}", crate::hex_cut(&input), diag(m), e);
            }
            (Err(e), Ok(v)) => {
                // leniency of the crate's reader; recorded, not a violation
                ctx.class(&format!("lenient:strict-says-{:?}", e));
                let _ = v;
            }
            _ => {}
        }
    }
    probe::<Value>("Value", &mut env, ctx)?;
    probe::<TokenOperations>("TokenOperations", &mut env, ctx)?;
    probe::<TokenOperation>("TokenOperation", &mut env, ctx)?;
    probe::<CborUpward<TokenOperation>>("CborUpward<TokenOperation>", &mut env, ctx)?;
    probe::<TokenAmount>("TokenAmount", &mut env, ctx)?;
    probe::<CoinInfo>("CoinInfo", &mut env, ctx)?;
    probe::<CborHolderAccount>("CborHolderAccount", &mut env, ctx)?;
    probe::<CborMemo>("CborMemo", &mut env, ctx)?;
    probe::<TokenTransfer>("TokenTransfer", &mut env, ctx)?;
    probe::<TokenSupplyUpdateDetails>("TokenSupplyUpdateDetails", &mut env, ctx)?;
    probe::<TokenListUpdateDetails>("TokenListUpdateDetails", &mut env, ctx)?;
    probe::<TokenPauseDetails>("TokenPauseDetails", &mut env, ctx)?;
    probe::<TokenListUpdateEventDetails>("TokenListUpdateEventDetails", &mut env, ctx)?;
    probe::<MetadataUrl>("MetadataUrl", &mut env, ctx)?;
    probe::<TokenModuleState>("TokenModuleState", &mut env, ctx)?;
    probe::<TokenModuleAccountState>("TokenModuleAccountState", &mut env, ctx)?;
    probe::<TokenModuleInitializationParameters>("TokenModuleInitializationParameters", &mut env, ctx)?;
    probe::<AddressNotFoundRejectReason>("AddressNotFoundRejectReason", &mut env, ctx)?;
    probe::<TokenBalanceInsufficientRejectReason>("TokenBalanceInsufficientRejectReason", &mut env, ctx)?;
    probe::<DeserializationFailureRejectReason>("DeserializationFailureRejectReason", &mut env, ctx)?;
    probe::<UnsupportedOperationRejectReason>("UnsupportedOperationRejectReason", &mut env, ctx)?;
    probe::<OperationNotPermittedRejectReason>("OperationNotPermittedRejectReason", &mut env, ctx)?;
    probe::<MintWouldOverflowRejectReason>("MintWouldOverflowRejectReason", &mut env, ctx)?;
    probe::<DNamed>("DNamed", &mut env, ctx)?;
    probe::<DTuple>("DTuple", &mut env, ctx)?;
    probe::<DWrapTag>("DWrapTag", &mut env, ctx)?;
    probe::<DTagged>("DTagged", &mut env, ctx)?;
    probe::<DOther>("DOther", &mut env, ctx)?;
    probe::<EMap>("EMap", &mut env, ctx)?;
    probe::<CborMaybeKnown<EMap>>("CborMaybeKnown<EMap>", &mut env, ctx)?;
    probe::<EMapOther>("EMapOther", &mut env, ctx)?;
    probe::<ETag>("ETag", &mut env, ctx)?;
    probe::<CborMaybeKnown<ETag>>("CborMaybeKnown<ETag>", &mut env, ctx)?;
    probe::<ETagOther>("ETagOther", &mut env, ctx)?;
    probe::<DecimalFraction>("DecimalFraction", &mut env, ctx)?;
    probe::<UnsignedDecimalFraction>("UnsignedDecimalFraction", &mut env, ctx)?;
    probe::<MapKey>("MapKey", &mut env, ctx)?;
    probe::<u64>("u64", &mut env, ctx)?;
    probe::<i64>("i64", &mut env, ctx)?;
    probe::<u8>("u8", &mut env, ctx)?;
    probe::<f64>("f64", &mut env, ctx)?;
    probe::<bool>("bool", &mut env, ctx)?;
    probe::<String>("String", &mut env, ctx)?;
    probe::<Bytes>("Bytes", &mut env, ctx)?;
    probe::<[u8; 32]>("[u8;32]", &mut env, ctx)?;
    probe::<Vec<u64>>("Vec<u64>", &mut env, ctx)?;
    probe::<Vec<Value>>("Vec<Value>", &mut env, ctx)?;
    probe::<HashMap<u64, i64>>("HashMap<u64,i64>", &mut env, ctx)?;
    probe::<HashMap<MapKey, Value>>("HashMap<MapKey,Value>", &mut env, ctx)?;
    probe::<Option<u64>>("Option<u64>", &mut env, ctx)?;
    if env.accepted > 0 {
        ctx.class("accepted-by-some-decoder");
    }
    if env.accepted > 0 || matches!(first, Some(n) if n == input.len()) {
        ctx.nontrivial(&input[..]);
    }
    Ok(())
}
