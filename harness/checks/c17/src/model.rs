//! Independent CBOR reference: a tree model `M`, a minimal-head ("preferred serialisation",
//! RFC 8949 section 4.1/4.2.1) encoder, canonical map ordering, a strict well-formedness decoder
//! and a nesting-depth scanner. Nothing in this file calls into `concordium_base` except the
//! conversions to and from `value::Value` at the bottom.
use concordium_base::common::cbor::{value::Value, Bytes};

#[derive(Clone, Debug)]
pub enum M {
    Pos(u64),
    /// value is -(n+1)
    Neg(u64),
    Bytes(Vec<u8>),
    Text(String),
    Array(Vec<M>),
    Map(Vec<(M, M)>),
    Tag(u64, Box<M>),
    /// simple value incl. 20 (false), 21 (true), 22 (null), 23 (undefined)
    Simple(u8),
    Float(f64),
}

impl PartialEq for M {
    /// Structural equality; floats are compared by bit pattern (so NaN payloads and the sign of
    /// zero count).
    fn eq(&self, o: &M) -> bool {
        match (self, o) {
            (M::Pos(a), M::Pos(b)) => a == b,
            (M::Neg(a), M::Neg(b)) => a == b,
            (M::Bytes(a), M::Bytes(b)) => a == b,
            (M::Text(a), M::Text(b)) => a == b,
            (M::Array(a), M::Array(b)) => a == b,
            (M::Map(a), M::Map(b)) => a == b,
            (M::Tag(a, x), M::Tag(b, y)) => a == b && x == y,
            (M::Simple(a), M::Simple(b)) => a == b,
            (M::Float(a), M::Float(b)) => a.to_bits() == b.to_bits(),
            _ => false,
        }
    }
}

pub const FALSE: u8 = 20;
pub const TRUE: u8 = 21;
pub const NULL: u8 = 22;

impl M {
    pub fn text(s: &str) -> M { M::Text(s.to_string()) }

    pub fn bool(b: bool) -> M { M::Simple(if b { TRUE } else { FALSE }) }

    pub fn null() -> M { M::Simple(NULL) }

    pub fn int(i: i128) -> M {
        if i >= 0 {
            M::Pos(i as u64)
        } else {
            M::Neg((-(i + 1)) as u64)
        }
    }

    pub fn tag(t: u64, m: M) -> M { M::Tag(t, Box::new(m)) }

    pub fn depth(&self) -> usize {
        match self {
            M::Array(xs) => 1 + xs.iter().map(|x| x.depth()).max().unwrap_or(0),
            M::Map(xs) => 1 + xs.iter().map(|(k, v)| k.depth().max(v.depth())).max().unwrap_or(0),
            M::Tag(_, x) => 1 + x.depth(),
            _ => 0,
        }
    }

    pub fn nodes(&self) -> usize {
        match self {
            M::Array(xs) => 1 + xs.iter().map(|x| x.nodes()).sum::<usize>(),
            M::Map(xs) => 1 + xs.iter().map(|(k, v)| k.nodes() + v.nodes()).sum::<usize>(),
            M::Tag(_, x) => 1 + x.nodes(),
            _ => 1,
        }
    }

    pub fn has_float(&self) -> bool {
        match self {
            M::Float(_) => true,
            M::Array(xs) => xs.iter().any(|x| x.has_float()),
            M::Map(xs) => xs.iter().any(|(k, v)| k.has_float() || v.has_float()),
            M::Tag(_, x) => x.has_float(),
            _ => false,
        }
    }

    /// True if some map in the tree has two entries with the same key.
    pub fn has_dup_keys(&self) -> bool {
        match self {
            M::Array(xs) => xs.iter().any(|x| x.has_dup_keys()),
            M::Map(xs) => {
                let mut keys: Vec<Vec<u8>> = xs.iter().map(|(k, _)| encode(k)).collect();
                keys.sort();
                keys.windows(2).any(|w| w[0] == w[1]) || xs.iter().any(|(k, v)| k.has_dup_keys() || v.has_dup_keys())
            }
            M::Tag(_, x) => x.has_dup_keys(),
            _ => false,
        }
    }

    /// True if an integer argument (value, length or tag) anywhere in the tree sits on an
    /// encoding-width boundary (23/24, 255/256, 65535/65536, 2^32-1/2^32, 2^64-1).
    pub fn has_boundary_int(&self) -> bool {
        fn b(x: u64) -> bool {
            matches!(x, 23 | 24 | 255 | 256 | 65535 | 65536 | 0xffff_ffff | 0x1_0000_0000 | u64::MAX)
        }
        match self {
            M::Pos(x) | M::Neg(x) => b(*x),
            M::Bytes(x) => b(x.len() as u64),
            M::Text(x) => b(x.len() as u64),
            M::Array(xs) => b(xs.len() as u64) || xs.iter().any(|x| x.has_boundary_int()),
            M::Map(xs) => b(xs.len() as u64) || xs.iter().any(|(k, v)| k.has_boundary_int() || v.has_boundary_int()),
            M::Tag(t, x) => b(*t) || x.has_boundary_int(),
            M::Simple(x) => b(*x as u64),
            M::Float(_) => false,
        }
    }
}

// ------------------------------------------------------------------------------------------
// Reference encoder

fn head(out: &mut Vec<u8>, major: u8, arg: u64) {
    let m = major << 5;
    if arg < 24 {
        out.push(m | arg as u8);
    } else if arg < 0x100 {
        out.push(m | 24);
        out.push(arg as u8);
    } else if arg < 0x1_0000 {
        out.push(m | 25);
        out.extend_from_slice(&(arg as u16).to_be_bytes());
    } else if arg < 0x1_0000_0000 {
        out.push(m | 26);
        out.extend_from_slice(&(arg as u32).to_be_bytes());
    } else {
        out.push(m | 27);
        out.extend_from_slice(&arg.to_be_bytes());
    }
}

/// Convert the bits of an f64 to f16 bits if (and only if) that is exact.
fn f64_to_f16_exact(x: f64) -> Option<u16> {
    let bits = x.to_bits();
    let sign = ((bits >> 63) as u16) << 15;
    let exp = ((bits >> 52) & 0x7ff) as i32;
    let man = bits & 0x000f_ffff_ffff_ffff;
    if exp == 0x7ff {
        // inf / nan: the 10 top mantissa bits must carry everything
        if man & ((1u64 << 42) - 1) != 0 {
            return None;
        }
        return Some(sign | 0x7c00 | (man >> 42) as u16);
    }
    if exp == 0 {
        // zero or f64 subnormal (far below f16 range)
        return if man == 0 { Some(sign) } else { None };
    }
    let e = exp - 1023;
    if (-14..=15).contains(&e) {
        if man & ((1u64 << 42) - 1) != 0 {
            return None;
        }
        return Some(sign | (((e + 15) as u16) << 10) | (man >> 42) as u16);
    }
    if (-24..-14).contains(&e) {
        // f16 subnormal: value = m16 * 2^-24, m16 in 1..1023
        let full = (1u64 << 52) | man; // 53-bit significand, value = full * 2^(e-52)
        let shift = (52 - (e + 24)) as u32; // full * 2^(e-52) = m16 * 2^-24  =>  m16 = full >> (52-(e+24))
        if full & ((1u64 << shift) - 1) != 0 {
            return None;
        }
        return Some(sign | (full >> shift) as u16);
    }
    None
}

fn f16_bits_to_f64(h: u16) -> f64 {
    let sign = if h & 0x8000 != 0 { -1.0f64 } else { 1.0 };
    let exp = ((h >> 10) & 0x1f) as i32;
    let man = (h & 0x3ff) as u64;
    if exp == 0x1f {
        let bits = (((h & 0x8000) as u64) << 48) | (0x7ffu64 << 52) | (man << 42);
        return f64::from_bits(bits);
    }
    if exp == 0 {
        return sign * (man as f64) * 2f64.powi(-24);
    }
    sign * (1.0 + man as f64 / 1024.0) * 2f64.powi(exp - 15)
}

/// Shortest IEEE encoding that preserves the value bit-for-bit (RFC 8949 4.1 preferred
/// serialisation of floats).
fn float(out: &mut Vec<u8>, x: f64) {
    if let Some(h) = f64_to_f16_exact(x) {
        out.push(0xf9);
        out.extend_from_slice(&h.to_be_bytes());
        return;
    }
    let s = x as f32;
    if (s as f64).to_bits() == x.to_bits() {
        out.push(0xfa);
        out.extend_from_slice(&s.to_bits().to_be_bytes());
        return;
    }
    out.push(0xfb);
    out.extend_from_slice(&x.to_bits().to_be_bytes());
}

pub fn encode_into(out: &mut Vec<u8>, m: &M) {
    match m {
        M::Pos(x) => head(out, 0, *x),
        M::Neg(x) => head(out, 1, *x),
        M::Bytes(b) => {
            head(out, 2, b.len() as u64);
            out.extend_from_slice(b);
        }
        M::Text(s) => {
            head(out, 3, s.len() as u64);
            out.extend_from_slice(s.as_bytes());
        }
        M::Array(xs) => {
            head(out, 4, xs.len() as u64);
            for x in xs {
                encode_into(out, x);
            }
        }
        M::Map(xs) => {
            head(out, 5, xs.len() as u64);
            for (k, v) in xs {
                encode_into(out, k);
                encode_into(out, v);
            }
        }
        M::Tag(t, x) => {
            head(out, 6, *t);
            encode_into(out, x);
        }
        M::Simple(x) => {
            if *x < 24 {
                out.push(0xe0 | *x);
            } else {
                out.push(0xf8);
                out.push(*x);
            }
        }
        M::Float(x) => float(out, *x),
    }
}

/// Encode with minimal heads, *in the given order* of map entries.
pub fn encode(m: &M) -> Vec<u8> {
    let mut out = Vec::new();
    encode_into(&mut out, m);
    out
}

/// Canonical form: map entries sorted bytewise by their encoded key (RFC 8949 4.2.1), ties
/// (duplicate keys, outside RFC validity) by encoded value; recursively.
pub fn canon(m: &M) -> M {
    match m {
        M::Array(xs) => M::Array(xs.iter().map(canon).collect()),
        M::Tag(t, x) => M::Tag(*t, Box::new(canon(x))),
        M::Map(xs) => {
            let mut es: Vec<(Vec<u8>, Vec<u8>, M, M)> = xs
                .iter()
                .map(|(k, v)| {
                    let k = canon(k);
                    let v = canon(v);
                    (encode(&k), encode(&v), k, v)
                })
                .collect();
            es.sort_by(|a, b| (&a.0, &a.1).cmp(&(&b.0, &b.1)));
            M::Map(es.into_iter().map(|(_, _, k, v)| (k, v)).collect())
        }
        other => other.clone(),
    }
}

/// The reference encoding of a value: canonical order, minimal heads.
pub fn encode_canon(m: &M) -> Vec<u8> { encode(&canon(m)) }

// ------------------------------------------------------------------------------------------
// Strict decoder (well-formedness per RFC 8949 Appendix C, plus UTF-8 validity of text)

#[derive(Debug, Clone, Default)]
pub struct Facts {
    /// some integer/length/tag head used more bytes than necessary
    pub non_minimal:  bool,
    /// an indefinite-length item occurred
    pub indefinite:   bool,
    /// a float was not in its shortest exact width
    pub float_wide:   bool,
    /// a two-byte simple value below 32 (not well-formed per RFC 8949 3.3) occurred
    pub simple_lt32:  bool,
    /// maximal nesting depth (arrays, maps, tags, indefinite strings)
    pub depth:        usize,
}

#[derive(Debug, Clone, PartialEq, Eq)]
pub enum DErr {
    Eof,
    Reserved,
    BadBreak,
    BadChunk,
    Utf8,
}

struct P<'a> {
    b:     &'a [u8],
    i:     usize,
    facts: Facts,
}

impl<'a> P<'a> {
    fn u8(&mut self) -> Result<u8, DErr> {
        let x = *self.b.get(self.i).ok_or(DErr::Eof)?;
        self.i += 1;
        Ok(x)
    }

    fn take(&mut self, n: u64) -> Result<&'a [u8], DErr> {
        let rem = (self.b.len() - self.i) as u64;
        if n > rem {
            return Err(DErr::Eof);
        }
        let s = &self.b[self.i..self.i + n as usize];
        self.i += n as usize;
        Ok(s)
    }

    /// Returns (major, additional info, argument). For ai 31 the argument is 0.
    fn head(&mut self) -> Result<(u8, u8, u64), DErr> {
        let ib = self.u8()?;
        let major = ib >> 5;
        let ai = ib & 0x1f;
        let arg = match ai {
            0..=23 => ai as u64,
            24 => self.u8()? as u64,
            25 => u16::from_be_bytes(self.take(2)?.try_into().unwrap()) as u64,
            26 => u32::from_be_bytes(self.take(4)?.try_into().unwrap()) as u64,
            27 => u64::from_be_bytes(self.take(8)?.try_into().unwrap()),
            28..=30 => return Err(DErr::Reserved),
            _ => 0,
        };
        if major != 7 {
            let minimal = match ai {
                24 => arg >= 24,
                25 => arg >= 0x100,
                26 => arg >= 0x1_0000,
                27 => arg >= 0x1_0000_0000,
                _ => true,
            };
            if !minimal {
                self.facts.non_minimal = true;
            }
        }
        Ok((major, ai, arg))
    }

    fn item(&mut self, depth: usize) -> Result<M, DErr> {
        if depth > self.facts.depth {
            self.facts.depth = depth;
        }
        let (major, ai, arg) = self.head()?;
        match major {
            0 if ai != 31 => Ok(M::Pos(arg)),
            1 if ai != 31 => Ok(M::Neg(arg)),
            0 | 1 => Err(DErr::Reserved),
            2 | 3 => {
                let mut buf = Vec::new();
                if ai == 31 {
                    self.facts.indefinite = true;
                    if depth + 1 > self.facts.depth {
                        self.facts.depth = depth + 1;
                    }
                    loop {
                        let ib = *self.b.get(self.i).ok_or(DErr::Eof)?;
                        if ib == 0xff {
                            self.i += 1;
                            break;
                        }
                        let (m2, ai2, n) = self.head()?;
                        if m2 != major || ai2 == 31 {
                            return Err(DErr::BadChunk);
                        }
                        let chunk = self.take(n)?;
                        if major == 3 && std::str::from_utf8(chunk).is_err() {
                            // every chunk of a text string must itself be valid UTF-8
                            return Err(DErr::Utf8);
                        }
                        buf.extend_from_slice(chunk);
                    }
                } else {
                    buf.extend_from_slice(self.take(arg)?);
                }
                if major == 2 {
                    Ok(M::Bytes(buf))
                } else {
                    String::from_utf8(buf).map(M::Text).map_err(|_| DErr::Utf8)
                }
            }
            4 => {
                let mut xs = Vec::new();
                if ai == 31 {
                    self.facts.indefinite = true;
                    loop {
                        let ib = *self.b.get(self.i).ok_or(DErr::Eof)?;
                        if ib == 0xff {
                            self.i += 1;
                            break;
                        }
                        xs.push(self.item(depth + 1)?);
                    }
                } else {
                    for _ in 0..arg {
                        xs.push(self.item(depth + 1)?);
                    }
                }
                Ok(M::Array(xs))
            }
            5 => {
                let mut xs = Vec::new();
                if ai == 31 {
                    self.facts.indefinite = true;
                    loop {
                        let ib = *self.b.get(self.i).ok_or(DErr::Eof)?;
                        if ib == 0xff {
                            self.i += 1;
                            break;
                        }
                        let k = self.item(depth + 1)?;
                        let v = self.item(depth + 1)?;
                        xs.push((k, v));
                    }
                } else {
                    for _ in 0..arg {
                        let k = self.item(depth + 1)?;
                        let v = self.item(depth + 1)?;
                        xs.push((k, v));
                    }
                }
                Ok(M::Map(xs))
            }
            6 => {
                if ai == 31 {
                    return Err(DErr::Reserved);
                }
                let x = self.item(depth + 1)?;
                Ok(M::Tag(arg, Box::new(x)))
            }
            _ => match ai {
                0..=23 => Ok(M::Simple(ai)),
                24 => {
                    if arg < 32 {
                        self.facts.simple_lt32 = true;
                    }
                    Ok(M::Simple(arg as u8))
                }
                25 => Ok(M::Float(f16_bits_to_f64(arg as u16))),
                26 => {
                    let f = f32::from_bits(arg as u32) as f64;
                    let mut probe = Vec::new();
                    float(&mut probe, f);
                    if probe.len() < 5 {
                        self.facts.float_wide = true;
                    }
                    Ok(M::Float(f))
                }
                27 => {
                    let f = f64::from_bits(arg);
                    let mut probe = Vec::new();
                    float(&mut probe, f);
                    if probe.len() < 9 {
                        self.facts.float_wide = true;
                    }
                    Ok(M::Float(f))
                }
                _ => Err(DErr::BadBreak),
            },
        }
    }
}

/// Decode exactly one data item from the start of `b`. Returns the item, the number of bytes it
/// occupies and the encoding facts.
pub fn decode_one(b: &[u8]) -> Result<(M, usize, Facts), DErr> {
    let mut p = P { b, i: 0, facts: Facts::default() };
    let m = p.item(0)?;
    Ok((m, p.i, p.facts))
}

/// Independent nesting-depth scanner for *arbitrary* bytes. It walks heads sequentially (the way
/// any CBOR reader must), tracks the stack of open containers iteratively (no recursion), and
/// stops at the first malformed head, at the end of the first top-level item, or at the end of
/// input. The result is the maximal number of simultaneously open containers (arrays, maps, tags,
/// indefinite strings) seen: an upper bound on how deep a recursive reader can be at any byte it
/// can reach.
pub fn scan_depth(b: &[u8]) -> usize {
    // stack entries: remaining child count (None = indefinite, until break)
    let mut stack: Vec<Option<u64>> = Vec::new();
    let mut max = 0usize;
    let mut i = 0usize;
    loop {
        // close finished containers
        while let Some(Some(0)) = stack.last() {
            stack.pop();
        }
        if i > 0 && stack.is_empty() {
            return max;
        }
        let Some(&ib) = b.get(i) else { return max };
        i += 1;
        let major = ib >> 5;
        let ai = ib & 0x1f;
        let arg = match ai {
            0..=23 => ai as u64,
            24..=27 => {
                let n = 1usize << (ai - 24);
                if i + n > b.len() {
                    return max;
                }
                let mut x = 0u64;
                for k in 0..n {
                    x = (x << 8) | b[i + k] as u64;
                }
                i += n;
                x
            }
            28..=30 => return max,
            _ => 0,
        };
        if ib == 0xff {
            // break closes the innermost indefinite container
            match stack.last() {
                Some(None) => {
                    stack.pop();
                    continue;
                }
                _ => return max,
            }
        }
        // this head is one child of the enclosing definite container
        if let Some(Some(n)) = stack.last_mut() {
            *n -= 1;
        }
        match major {
            0 | 1 | 7 => {}
            2 | 3 => {
                if ai == 31 {
                    stack.push(None);
                } else {
                    let rem = (b.len() - i) as u64;
                    if arg > rem {
                        return max.max(stack.len());
                    }
                    i += arg as usize;
                }
            }
            4 => stack.push(if ai == 31 { None } else { Some(arg) }),
            5 => stack.push(if ai == 31 { None } else { Some(arg.saturating_mul(2)) }),
            _ => {
                if ai == 31 {
                    return max;
                }
                stack.push(Some(1))
            }
        }
        if stack.len() > max {
            max = stack.len();
        }
    }
}

// ------------------------------------------------------------------------------------------
// Conversions to and from the crate's `Value`

pub fn to_value(m: &M) -> Value {
    match m {
        M::Pos(x) => Value::Positive(*x),
        M::Neg(x) => Value::Negative(*x),
        M::Bytes(b) => Value::Bytes(Bytes(b.clone())),
        M::Text(s) => Value::Text(s.clone()),
        M::Array(xs) => Value::Array(xs.iter().map(to_value).collect()),
        M::Map(xs) => Value::Map(xs.iter().map(|(k, v)| (to_value(k), to_value(v))).collect()),
        M::Tag(t, x) => Value::Tag(*t, Box::new(to_value(x))),
        M::Simple(FALSE) => Value::Bool(false),
        M::Simple(TRUE) => Value::Bool(true),
        M::Simple(NULL) => Value::Null,
        M::Simple(x) => Value::Simple(*x),
        M::Float(x) => Value::Float(*x),
    }
}

pub fn from_value(v: &Value) -> M {
    match v {
        Value::Positive(x) => M::Pos(*x),
        Value::Negative(x) => M::Neg(*x),
        Value::Bytes(b) => M::Bytes(b.0.clone()),
        Value::Text(s) => M::Text(s.clone()),
        Value::Array(xs) => M::Array(xs.iter().map(from_value).collect()),
        Value::Map(xs) => M::Map(xs.iter().map(|(k, v)| (from_value(k), from_value(v))).collect()),
        Value::Tag(t, x) => M::Tag(*t, Box::new(from_value(x))),
        Value::Bool(false) => M::Simple(FALSE),
        Value::Bool(true) => M::Simple(TRUE),
        Value::Null => M::Simple(NULL),
        Value::Simple(x) => M::Simple(*x),
        Value::Float(x) => M::Float(*x),
    }
}

/// Compact diagnostic notation for samples and failure reports.
pub fn diag(m: &M) -> String {
    fn go(m: &M, out: &mut String, budget: &mut isize) {
        if *budget <= 0 {
            out.push('…');
            return;
        }
        *budget -= 1;
        match m {
            M::Pos(x) => out.push_str(&x.to_string()),
            M::Neg(x) => out.push_str(&format!("-{}", *x as u128 + 1)),
            M::Bytes(b) => {
                if b.len() > 24 {
                    out.push_str(&format!("h'{}…'({}B)", vcore::gen::hex(&b[..8]), b.len()))
                } else {
                    out.push_str(&format!("h'{}'", vcore::gen::hex(b)))
                }
            }
            M::Text(s) => {
                if s.len() > 40 {
                    let mut cut = 16;
                    while !s.is_char_boundary(cut) {
                        cut -= 1;
                    }
                    out.push_str(&format!("{:?}…({}B)", &s[..cut], s.len()))
                } else {
                    out.push_str(&format!("{:?}", s))
                }
            }
            M::Array(xs) => {
                out.push('[');
                for (i, x) in xs.iter().enumerate() {
                    if i > 0 {
                        out.push_str(", ");
                    }
                    if i >= 12 {
                        out.push_str(&format!("…({} items)", xs.len()));
                        break;
                    }
                    go(x, out, budget);
                }
                out.push(']');
            }
            M::Map(xs) => {
                out.push('{');
                for (i, (k, v)) in xs.iter().enumerate() {
                    if i > 0 {
                        out.push_str(", ");
                    }
                    if i >= 12 {
                        out.push_str(&format!("…({} entries)", xs.len()));
                        break;
                    }
                    go(k, out, budget);
                    out.push_str(": ");
                    go(v, out, budget);
                }
                out.push('}');
            }
            M::Tag(t, x) => {
                out.push_str(&format!("{}(", t));
                go(x, out, budget);
                out.push(')');
            }
            M::Simple(FALSE) => out.push_str("false"),
            M::Simple(TRUE) => out.push_str("true"),
            M::Simple(NULL) => out.push_str("null"),
            M::Simple(23) => out.push_str("undefined"),
            M::Simple(x) => out.push_str(&format!("simple({})", x)),
            M::Float(x) => out.push_str(&format!("float({:?}/0x{:016x})", x, x.to_bits())),
        }
    }
    let mut s = String::new();
    let mut budget = 200isize;
    go(m, &mut s, &mut budget);
    s
}

/// Self-test of the trusted base against RFC 8949 Appendix A (run once at process start).
pub fn self_test() {
    {
        // RFC 8949 Appendix A examples
        let cases: Vec<(M, &str)> = vec![
            (M::Pos(0), "00"),
            (M::Pos(23), "17"),
            (M::Pos(24), "1818"),
            (M::Pos(100), "1864"),
            (M::Pos(1000), "1903e8"),
            (M::Pos(1000000), "1a000f4240"),
            (M::Pos(1000000000000), "1b000000e8d4a51000"),
            (M::Pos(u64::MAX), "1bffffffffffffffff"),
            (M::Neg(u64::MAX), "3bffffffffffffffff"),
            (M::int(-1), "20"),
            (M::int(-100), "3863"),
            (M::int(-1000), "3903e7"),
            (M::Float(0.0), "f90000"),
            (M::Float(-0.0), "f98000"),
            (M::Float(1.0), "f93c00"),
            (M::Float(1.1), "fb3ff199999999999a"),
            (M::Float(1.5), "f93e00"),
            (M::Float(65504.0), "f97bff"),
            (M::Float(100000.0), "fa47c35000"),
            (M::Float(3.4028234663852886e+38), "fa7f7fffff"),
            (M::Float(1.0e+300), "fb7e37e43c8800759c"),
            (M::Float(5.960464477539063e-8), "f90001"),
            (M::Float(0.00006103515625), "f90400"),
            (M::Float(-4.0), "f9c400"),
            (M::Float(-4.1), "fbc010666666666666"),
            (M::Float(f64::INFINITY), "f97c00"),
            (M::Float(f64::NAN), "f97e00"),
            (M::Float(f64::NEG_INFINITY), "f9fc00"),
            (M::Simple(FALSE), "f4"),
            (M::Simple(TRUE), "f5"),
            (M::Simple(NULL), "f6"),
            (M::Simple(23), "f7"),
            (M::Simple(16), "f0"),
            (M::Simple(255), "f8ff"),
            (M::tag(1, M::Pos(1363896240)), "c11a514b67b0"),
            (M::tag(23, M::Bytes(vec![1, 2, 3, 4])), "d74401020304"),
            (M::tag(32, M::text("http://www.example.com")), "d82076687474703a2f2f7777772e6578616d706c652e636f6d"),
            (M::Bytes(vec![]), "40"),
            (M::text(""), "60"),
            (M::text("\u{00fc}"), "62c3bc"),
            (M::text("\u{6c34}"), "63e6b0b4"),
            (M::Array(vec![]), "80"),
            (M::Array(vec![M::Pos(1), M::Array(vec![M::Pos(2), M::Pos(3)]), M::Array(vec![M::Pos(4), M::Pos(5)])]), "8301820203820405"),
            (M::Array((1..=25).map(M::Pos).collect()), "98190102030405060708090a0b0c0d0e0f101112131415161718181819"),
            (M::Map(vec![]), "a0"),
            (M::Map(vec![(M::Pos(1), M::Pos(2)), (M::Pos(3), M::Pos(4))]), "a201020304"),
            (M::Map(vec![(M::text("a"), M::Pos(1)), (M::text("b"), M::Array(vec![M::Pos(2), M::Pos(3)]))]), "a26161016162820203"),
        ];
        for (m, hexs) in cases {
            let enc = encode(&m);
            assert_eq!(vcore::gen::hex(&enc), hexs, "{:?}", m);
            let (d, n, facts) = decode_one(&enc).unwrap();
            assert_eq!(n, enc.len());
            assert!(d == m, "{:?} vs {:?}", d, m);
            assert!(!facts.non_minimal && !facts.indefinite && !facts.float_wide);
            assert_eq!(scan_depth(&enc), m.depth(), "{:?}", m);
        }
        // indefinite-length examples
        let (d, n, f) = decode_one(&hex::decode("5f42010243030405ff").unwrap()).unwrap();
        assert!(d == M::Bytes(vec![1, 2, 3, 4, 5]) && n == 9 && f.indefinite);
        let (d, _, _) = decode_one(&hex::decode("7f657374726561646d696e67ff").unwrap()).unwrap();
        assert!(d == M::text("streaming"));
        let (d, _, _) = decode_one(&hex::decode("9f018202039f0405ffff").unwrap()).unwrap();
        assert!(d == M::Array(vec![M::Pos(1), M::Array(vec![M::Pos(2), M::Pos(3)]), M::Array(vec![M::Pos(4), M::Pos(5)])]));
        assert_eq!(scan_depth(&hex::decode("9f018202039f0405ffff").unwrap()), 2);
        let (d, _, _) = decode_one(&hex::decode("bf6346756ef563416d7421ff").unwrap()).unwrap();
        assert!(d == M::Map(vec![(M::text("Fun"), M::Simple(TRUE)), (M::text("Amt"), M::int(-2))]));
        // canonical order: shorter keys first, then bytewise
        let m = M::Map(vec![(M::text("aa"), M::Pos(1)), (M::text("b"), M::Pos(2)), (M::Pos(10), M::Pos(3)), (M::int(-1), M::Pos(4))]);
        assert_eq!(vcore::gen::hex(&encode_canon(&m)), "a40a032004616202626161 01".replace(' ', ""));
        // f16 subnormals and exactness
        for h in 0u16..=0xffff {
            let f = f16_bits_to_f64(h);
            assert_eq!(f64_to_f16_exact(f), Some(h), "h={:04x}", h);
        }
        assert!(decode_one(&[0x1c]).is_err());
        assert!(decode_one(&[0xff]).is_err());
        assert!(decode_one(&[0x5f, 0x61, 0x00, 0xff]).is_err());
        assert_eq!(scan_depth(&[0x81; 100]), 100);
        assert_eq!(scan_depth(&[0xc1; 70]), 70);
        assert_eq!(scan_depth(&[0x82, 0x80, 0x81, 0x81, 0x00]), 3);
    }
}
