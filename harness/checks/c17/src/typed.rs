//! Generic oracle for one typed value `t: T` whose *documented* CBOR shape is given by a hand-built
//! model tree `expected` and a `Schema` (which keys are mandatory/optional, whether unknown keys
//! are preserved, outer tags, ...). Baseline: determinism, exact bytes, round trip, trailing data
//! and truncation rejected. Then one structural mutation of the model chosen from the choice
//! sequence, with the acceptance/rejection the property statement demands for it.
use crate::gen;
use crate::model::*;
use concordium_base::common::cbor::{
    cbor_decode_with_options, cbor_encode, CborDeserialize, CborSerialize, SerializationOptions, UnknownMapKeys,
};
use std::fmt::Debug;
use vcore::gen::*;
use vcore::{CheckResult, Ctx, Unstructured, Violation};

#[derive(Clone, Copy, Debug, PartialEq)]
pub enum K {
    T(&'static str),
    P(u64),
}

impl K {
    pub fn m(&self) -> M {
        match self {
            K::T(s) => M::text(s),
            K::P(p) => M::Pos(*p),
        }
    }
}

#[derive(Clone, Copy, Debug, PartialEq)]
pub enum Other {
    /// no `#[cbor(other)]` field: undeclared keys are an error or ignored, depending on options
    None,
    /// `#[cbor(other)] HashMap<String, Value>`
    Text,
    /// `#[cbor(other)] HashMap<MapKey, Value>`
    Any,
}

#[derive(Clone, Copy, Debug)]
pub enum Shape {
    Map { mandatory: &'static [K], optional: &'static [K], other: Other },
    Array(usize),
    /// `#[cbor(map)]` enum. `open`: unknown keys are representable (other-variant or MaybeKnown)
    EnumMap { known: &'static [&'static str], open: bool },
    /// `#[cbor(tagged)]` enum
    EnumTag { tags: &'static [u64], open: bool },
    Opaque,
}

#[derive(Clone, Copy, Debug)]
pub struct Schema {
    pub name:       &'static str,
    /// tags in front of the item, outermost first
    pub tags:       &'static [u64],
    pub shape:      Shape,
    /// the type embeds generic `Value`s whose map order is significant for equality
    pub has_values: bool,
}

pub fn opts(fail: bool) -> SerializationOptions {
    SerializationOptions::default().unknown_map_keys(if fail { UnknownMapKeys::Fail } else { UnknownMapKeys::Ignore })
}

pub fn dec<T: CborDeserialize>(b: &[u8], fail: bool) -> Result<T, String> {
    cbor_decode_with_options::<T>(b, opts(fail)).map_err(|e| format!("{:#}", anyhow_chain(e)))
}

fn anyhow_chain(e: concordium_base::common::cbor::CborSerializationError) -> String { e.to_string() }

pub fn enc<T: CborSerialize + ?Sized>(t: &T) -> Result<Vec<u8>, String> { cbor_encode(t).map_err(|e| e.to_string()) }

fn viol(sch: &Schema, oracle: &str, detail: String) -> Violation {
    Violation::new(oracle, format!("[{}] {}", sch.name, detail)).with_signature(format!("{}:{}", oracle, sch.name))
}

fn strip<'a>(m: &'a M, n: usize) -> (Vec<u64>, &'a M) {
    let mut tags = Vec::new();
    let mut cur = m;
    for _ in 0..n {
        match cur {
            M::Tag(t, x) => {
                tags.push(*t);
                cur = x;
            }
            _ => break,
        }
    }
    (tags, cur)
}

fn wrap(tags: &[u64], m: M) -> M {
    let mut cur = m;
    for t in tags.iter().rev() {
        cur = M::tag(*t, cur);
    }
    cur
}

fn fresh_text_key(u: &mut Unstructured, taken: &[(M, M)]) -> M {
    const C: [&str; 8] = ["_x", "zzUnknown", "", "a", "_additional", "ü", "futureField", "x-y"];
    let mut s = choose(u, &C).to_string();
    loop {
        let k = M::Text(s.clone());
        if !taken.iter().any(|(tk, _)| *tk == k) {
            return k;
        }
        s.push('_');
    }
}

fn fresh_pos_key(u: &mut Unstructured, taken: &[(M, M)]) -> M {
    let mut p = *choose(u, &[0u64, 2, 23, 24, 255, 256, 65536, u64::MAX - 7]);
    loop {
        let k = M::Pos(p);
        if !taken.iter().any(|(tk, _)| *tk == k) {
            return k;
        }
        p = p.wrapping_add(1);
    }
}

fn small_value(u: &mut Unstructured) -> M {
    let mut fuel = 6usize;
    canon(&gen::tree(u, &mut fuel, 3, gen::Opt { nan_ok: false, long_ok: false, dup_ok: false }))
}

/// What the statement demands of a mutated input.
enum Want<'a, T> {
    /// rejected whatever the options
    Reject,
    /// rejected under `Fail`, accepted under `Ignore` with exactly this value
    FailOnlyElse(&'a T),
    /// accepted under both options and re-encoding reproduces the input (nothing lost)
    Identity,
    /// accepted under both options with exactly this value
    Equal(&'a T),
    /// either rejected, or accepted without losing anything (re-encoding reproduces the input)
    RejectOrIdentity,
    /// either rejected or accepted with exactly this value (never a different value)
    RejectOrEqual(&'a T),
}

fn apply_want<T>(ctx: &mut Ctx, sch: &Schema, what: &str, input: &[u8], want: Want<T>) -> CheckResult
where
    T: CborSerialize + CborDeserialize + PartialEq + Debug,
{
    for fail in [false, true] {
        let r = dec::<T>(input, fail);
        let mode = if fail { "Fail" } else { "Ignore" };
        let bad = |msg: String| -> CheckResult {
            Err(viol(sch, &format!("mut-{}", what), format!("options={} input={} : {}", mode, hex(input), msg)))
        };
        let identity = |t: &T| -> Result<bool, String> { Ok(enc(t)? == input) };
        match (&want, r) {
            (Want::Reject, Ok(t)) => return bad(format!("accepted as {:?}, must be rejected", t)),
            (Want::Reject, Err(_)) => {}
            (Want::FailOnlyElse(_), Ok(t)) if fail => return bad(format!("accepted under UnknownMapKeys::Fail as {:?}", t)),
            (Want::FailOnlyElse(_), Err(_)) if fail => {}
            (Want::FailOnlyElse(exp), Ok(t)) | (Want::Equal(exp), Ok(t)) => {
                if t != **exp {
                    return bad(format!("decoded {:?}, expected {:?}", t, exp));
                }
            }
            (Want::FailOnlyElse(_), Err(e)) | (Want::Equal(_), Err(e)) => return bad(format!("rejected ({}), must be accepted", e)),
            (Want::Identity, Ok(t)) => match identity(&t) {
                Ok(true) => {}
                Ok(false) => return bad(format!("decoded {:?}, which re-encodes to {}", t, hex(&enc(&t).unwrap_or_default()))),
                Err(e) => return bad(format!("decoded {:?}, which fails to encode: {}", t, e)),
            },
            (Want::Identity, Err(e)) => return bad(format!("rejected ({}), must be accepted and preserved", e)),
            (Want::RejectOrIdentity, Ok(t)) => {
                ctx.class(&format!("lenient-accept:{}", what));
                match identity(&t) {
                    Ok(true) => {}
                    _ => return bad(format!("accepted as {:?} but re-encoding differs: information silently dropped", t)),
                }
            }
            (Want::RejectOrIdentity, Err(_)) => {}
            (Want::RejectOrEqual(exp), Ok(t)) => {
                ctx.class(&format!("lenient-accept:{}", what));
                if t != **exp {
                    return bad(format!("decoded {:?}, expected {:?} (or a rejection)", t, exp));
                }
            }
            (Want::RejectOrEqual(_), Err(_)) => ctx.class(&format!("strict-reject:{}", what)),
        }
    }
    Ok(())
}

/// Returns true if the case exercised an optional/unknown field (non-trivial by the design's rule).
pub fn check_typed<T>(ctx: &mut Ctx, u: &mut Unstructured, sch: &Schema, t: &T, expected: &M) -> Result<bool, Violation>
where
    T: CborSerialize + CborDeserialize + PartialEq + Debug,
{
    // ---- baseline ----
    let e1 = enc(t).map_err(|e| viol(sch, "encode-total", format!("encoding {:?} failed: {}", t, e)))?;
    let e2 = enc(t).map_err(|e| viol(sch, "encode-total", format!("second encoding failed: {}", e)))?;
    if e1 != e2 {
        return Err(viol(sch, "deterministic", format!("two encodings of {:?} differ: {} vs {}", t, hex(&e1), hex(&e2))));
    }
    let cexp = canon(expected);
    let reference = encode(&cexp);
    if e1 != reference {
        return Err(viol(
            sch,
            "exact-bytes",
            format!("{:?}\n encodes to {}\n reference  {}\n model {}", t, hex(&e1), hex(&reference), diag(&cexp)),
        ));
    }
    for fail in [false, true] {
        match dec::<T>(&e1, fail) {
            Ok(d) if d == *t => {}
            Ok(d) => return Err(viol(sch, "roundtrip", format!("{:?} -> {} -> {:?}", t, hex(&e1), d))),
            Err(e) => return Err(viol(sch, "roundtrip", format!("{:?} -> {} -> rejected: {}", t, hex(&e1), e))),
        }
    }
    // trailing data and truncation
    {
        let mut x = e1.clone();
        let extra = short_bytes(u, 3);
        x.extend_from_slice(if extra.is_empty() { &[0u8] } else { &extra });
        if let Ok(d) = dec::<T>(&x, false) {
            return Err(viol(sch, "trailing-data", format!("{} accepted as {:?}", hex(&x), d)));
        }
        let cut = range_usize(u, 0, e1.len().saturating_sub(1));
        if let Ok(d) = dec::<T>(&e1[..cut], false) {
            return Err(viol(sch, "truncated", format!("prefix {} of {} accepted as {:?}", hex(&e1[..cut]), hex(&e1), d)));
        }
    }

    // ---- sloppy re-encoding of the same data: never a different value ----
    let mut nt = false;
    if byte(u) % 4 == 0 {
        let (tags, inner) = strip(&cexp, sch.tags.len());
        let shuffled = if sch.has_values {
            match inner {
                M::Map(es) => {
                    let mut es = es.clone();
                    let n = es.len();
                    for i in (1..n).rev() {
                        let j = idx(u, i + 1);
                        es.swap(i, j);
                    }
                    wrap(&tags, M::Map(es))
                }
                _ => cexp.clone(),
            }
        } else {
            gen::shuffle_maps(&cexp, u)
        };
        let mut s = gen::Sloppy::default();
        let mut alt = Vec::new();
        gen::encode_sloppy(&mut alt, &shuffled, u, &mut s);
        let label = if alt == e1 {
            "same"
        } else if s.indefinite {
            "indefinite"
        } else if s.non_minimal || s.float_wide {
            "non-minimal"
        } else {
            "reordered"
        };
        ctx.class(&format!("alt-encoding:{}", label));
        apply_want(ctx, sch, &format!("alt-{}", label), &alt, Want::RejectOrEqual(t))?;
    }

    // ---- one structural mutation ----
    let (tags, inner) = strip(&cexp, sch.tags.len());
    let inner = inner.clone();
    let rewrap = |m: M| encode(&canon(&wrap(&tags, m)));
    let choice = byte(u) % 12;

    // mutations that apply to every shape
    match choice {
        0 if !sch.tags.is_empty() => {
            // wrong outermost tag number
            let mut t2 = tags.clone();
            let i = idx(u, t2.len());
            let old = t2[i];
            let mut nw = gen::tag_no(u);
            if nw == old {
                nw = old ^ 1;
            }
            t2[i] = nw;
            ctx.class("mut:wrong-tag");
            return apply_want::<T>(ctx, sch, "wrong-tag", &encode(&wrap(&t2, inner.clone())), Want::Reject).map(|_| nt);
        }
        1 if !sch.tags.is_empty() => {
            let mut t2 = tags.clone();
            t2.remove(idx(u, t2.len()));
            ctx.class("mut:missing-tag");
            return apply_want::<T>(ctx, sch, "missing-tag", &encode(&wrap(&t2, inner.clone())), Want::Reject).map(|_| nt);
        }
        0 | 1 => {
            // an undeclared tag in front of an untagged type
            if let Shape::EnumTag { .. } | Shape::Opaque = sch.shape {
            } else {
                let input = encode(&M::tag(*choose(u, &[55799u64, 0, 24, 40307]), cexp.clone()));
                ctx.class("mut:extra-tag");
                return apply_want::<T>(ctx, sch, "extra-tag", &input, Want::Reject).map(|_| nt);
            }
        }
        2 => {
            // wrong major type in place of the item
            let replacement = match (&sch.shape, &inner) {
                (Shape::Map { .. } | Shape::EnumMap { .. }, M::Map(es)) => match byte(u) % 3 {
                    0 => Some(M::Array(es.iter().map(|(_, v)| v.clone()).collect())),
                    1 => Some(M::Pos(es.len() as u64)),
                    _ => Some(M::Text("map".into())),
                },
                (Shape::Array(_), M::Array(xs)) => match byte(u) % 3 {
                    0 => Some(M::Map(xs.iter().enumerate().map(|(i, x)| (M::Pos(i as u64), x.clone())).collect())),
                    1 => Some(M::Bytes(vec![0; xs.len()])),
                    _ => Some(M::Simple(NULL)),
                },
                _ => None,
            };
            if let Some(r) = replacement {
                ctx.class("mut:wrong-major");
                return apply_want::<T>(ctx, sch, "wrong-major", &rewrap(r), Want::Reject).map(|_| nt);
            }
        }
        _ => {}
    }

    match (&sch.shape, &inner) {
        (Shape::Map { mandatory, optional, other }, M::Map(es)) => {
            let present_optional: Vec<&K> = optional.iter().filter(|k| es.iter().any(|(ek, _)| *ek == k.m())).collect();
            let declared = |k: &M| mandatory.iter().chain(optional.iter()).any(|d| d.m() == *k);
            let unknown_present = es.iter().any(|(k, _)| !declared(k));
            nt = !present_optional.is_empty() || unknown_present;
            match choice {
                3 | 4 => {
                    // undeclared key (text or unsigned) with an arbitrary value
                    let textual = choice == 3;
                    let k = if textual { fresh_text_key(u, es) } else { fresh_pos_key(u, es) };
                    let mut es2 = es.clone();
                    es2.push((k, small_value(u)));
                    let input = rewrap(M::Map(es2));
                    nt = true;
                    match (other, textual) {
                        (Other::None, _) => {
                            ctx.class("mut:undeclared-key");
                            apply_want(ctx, sch, "undeclared-key", &input, Want::FailOnlyElse(t))?;
                        }
                        (Other::Text, true) | (Other::Any, _) => {
                            ctx.class("mut:unknown-key-preserved");
                            apply_want::<T>(ctx, sch, "unknown-key-preserved", &input, Want::Identity)?;
                        }
                        (Other::Text, false) => {
                            ctx.class("mut:unknown-int-key-in-text-other");
                            apply_want::<T>(ctx, sch, "unknown-int-key", &input, Want::RejectOrIdentity)?;
                        }
                    }
                }
                5 if !mandatory.is_empty() => {
                    let k = choose(u, mandatory).m();
                    let es2: Vec<(M, M)> = es.iter().filter(|(ek, _)| *ek != k).cloned().collect();
                    ctx.class("mut:missing-mandatory");
                    apply_want::<T>(ctx, sch, "missing-mandatory", &rewrap(M::Map(es2)), Want::Reject)?;
                }
                6 if !present_optional.is_empty() => {
                    let k = choose(u, &present_optional).m();
                    let es2: Vec<(M, M)> = es.iter().filter(|(ek, _)| *ek != k).cloned().collect();
                    ctx.class("mut:drop-optional");
                    apply_want::<T>(ctx, sch, "drop-optional", &rewrap(M::Map(es2)), Want::Identity)?;
                }
                7 if !optional.is_empty() => {
                    // explicit null for an optional field == absent; decoding t's own encoding with
                    // the absent optional fields spelled out as null must still give t
                    let absent: Vec<&K> = optional.iter().filter(|k| !es.iter().any(|(ek, _)| *ek == k.m())).collect();
                    if !absent.is_empty() {
                        let mut es2 = es.clone();
                        es2.push((choose(u, &absent).m(), M::null()));
                        ctx.class("mut:explicit-null-optional");
                        apply_want(ctx, sch, "explicit-null-optional", &rewrap(M::Map(es2)), Want::Equal(t))?;
                    }
                }
                8 if !mandatory.is_empty() => {
                    let k = choose(u, mandatory).m();
                    let ill = match byte(u) % 4 {
                        0 => M::null(),
                        1 => M::Simple(23),
                        2 => M::Float(1.5),
                        _ => M::Array(vec![M::Array(vec![])]),
                    };
                    let es2: Vec<(M, M)> = es.iter().map(|(ek, ev)| if *ek == k { (ek.clone(), ill.clone()) } else { (ek.clone(), ev.clone()) }).collect();
                    ctx.class("mut:ill-typed-field");
                    apply_want::<T>(ctx, sch, "ill-typed-field", &rewrap(M::Map(es2)), Want::Reject)?;
                }
                9 => {
                    // key of a type that no declared key has (negative int / bytes / array)
                    let k = match byte(u) % 3 {
                        0 => M::Neg(arg_small(u)),
                        1 => M::Bytes(short_bytes(u, 4)),
                        _ => M::Array(vec![]),
                    };
                    let mut es2 = es.clone();
                    es2.push((k, small_value(u)));
                    ctx.class("mut:exotic-key");
                    let input = rewrap(M::Map(es2));
                    if *other == Other::None {
                        apply_want(ctx, sch, "exotic-key", &input, Want::RejectOrEqual(t))?;
                    } else {
                        apply_want::<T>(ctx, sch, "exotic-key", &input, Want::RejectOrIdentity)?;
                    }
                }
                10 if !es.is_empty() => {
                    // the same declared entry twice (same value): either rejected or the same value
                    let i = idx(u, es.len());
                    if declared(&es[i].0) {
                        let mut es2 = es.clone();
                        es2.push(es[i].clone());
                        let mut out = Vec::new();
                        encode_into(&mut out, &wrap(&tags, M::Map(es2)));
                        ctx.class("mut:duplicate-entry");
                        apply_want(ctx, sch, "duplicate-entry", &out, Want::RejectOrEqual(t))?;
                    }
                }
                _ => ctx.class("mut:none"),
            }
        }
        (Shape::Array(n), M::Array(xs)) => {
            debug_assert_eq!(*n, xs.len());
            match choice {
                3 | 4 => {
                    let mut xs2 = xs.clone();
                    xs2.push(small_value(u));
                    ctx.class("mut:array-too-long");
                    apply_want::<T>(ctx, sch, "array-too-long", &rewrap(M::Array(xs2)), Want::Reject)?;
                }
                5 | 6 if !xs.is_empty() => {
                    let mut xs2 = xs.clone();
                    xs2.remove(idx(u, xs2.len()));
                    ctx.class("mut:array-too-short");
                    apply_want::<T>(ctx, sch, "array-too-short", &rewrap(M::Array(xs2)), Want::Reject)?;
                }
                7 | 8 if !xs.is_empty() => {
                    let mut xs2 = xs.clone();
                    let i = idx(u, xs2.len());
                    xs2[i] = M::Map(vec![]);
                    ctx.class("mut:ill-typed-element");
                    apply_want::<T>(ctx, sch, "ill-typed-element", &rewrap(M::Array(xs2)), Want::Reject)?;
                }
                _ => ctx.class("mut:none"),
            }
        }
        (Shape::EnumMap { known, open }, M::Map(es)) => {
            let is_known = es.len() == 1 && matches!(&es[0].0, M::Text(s) if known.contains(&s.as_str()));
            nt = !is_known;
            match choice {
                3 | 4 | 5 => {
                    let k = fresh_text_key(u, &known.iter().map(|s| (M::text(s), M::null())).collect::<Vec<_>>());
                    let input = rewrap(M::Map(vec![(k, small_value(u))]));
                    nt = true;
                    if *open {
                        ctx.class("mut:unknown-variant-preserved");
                        apply_want::<T>(ctx, sch, "unknown-variant-preserved", &input, Want::Identity)?;
                    } else {
                        ctx.class("mut:unknown-variant");
                        apply_want::<T>(ctx, sch, "unknown-variant", &input, Want::Reject)?;
                    }
                }
                6 | 7 => {
                    let mut es2 = es.clone();
                    es2.push((fresh_text_key(u, es), small_value(u)));
                    ctx.class("mut:enum-map-size-2");
                    apply_want::<T>(ctx, sch, "enum-map-size-2", &rewrap(M::Map(es2)), Want::Reject)?;
                }
                8 => {
                    ctx.class("mut:enum-map-size-0");
                    apply_want::<T>(ctx, sch, "enum-map-size-0", &rewrap(M::Map(vec![])), Want::Reject)?;
                }
                9 => {
                    let input = rewrap(M::Map(vec![(M::Pos(arg_small(u)), small_value(u))]));
                    ctx.class("mut:enum-int-key");
                    apply_want::<T>(ctx, sch, "enum-int-key", &input, Want::RejectOrIdentity)?;
                }
                _ => ctx.class("mut:none"),
            }
        }
        (Shape::EnumTag { tags: declared, open }, _) => match choice {
            3 | 4 | 5 | 6 => {
                let mut tg = gen::tag_no(u);
                while declared.contains(&tg) {
                    tg = tg.wrapping_add(1);
                }
                let input = encode(&canon(&M::tag(tg, small_value(u))));
                nt = true;
                if *open {
                    ctx.class("mut:unknown-tag-preserved");
                    apply_want::<T>(ctx, sch, "unknown-tag-preserved", &input, Want::Identity)?;
                } else {
                    ctx.class("mut:unknown-tag");
                    apply_want::<T>(ctx, sch, "unknown-tag", &input, Want::Reject)?;
                }
            }
            _ => ctx.class("mut:none"),
        },
        _ => ctx.class("mut:none"),
    }
    Ok(nt)
}

fn arg_small(u: &mut Unstructured) -> u64 { *choose(u, &[0u64, 1, 23, 24, 255, 256, 65535, 65536]) }
