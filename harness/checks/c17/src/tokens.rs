//! Target `token`: every protocol-level-token type with a CBOR form, generated together with the
//! model tree its documentation prescribes (camel-cased field names, declared integer keys and
//! tags), checked with `typed::check_typed`; plus the event / reject-reason / payload decode entry
//! points.
use crate::gen::{self, Opt};
use crate::model::*;
use crate::typed::*;
use concordium_base::common::cbor::value::Value;
use concordium_base::common::upward::{CborUpward, Upward};
use concordium_base::protocol_level_tokens::*;
use concordium_base::transactions::Memo;
use concordium_contracts_common::{hashes::Hash, AccountAddress};
use std::collections::HashMap;
use vcore::gen::*;
use vcore::{CheckResult, Ctx, Unstructured};

const T_DECFRAC: u64 = 4;
const T_EMBEDDED: u64 = 24;
const T_COININFO: u64 = 40305;
const T_HOLDER: u64 = 40307;

pub fn g_amount(u: &mut Unstructured) -> (TokenAmount, M) {
    let value = gen::arg(u);
    let decimals = match byte(u) % 8 {
        0 => 0,
        1 => 255,
        2 => *choose(u, &[1u8, 6, 18, 23, 24, 25, 28, 29, 127, 128, 254]),
        3 | 4 => byte(u) % 19,
        _ => byte(u),
    };
    (
        TokenAmount::from_raw(value, decimals),
        M::tag(T_DECFRAC, M::Array(vec![M::int(-(decimals as i128)), M::Pos(value)])),
    )
}

fn g_addr(u: &mut Unstructured) -> ([u8; 32], M) {
    let a: [u8; 32] = match byte(u) % 4 {
        0 => [0u8; 32],
        1 => [0xff; 32],
        _ => array::<32>(u),
    };
    (a, M::Bytes(a.to_vec()))
}

pub fn g_holder(u: &mut Unstructured) -> (CborHolderAccount, M) {
    let (a, am) = g_addr(u);
    let with_coin = boolean(u);
    let mut es = vec![(M::Pos(3), am)];
    if with_coin {
        es.push((M::Pos(1), M::tag(T_COININFO, M::Map(vec![(M::Pos(1), M::Pos(919))]))));
    }
    (
        CborHolderAccount { coin_info: if with_coin { Some(CoinInfo::CCD) } else { None }, address: AccountAddress(a) },
        M::tag(T_HOLDER, M::Map(es)),
    )
}

pub fn g_memo(u: &mut Unstructured) -> (CborMemo, M) {
    let n = match byte(u) % 8 {
        0 => 0,
        1 => 256,
        2 => 255,
        3 => *choose(u, &[23usize, 24, 25]),
        _ => range_usize(u, 0, 40),
    };
    let b: Vec<u8> = if n <= 40 { bytes(u, n) } else { (0..n).map(|i| i as u8).collect() };
    let memo = Memo::try_from(b.clone()).expect("memo within 256 bytes");
    if boolean(u) {
        (CborMemo::Raw(memo), M::Bytes(b))
    } else {
        (CborMemo::Cbor(memo), M::tag(T_EMBEDDED, M::Bytes(b)))
    }
}

/// Canonical, NaN-free generic values for `additional` maps (so that `PartialEq` on the decoded
/// struct is meaningful), under keys that no declared field uses.
fn g_additional(u: &mut Unstructured, es: &mut Vec<(M, M)>) -> HashMap<String, Value> {
    let mut out = HashMap::new();
    let n = match byte(u) % 4 {
        0 | 1 => 0,
        2 => 1,
        _ => range_usize(u, 1, 3),
    };
    for i in 0..n {
        let mut fuel = 8usize;
        let v = canon(&gen::tree(u, &mut fuel, 4, Opt { nan_ok: false, long_ok: false, dup_ok: false }));
        let key = format!("_{}{}", choose(u, &["", "x", "ext", "füü", "Z"]), i);
        out.insert(key.clone(), to_value(&v));
        es.push((M::Text(key), v));
    }
    out
}

fn g_string(u: &mut Unstructured) -> (String, M) {
    let s = gen::text(u, false);
    (s.clone(), M::Text(s))
}

fn opt<T>(u: &mut Unstructured, es: &mut Vec<(M, M)>, key: &str, g: impl FnOnce(&mut Unstructured) -> (T, M)) -> Option<T> {
    if boolean(u) {
        let (t, m) = g(u);
        es.push((M::text(key), m));
        Some(t)
    } else {
        None
    }
}

fn g_bool(u: &mut Unstructured) -> (bool, M) {
    let b = boolean(u);
    (b, M::bool(b))
}

pub fn g_metadata(u: &mut Unstructured) -> (MetadataUrl, M) {
    let mut es = Vec::new();
    let (url, um) = g_string(u);
    es.push((M::text("url"), um));
    let checksum_sha_256 = opt(u, &mut es, "checksumSha256", |u| {
        let (a, m) = g_addr(u);
        (Hash::from(a), m)
    });
    let additional = g_additional(u, &mut es);
    (MetadataUrl { url, checksum_sha_256, additional }, M::Map(es))
}

fn g_index(u: &mut Unstructured) -> (usize, M) {
    let i = gen::arg(u);
    (i as usize, M::Pos(i))
}

const S_AMOUNT: Schema = Schema { name: "TokenAmount", tags: &[T_DECFRAC], shape: Shape::Array(2), has_values: false };
const S_COIN: Schema = Schema {
    name:       "CoinInfo",
    tags:       &[T_COININFO],
    shape:      Shape::Map { mandatory: &[K::P(1)], optional: &[], other: Other::None },
    has_values: false,
};
const S_HOLDER: Schema = Schema {
    name:       "CborHolderAccount",
    tags:       &[T_HOLDER],
    shape:      Shape::Map { mandatory: &[K::P(3)], optional: &[K::P(1)], other: Other::None },
    has_values: false,
};
const S_MEMO: Schema = Schema { name: "CborMemo", tags: &[], shape: Shape::EnumTag { tags: &[T_EMBEDDED], open: false }, has_values: false };
const S_TRANSFER: Schema = Schema {
    name:       "TokenTransfer",
    tags:       &[],
    shape:      Shape::Map { mandatory: &[K::T("amount"), K::T("recipient")], optional: &[K::T("memo")], other: Other::None },
    has_values: false,
};
const S_SUPPLY: Schema = Schema {
    name:       "TokenSupplyUpdateDetails",
    tags:       &[],
    shape:      Shape::Map { mandatory: &[K::T("amount")], optional: &[], other: Other::None },
    has_values: false,
};
const S_PAUSE: Schema =
    Schema { name: "TokenPauseDetails", tags: &[], shape: Shape::Map { mandatory: &[], optional: &[], other: Other::None }, has_values: false };
const S_LIST: Schema = Schema {
    name:       "TokenListUpdateDetails",
    tags:       &[],
    shape:      Shape::Map { mandatory: &[K::T("target")], optional: &[], other: Other::None },
    has_values: false,
};
const S_LIST_EV: Schema = Schema { name: "TokenListUpdateEventDetails", ..S_LIST };
const S_PAUSE_EV: Schema = Schema { name: "TokenPauseEventDetails", ..S_PAUSE };
const OPS: [&str; 9] = ["transfer", "mint", "burn", "addAllowList", "removeAllowList", "addDenyList", "removeDenyList", "pause", "unpause"];
const S_OP: Schema = Schema { name: "TokenOperation", tags: &[], shape: Shape::EnumMap { known: &OPS, open: false }, has_values: false };
const S_OP_UP: Schema =
    Schema { name: "CborUpward<TokenOperation>", tags: &[], shape: Shape::EnumMap { known: &OPS, open: true }, has_values: true };
const S_OPS: Schema = Schema { name: "TokenOperations", tags: &[], shape: Shape::Opaque, has_values: true };
const S_METADATA: Schema = Schema {
    name:       "MetadataUrl",
    tags:       &[],
    shape:      Shape::Map { mandatory: &[K::T("url")], optional: &[K::T("checksumSha256")], other: Other::Text },
    has_values: true,
};
const S_STATE: Schema = Schema {
    name:       "TokenModuleState",
    tags:       &[],
    shape:      Shape::Map {
        mandatory: &[],
        optional:  &[
            K::T("name"),
            K::T("metadata"),
            K::T("governanceAccount"),
            K::T("allowList"),
            K::T("denyList"),
            K::T("mintable"),
            K::T("burnable"),
            K::T("paused"),
        ],
        other:     Other::Text,
    },
    has_values: true,
};
const S_ACC_STATE: Schema = Schema {
    name:       "TokenModuleAccountState",
    tags:       &[],
    shape:      Shape::Map { mandatory: &[], optional: &[K::T("allowList"), K::T("denyList")], other: Other::Text },
    has_values: true,
};
const S_INIT: Schema = Schema {
    name:       "TokenModuleInitializationParameters",
    tags:       &[],
    shape:      Shape::Map {
        mandatory: &[],
        optional:  &[
            K::T("name"),
            K::T("metadata"),
            K::T("governanceAccount"),
            K::T("allowList"),
            K::T("denyList"),
            K::T("initialSupply"),
            K::T("mintable"),
            K::T("burnable"),
        ],
        other:     Other::Text,
    },
    has_values: true,
};
const S_RR_ADDR: Schema = Schema {
    name:       "AddressNotFoundRejectReason",
    tags:       &[],
    shape:      Shape::Map { mandatory: &[K::T("index"), K::T("address")], optional: &[], other: Other::None },
    has_values: false,
};
const S_RR_BAL: Schema = Schema {
    name:       "TokenBalanceInsufficientRejectReason",
    tags:       &[],
    shape:      Shape::Map {
        mandatory: &[K::T("index"), K::T("availableBalance"), K::T("requiredBalance")],
        optional:  &[],
        other:     Other::None,
    },
    has_values: false,
};
const S_RR_DESER: Schema = Schema {
    name:       "DeserializationFailureRejectReason",
    tags:       &[],
    shape:      Shape::Map { mandatory: &[], optional: &[K::T("cause")], other: Other::None },
    has_values: false,
};
const S_RR_UNSUP: Schema = Schema {
    name:       "UnsupportedOperationRejectReason",
    tags:       &[],
    shape:      Shape::Map { mandatory: &[K::T("index"), K::T("operationType")], optional: &[K::T("reason")], other: Other::None },
    has_values: false,
};
const S_RR_PERM: Schema = Schema {
    name:       "OperationNotPermittedRejectReason",
    tags:       &[],
    shape:      Shape::Map { mandatory: &[K::T("index")], optional: &[K::T("address"), K::T("reason")], other: Other::None },
    has_values: false,
};
const S_RR_MINT: Schema = Schema {
    name:       "MintWouldOverflowRejectReason",
    tags:       &[],
    shape:      Shape::Map {
        mandatory: &[K::T("index"), K::T("requestedAmount"), K::T("currentSupply"), K::T("maxRepresentableAmount")],
        optional:  &[],
        other:     Other::None,
    },
    has_values: false,
};

fn g_transfer(u: &mut Unstructured) -> (TokenTransfer, M) {
    let (amount, am) = g_amount(u);
    let (recipient, rm) = g_holder(u);
    let mut es = vec![(M::text("amount"), am), (M::text("recipient"), rm)];
    let memo = opt(u, &mut es, "memo", g_memo);
    (TokenTransfer { amount, recipient, memo }, M::Map(es))
}

fn g_operation(u: &mut Unstructured) -> (TokenOperation, M) {
    let k = idx(u, 9);
    let (op, body) = match k {
        0 => {
            let (t, m) = g_transfer(u);
            (TokenOperation::Transfer(t), m)
        }
        1 | 2 => {
            let (amount, am) = g_amount(u);
            let d = TokenSupplyUpdateDetails { amount };
            (if k == 1 { TokenOperation::Mint(d) } else { TokenOperation::Burn(d) }, M::Map(vec![(M::text("amount"), am)]))
        }
        3..=6 => {
            let (target, tm) = g_holder(u);
            let d = TokenListUpdateDetails { target };
            let op = match k {
                3 => TokenOperation::AddAllowList(d),
                4 => TokenOperation::RemoveAllowList(d),
                5 => TokenOperation::AddDenyList(d),
                _ => TokenOperation::RemoveDenyList(d),
            };
            (op, M::Map(vec![(M::text("target"), tm)]))
        }
        7 => (TokenOperation::Pause(TokenPauseDetails {}), M::Map(vec![])),
        _ => (TokenOperation::Unpause(TokenPauseDetails {}), M::Map(vec![])),
    };
    (op, M::Map(vec![(M::text(OPS[k]), body)]))
}

fn g_operation_upward(u: &mut Unstructured) -> (CborUpward<TokenOperation>, M, bool) {
    if byte(u) % 4 == 0 {
        // an operation this version of the library does not know: a one-entry map with a fresh
        // text key and an arbitrary body
        let key = format!("{}{}", choose(u, &["futureOp", "x", "", "Transfer", "mintMore"]), byte(u) % 3);
        let mut fuel = 8usize;
        let body = canon(&gen::tree(u, &mut fuel, 4, Opt { nan_ok: false, long_ok: false, dup_ok: false }));
        let m = M::Map(vec![(M::Text(key), body)]);
        (Upward::Unknown(to_value(&m)), m, true)
    } else {
        let (op, m) = g_operation(u);
        (Upward::Known(op), m, false)
    }
}

fn discriminator(s: &str) -> TokenModuleCborTypeDiscriminator { s.to_string().try_into().expect("discriminator within 255 bytes") }

pub fn t_token(data: &[u8], ctx: &mut Ctx) -> CheckResult {
    let mut u = Unstructured::new(data);
    let u = &mut u;
    let which = idx(u, 28);
    macro_rules! run {
        ($sch:expr, $g:expr) => {{
            let (t, m) = $g;
            ctx.class($sch.name);
            ctx.sample(|| format!("{}: {:?}  ==  {}", $sch.name, t, diag(&canon(&m))));
            ctx.describe(|| format!("{}: {:?}\nmodel {}", $sch.name, t, diag(&canon(&m))));
            let nt = check_typed(ctx, u, &$sch, &t, &m)?;
            if nt {
                ctx.class("nt:optional-or-unknown-field");
                ctx.nontrivial(&($sch.name, encode(&canon(&m))));
            }
        }};
    }
    match which {
        0 | 1 => run!(S_AMOUNT, g_amount(u)),
        2 => run!(S_COIN, (CoinInfo::CCD, M::tag(T_COININFO, M::Map(vec![(M::Pos(1), M::Pos(919))])))),
        3 => run!(S_HOLDER, g_holder(u)),
        4 => run!(S_MEMO, g_memo(u)),
        5 | 6 => run!(S_TRANSFER, g_transfer(u)),
        7 => run!(S_SUPPLY, {
            let (amount, am) = g_amount(u);
            (TokenSupplyUpdateDetails { amount }, M::Map(vec![(M::text("amount"), am)]))
        }),
        8 => {
            if boolean(u) {
                run!(S_PAUSE, (TokenPauseDetails {}, M::Map(vec![])))
            } else {
                run!(S_PAUSE_EV, (TokenPauseEventDetails {}, M::Map(vec![])))
            }
        }
        9 => {
            let (target, tm) = g_holder(u);
            if boolean(u) {
                run!(S_LIST, (TokenListUpdateDetails { target }, M::Map(vec![(M::text("target"), tm)])))
            } else {
                run!(S_LIST_EV, (TokenListUpdateEventDetails { target }, M::Map(vec![(M::text("target"), tm)])))
            }
        }
        10 | 11 => run!(S_OP, g_operation(u)),
        12 => {
            let (t, m, unknown) = g_operation_upward(u);
            if unknown {
                ctx.class("unknown-operation");
            }
            run!(S_OP_UP, (t, m))
        }
        13 | 14 | 15 => {
            // operation sequences, incl. unknown operations and the payload entry point
            let n = match byte(u) % 8 {
                0 => 0,
                1 => 1,
                2 => *choose(u, &[23usize, 24, 25]),
                _ => range_usize(u, 1, 6),
            };
            let mut ops = Vec::new();
            let mut ms = Vec::new();
            let mut any_unknown = false;
            for _ in 0..n {
                let (t, m, unk) = g_operation_upward(u);
                any_unknown |= unk;
                ops.push(t);
                ms.push(m);
            }
            if any_unknown {
                ctx.class("sequence-with-unknown-operation");
            }
            ctx.class_n("operations", n as u64);
            let t = TokenOperations::new(ops);
            let m = M::Array(ms);
            // payload entry point agrees with plain decoding
            let bytes = enc(&t).map_err(|e| vcore::Violation::new("encode-total", e))?;
            let tid: TokenId = "TK-1".parse().expect("token id");
            let payload = TokenOperationsPayload { token_id: tid, operations: RawCbor::from(bytes.clone()) };
            match payload.decode_operations() {
                Ok(d) if d == t => {}
                other => vcore::vfail!("payload-decode", "decode_operations on {} gave {:?}, expected {:?}", hex(&bytes), other.map_err(|e| e.to_string()), t),
            }
            if any_unknown {
                ctx.nontrivial(&("ops", encode(&canon(&m))));
            }
            run!(S_OPS, (t, m))
        }
        16 => run!(S_METADATA, g_metadata(u)),
        17 => run!(S_STATE, {
            let mut es = Vec::new();
            let name = opt(u, &mut es, "name", g_string);
            let metadata = opt(u, &mut es, "metadata", g_metadata);
            let governance_account = opt(u, &mut es, "governanceAccount", g_holder);
            let allow_list = opt(u, &mut es, "allowList", g_bool);
            let deny_list = opt(u, &mut es, "denyList", g_bool);
            let mintable = opt(u, &mut es, "mintable", g_bool);
            let burnable = opt(u, &mut es, "burnable", g_bool);
            let paused = opt(u, &mut es, "paused", g_bool);
            let additional = g_additional(u, &mut es);
            (TokenModuleState { name, metadata, governance_account, allow_list, deny_list, mintable, burnable, paused, additional }, M::Map(es))
        }),
        18 => run!(S_ACC_STATE, {
            let mut es = Vec::new();
            let allow_list = opt(u, &mut es, "allowList", g_bool);
            let deny_list = opt(u, &mut es, "denyList", g_bool);
            let additional = g_additional(u, &mut es);
            (TokenModuleAccountState { allow_list, deny_list, additional }, M::Map(es))
        }),
        19 => run!(S_INIT, {
            let mut es = Vec::new();
            let name = opt(u, &mut es, "name", g_string);
            let metadata = opt(u, &mut es, "metadata", g_metadata);
            let governance_account = opt(u, &mut es, "governanceAccount", g_holder);
            let allow_list = opt(u, &mut es, "allowList", g_bool);
            let deny_list = opt(u, &mut es, "denyList", g_bool);
            let initial_supply = opt(u, &mut es, "initialSupply", g_amount);
            let mintable = opt(u, &mut es, "mintable", g_bool);
            let burnable = opt(u, &mut es, "burnable", g_bool);
            let additional = g_additional(u, &mut es);
            (
                TokenModuleInitializationParameters {
                    name,
                    metadata,
                    governance_account,
                    allow_list,
                    deny_list,
                    initial_supply,
                    mintable,
                    burnable,
                    additional,
                },
                M::Map(es),
            )
        }),
        20 => run!(S_RR_ADDR, {
            let (index, im) = g_index(u);
            let (address, am) = g_holder(u);
            (AddressNotFoundRejectReason { index, address }, M::Map(vec![(M::text("index"), im), (M::text("address"), am)]))
        }),
        21 => run!(S_RR_BAL, {
            let (index, im) = g_index(u);
            let (available_balance, a) = g_amount(u);
            let (required_balance, r) = g_amount(u);
            (
                TokenBalanceInsufficientRejectReason { index, available_balance, required_balance },
                M::Map(vec![(M::text("index"), im), (M::text("availableBalance"), a), (M::text("requiredBalance"), r)]),
            )
        }),
        22 => run!(S_RR_DESER, {
            let mut es = Vec::new();
            let cause = opt(u, &mut es, "cause", g_string);
            (DeserializationFailureRejectReason { cause }, M::Map(es))
        }),
        23 => run!(S_RR_UNSUP, {
            let (index, im) = g_index(u);
            let (operation_type, om) = g_string(u);
            let mut es = vec![(M::text("index"), im), (M::text("operationType"), om)];
            let reason = opt(u, &mut es, "reason", g_string);
            (UnsupportedOperationRejectReason { index, operation_type, reason }, M::Map(es))
        }),
        24 => run!(S_RR_PERM, {
            let (index, im) = g_index(u);
            let mut es = vec![(M::text("index"), im)];
            let address = opt(u, &mut es, "address", g_holder);
            let reason = opt(u, &mut es, "reason", g_string);
            (OperationNotPermittedRejectReason { index, address, reason }, M::Map(es))
        }),
        25 => run!(S_RR_MINT, {
            let (index, im) = g_index(u);
            let (requested_amount, a) = g_amount(u);
            let (current_supply, b) = g_amount(u);
            let (max_representable_amount, c) = g_amount(u);
            (
                MintWouldOverflowRejectReason { index, requested_amount, current_supply, max_representable_amount },
                M::Map(vec![
                    (M::text("index"), im),
                    (M::text("requestedAmount"), a),
                    (M::text("currentSupply"), b),
                    (M::text("maxRepresentableAmount"), c),
                ]),
            )
        }),
        26 => t_event(u, ctx)?,
        _ => t_reject(u, ctx)?,
    }
    Ok(())
}

/// `TokenModuleEvent::decode_token_module_event`: the type string selects the decoder; unknown
/// type strings give `Unknown(generic value)`.
fn t_event(u: &mut Unstructured, ctx: &mut Ctx) -> CheckResult {
    ctx.class("TokenModuleEvent");
    let k = idx(u, 8);
    let (target, tm) = g_holder(u);
    let list_m = M::Map(vec![(M::text("target"), tm)]);
    let list = TokenListUpdateEventDetails { target };
    let (ty, details, expected): (String, M, CborUpward<TokenModuleEventType>) = match k {
        0 => ("addAllowList".into(), list_m, Upward::Known(TokenModuleEventType::AddAllowList(list))),
        1 => ("removeAllowList".into(), list_m, Upward::Known(TokenModuleEventType::RemoveAllowList(list))),
        2 => ("addDenyList".into(), list_m, Upward::Known(TokenModuleEventType::AddDenyList(list))),
        3 => ("removeDenyList".into(), list_m, Upward::Known(TokenModuleEventType::RemoveDenyList(list))),
        4 => ("pause".into(), M::Map(vec![]), Upward::Known(TokenModuleEventType::Pause(TokenPauseEventDetails {}))),
        5 => ("unpause".into(), M::Map(vec![]), Upward::Known(TokenModuleEventType::Unpause(TokenPauseEventDetails {}))),
        _ => {
            let mut fuel = 8usize;
            let v = canon(&gen::tree(u, &mut fuel, 4, Opt { nan_ok: false, long_ok: false, dup_ok: false }));
            let ty = format!("{}{}", choose(u, &["futureEvent", "Pause", "addallowlist", "", "ü"]), byte(u) % 2);
            ctx.class("unknown-event-type");
            ctx.nontrivial(&("event", ty.clone(), encode(&v)));
            (ty, v.clone(), Upward::Unknown(to_value(&v)))
        }
    };
    let bytes = encode(&canon(&details));
    ctx.sample(|| format!("TokenModuleEvent type={:?} details={}", ty, diag(&details)));
    ctx.describe(|| format!("TokenModuleEvent type={:?} details={}", ty, diag(&details)));
    let ev = TokenModuleEvent { event_type: discriminator(&ty), details: RawCbor::from(bytes.clone()) };
    match ev.decode_token_module_event() {
        Ok(d) if d == expected => {}
        other => vcore::vfail!("event-decode", "type {:?} details {}: got {:?}, expected {:?}", ty, hex(&bytes), other.map_err(|e| e.to_string()), expected),
    }
    // trailing data in the details is rejected
    let mut x = bytes.clone();
    x.push(0xf6);
    let ev = TokenModuleEvent { event_type: discriminator(&ty), details: RawCbor::from(x.clone()) };
    if let Ok(d) = ev.decode_token_module_event() {
        vcore::vfail!("event-trailing-data", "type {:?} details {} accepted as {:?}", ty, hex(&x), d);
    }
    // a known type with ill-typed details is rejected
    if k < 6 {
        let bad = encode(&M::Array(vec![details]));
        let ev = TokenModuleEvent { event_type: discriminator(&ty), details: RawCbor::from(bad.clone()) };
        if let Ok(d) = ev.decode_token_module_event() {
            vcore::vfail!("event-ill-typed", "type {:?} details {} accepted as {:?}", ty, hex(&bad), d);
        }
    }
    Ok(())
}

fn t_reject(u: &mut Unstructured, ctx: &mut Ctx) -> CheckResult {
    ctx.class("TokenModuleRejectReason");
    let k = idx(u, 8);
    let (index, im) = g_index(u);
    let (ty, details, expected): (String, M, CborUpward<TokenModuleRejectReasonType>) = match k {
        0 => {
            let (address, am) = g_holder(u);
            (
                "addressNotFound".into(),
                M::Map(vec![(M::text("index"), im), (M::text("address"), am)]),
                Upward::Known(TokenModuleRejectReasonType::AddressNotFound(AddressNotFoundRejectReason { index, address })),
            )
        }
        1 => {
            let (available_balance, a) = g_amount(u);
            let (required_balance, r) = g_amount(u);
            (
                "tokenBalanceInsufficient".into(),
                M::Map(vec![(M::text("index"), im), (M::text("availableBalance"), a), (M::text("requiredBalance"), r)]),
                Upward::Known(TokenModuleRejectReasonType::TokenBalanceInsufficient(TokenBalanceInsufficientRejectReason {
                    index,
                    available_balance,
                    required_balance,
                })),
            )
        }
        2 => {
            let mut es = Vec::new();
            let cause = opt(u, &mut es, "cause", g_string);
            (
                "deserializationFailure".into(),
                M::Map(es),
                Upward::Known(TokenModuleRejectReasonType::DeserializationFailure(DeserializationFailureRejectReason { cause })),
            )
        }
        3 => {
            let (operation_type, om) = g_string(u);
            let mut es = vec![(M::text("index"), im), (M::text("operationType"), om)];
            let reason = opt(u, &mut es, "reason", g_string);
            (
                "unsupportedOperation".into(),
                M::Map(es),
                Upward::Known(TokenModuleRejectReasonType::UnsupportedOperation(UnsupportedOperationRejectReason {
                    index,
                    operation_type,
                    reason,
                })),
            )
        }
        4 => {
            let mut es = vec![(M::text("index"), im)];
            let address = opt(u, &mut es, "address", g_holder);
            let reason = opt(u, &mut es, "reason", g_string);
            (
                "operationNotPermitted".into(),
                M::Map(es),
                Upward::Known(TokenModuleRejectReasonType::OperationNotPermitted(OperationNotPermittedRejectReason {
                    index,
                    address,
                    reason,
                })),
            )
        }
        5 => {
            let (requested_amount, a) = g_amount(u);
            let (current_supply, b) = g_amount(u);
            let (max_representable_amount, c) = g_amount(u);
            (
                "mintWouldOverflow".into(),
                M::Map(vec![
                    (M::text("index"), im),
                    (M::text("requestedAmount"), a),
                    (M::text("currentSupply"), b),
                    (M::text("maxRepresentableAmount"), c),
                ]),
                Upward::Known(TokenModuleRejectReasonType::MintWouldOverflow(MintWouldOverflowRejectReason {
                    index,
                    requested_amount,
                    current_supply,
                    max_representable_amount,
                })),
            )
        }
        _ => {
            let mut fuel = 8usize;
            let v = canon(&gen::tree(u, &mut fuel, 4, Opt { nan_ok: false, long_ok: false, dup_ok: false }));
            let ty = format!("{}{}", choose(u, &["futureReason", "AddressNotFound", "", "ü"]), byte(u) % 2);
            ctx.class("unknown-reject-reason-type");
            ctx.nontrivial(&("reject", ty.clone(), encode(&v)));
            (ty, v.clone(), Upward::Unknown(to_value(&v)))
        }
    };
    let bytes = encode(&canon(&details));
    ctx.sample(|| format!("TokenModuleRejectReason type={:?} details={}", ty, diag(&details)));
    ctx.describe(|| format!("TokenModuleRejectReason type={:?} details={}", ty, diag(&details)));
    let tid: TokenId = "TK-1".parse().expect("token id");
    let rr = TokenModuleRejectReason { token_id: tid.clone(), reason_type: discriminator(&ty), details: Some(RawCbor::from(bytes.clone())) };
    match rr.decode_reject_reason() {
        Ok(d) if d == expected => {}
        other => vcore::vfail!("reject-decode", "type {:?} details {}: got {:?}, expected {:?}", ty, hex(&bytes), other.map_err(|e| e.to_string()), expected),
    }
    let mut x = bytes.clone();
    x.push(0x00);
    let rr = TokenModuleRejectReason { token_id: tid, reason_type: discriminator(&ty), details: Some(RawCbor::from(x.clone())) };
    if let Ok(d) = rr.decode_reject_reason() {
        vcore::vfail!("reject-trailing-data", "type {:?} details {} accepted as {:?}", ty, hex(&x), d);
    }
    Ok(())
}

/// A model tree of some token type, used as a seed for byte-level mutation.
pub fn seed_model(u: &mut Unstructured) -> M {
    match idx(u, 8) {
        0 => g_amount(u).1,
        1 => g_holder(u).1,
        2 => g_memo(u).1,
        3 => g_transfer(u).1,
        4 => g_operation(u).1,
        5 => {
            let n = range_usize(u, 0, 4);
            M::Array((0..n).map(|_| g_operation_upward(u).1).collect())
        }
        6 => g_metadata(u).1,
        _ => {
            let mut es = Vec::new();
            let _ = opt(u, &mut es, "name", g_string);
            let _ = opt(u, &mut es, "metadata", g_metadata);
            let _ = opt(u, &mut es, "governanceAccount", g_holder);
            let _ = opt(u, &mut es, "allowList", g_bool);
            let _ = opt(u, &mut es, "paused", g_bool);
            let _ = opt(u, &mut es, "initialSupply", g_amount);
            let _ = g_additional(u, &mut es);
            M::Map(es)
        }
    }
}
