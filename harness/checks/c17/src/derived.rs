//! Target `derive`: harness-defined types using `derive(CborSerialize, CborDeserialize)` with every
//! attribute the derive crate supports (`key` integer/text, `tag`, `peek_tag`, `transparent`,
//! `other` on fields and variants, `map`, `tagged`), plus primitives and collections.
use crate::gen::{self, Opt};
use crate::model::*;
use crate::typed::*;
use concordium_base::common::cbor::{value::Value, Bytes, CborMaybeKnown, DecimalFraction, MapKey, UnsignedDecimalFraction};
use concordium_base_derive::{CborDeserialize, CborSerialize};
use std::collections::HashMap;
use vcore::gen::*;
use vcore::{CheckResult, Ctx, Unstructured};

const TAG_STRUCT: u64 = 39999;
const TAG_WRAP: u64 = 39998;
const TAG_A: u64 = 39991;
const TAG_PEEK: u64 = 39992;
const TAG_ENUM: u64 = 39980;

#[derive(Debug, Clone, PartialEq, CborSerialize, CborDeserialize)]
pub struct DNamed {
    alpha:      u64,
    beta_gamma: String,
    #[cbor(key = 7)]
    k_int:      Option<i64>,
    #[cbor(key = "kk")]
    k_text:     Bytes,
    opt_flag:   Option<bool>,
    list:       Vec<u16>,
}

#[derive(Debug, Clone, PartialEq, CborSerialize, CborDeserialize)]
pub struct DTuple(u64, String, i8);

#[derive(Debug, Clone, PartialEq, CborSerialize, CborDeserialize)]
#[cbor(tag = TAG_STRUCT)]
pub struct DTagged {
    x_val: i32,
}

#[derive(Debug, Clone, PartialEq, CborSerialize, CborDeserialize)]
#[cbor(transparent)]
pub struct DWrap(DNamed);

#[derive(Debug, Clone, PartialEq, CborSerialize, CborDeserialize)]
#[cbor(transparent, tag = TAG_WRAP)]
pub struct DWrapTag {
    inner: DTuple,
}

#[derive(Debug, Clone, PartialEq, CborSerialize, CborDeserialize)]
pub struct DOther {
    first: u8,
    maybe: Option<String>,
    #[cbor(other)]
    rest:  HashMap<MapKey, Value>,
}

#[derive(Debug, Clone, PartialEq, CborSerialize, CborDeserialize)]
pub struct DEmpty {}

#[derive(Debug, Clone, PartialEq, CborSerialize, CborDeserialize)]
#[cbor(map)]
pub enum EMap {
    VarOne(u64),
    VarTwo(String),
    Nested(DTagged),
}

#[derive(Debug, Clone, PartialEq, CborSerialize, CborDeserialize)]
#[cbor(map)]
pub enum EMapOther {
    VarOne(u64),
    #[cbor(other)]
    Unknown(MapKey, Value),
}

#[derive(Debug, Clone, PartialEq, CborSerialize, CborDeserialize)]
#[cbor(tag = TAG_ENUM, map)]
pub enum EMapTagged {
    VarOne(u64),
    VarTwo(bool),
}

#[derive(Debug, Clone, PartialEq, CborSerialize, CborDeserialize)]
#[cbor(transparent, tag = TAG_PEEK)]
pub struct DPeek(String);

#[derive(Debug, Clone, PartialEq, CborSerialize, CborDeserialize)]
#[cbor(tagged)]
pub enum ETag {
    #[cbor(tag = TAG_A)]
    First(u64),
    #[cbor(peek_tag = TAG_PEEK)]
    Second(DPeek),
    Plain(String),
}

#[derive(Debug, Clone, PartialEq, CborSerialize, CborDeserialize)]
#[cbor(tagged)]
pub enum ETagOther {
    #[cbor(tag = TAG_A)]
    First(u64),
    #[cbor(other)]
    Unknown(u64, Value),
    Plain(String),
}

const S_NAMED: Schema = Schema {
    name:       "DNamed",
    tags:       &[],
    shape:      Shape::Map {
        mandatory: &[K::T("alpha"), K::T("betaGamma"), K::T("kk"), K::T("list")],
        optional:  &[K::P(7), K::T("optFlag")],
        other:     Other::None,
    },
    has_values: false,
};
const S_WRAP: Schema = Schema { name: "DWrap(transparent)", ..S_NAMED };
const S_TUPLE: Schema = Schema { name: "DTuple", tags: &[], shape: Shape::Array(3), has_values: false };
const S_WRAPTAG: Schema = Schema { name: "DWrapTag(transparent,tag)", tags: &[TAG_WRAP], shape: Shape::Array(3), has_values: false };
const S_TAGGED: Schema = Schema {
    name:       "DTagged(tag)",
    tags:       &[TAG_STRUCT],
    shape:      Shape::Map { mandatory: &[K::T("xVal")], optional: &[], other: Other::None },
    has_values: false,
};
const S_OTHER: Schema = Schema {
    name:       "DOther(other)",
    tags:       &[],
    shape:      Shape::Map { mandatory: &[K::T("first")], optional: &[K::T("maybe")], other: Other::Any },
    has_values: true,
};
const S_EMPTY: Schema =
    Schema { name: "DEmpty", tags: &[], shape: Shape::Map { mandatory: &[], optional: &[], other: Other::None }, has_values: false };
const EMAP_KEYS: [&str; 3] = ["varOne", "varTwo", "nested"];
const S_EMAP: Schema = Schema { name: "EMap(map)", tags: &[], shape: Shape::EnumMap { known: &EMAP_KEYS, open: false }, has_values: false };
const S_EMAP_MK: Schema =
    Schema { name: "CborMaybeKnown<EMap>", tags: &[], shape: Shape::EnumMap { known: &EMAP_KEYS, open: true }, has_values: true };
const S_EMAP_OTHER: Schema =
    Schema { name: "EMapOther(map,other)", tags: &[], shape: Shape::EnumMap { known: &["varOne"], open: true }, has_values: true };
const S_EMAP_TAGGED_MK: Schema = Schema { name: "CborMaybeKnown<EMapTagged(tag,map)>", tags: &[], shape: Shape::Opaque, has_values: false };
const S_ETAG: Schema =
    Schema { name: "ETag(tagged,peek_tag)", tags: &[], shape: Shape::EnumTag { tags: &[TAG_A, TAG_PEEK], open: false }, has_values: false };
const S_ETAG_MK: Schema =
    Schema { name: "CborMaybeKnown<ETag>", tags: &[], shape: Shape::EnumTag { tags: &[TAG_A, TAG_PEEK], open: true }, has_values: true };
const S_ETAG_OTHER: Schema =
    Schema { name: "ETagOther(tagged,other)", tags: &[], shape: Shape::EnumTag { tags: &[TAG_A], open: true }, has_values: true };
const S_DECFRAC: Schema = Schema { name: "DecimalFraction", tags: &[4], shape: Shape::Array(2), has_values: false };
const S_UDECFRAC: Schema = Schema { name: "UnsignedDecimalFraction", tags: &[4], shape: Shape::Array(2), has_values: false };
const S_PRIM: Schema = Schema { name: "primitive", tags: &[], shape: Shape::Opaque, has_values: false };

fn g_i64(u: &mut Unstructured) -> i64 {
    match byte(u) % 4 {
        0 => *choose(u, &[0i64, -1, -24, -25, -256, -257, -65536, -65537, i64::MIN, i64::MAX, 23, 24, -4294967296, -4294967297]),
        1 => gen::arg(u) as i64,
        2 => (gen::arg(u) as i64).wrapping_neg(),
        _ => boundary_u64(u) as i64,
    }
}

fn g_named(u: &mut Unstructured) -> (DNamed, M) {
    let alpha = gen::arg(u);
    let beta_gamma = gen::text(u, false);
    let kb = gen::bytestr(u, false);
    let n = range_usize(u, 0, 3);
    let list: Vec<u16> = (0..n).map(|_| *choose(u, &[0u16, 23, 24, 255, 256, 65535])).collect();
    let mut es = vec![
        (M::text("alpha"), M::Pos(alpha)),
        (M::text("betaGamma"), M::Text(beta_gamma.clone())),
        (M::text("kk"), M::Bytes(kb.clone())),
        (M::text("list"), M::Array(list.iter().map(|x| M::Pos(*x as u64)).collect())),
    ];
    let k_int = if boolean(u) {
        let i = g_i64(u);
        es.push((M::Pos(7), M::int(i as i128)));
        Some(i)
    } else {
        None
    };
    let opt_flag = if boolean(u) {
        let b = boolean(u);
        es.push((M::text("optFlag"), M::bool(b)));
        Some(b)
    } else {
        None
    };
    (DNamed { alpha, beta_gamma, k_int, k_text: Bytes(kb), opt_flag, list }, M::Map(es))
}

fn g_tuple(u: &mut Unstructured) -> (DTuple, M) {
    let a = gen::arg(u);
    let s = gen::text(u, false);
    let c = *choose(u, &[0i8, -1, 23, 24, -24, -25, 127, -128]);
    (DTuple(a, s.clone(), c), M::Array(vec![M::Pos(a), M::Text(s), M::int(c as i128)]))
}

fn g_value(u: &mut Unstructured) -> M {
    let mut fuel = 8usize;
    canon(&gen::tree(u, &mut fuel, 4, Opt { nan_ok: false, long_ok: false, dup_ok: false }))
}

macro_rules! prim {
    ($ctx:expr, $u:expr, $name:expr, $t:expr, $m:expr) => {{
        let t = $t;
        let m = $m;
        $ctx.class(concat!("prim:", $name));
        $ctx.sample(|| format!("{}: {:?}  ==  {}", $name, t, diag(&m)));
        $ctx.describe(|| format!("{}: {:?}  ==  {}", $name, t, diag(&m)));
        check_typed($ctx, $u, &Schema { name: $name, ..S_PRIM }, &t, &m)?;
    }};
}

pub fn t_derive(data: &[u8], ctx: &mut Ctx) -> CheckResult {
    let mut u = Unstructured::new(data);
    let u = &mut u;
    macro_rules! run {
        ($sch:expr, $g:expr) => {{
            let (t, m) = $g;
            ctx.class($sch.name);
            ctx.sample(|| format!("{}: {:?}  ==  {}", $sch.name, t, diag(&canon(&m))));
            ctx.describe(|| format!("{}: {:?}\nmodel {}", $sch.name, t, diag(&canon(&m))));
            let nt = check_typed(ctx, u, &$sch, &t, &m)?;
            if nt {
                ctx.class("nt:optional-or-unknown-field");
                ctx.nontrivial(&($sch.name, encode(&canon(&m))));
            }
        }};
    }
    match idx(u, 24) {
        0 | 1 => run!(S_NAMED, g_named(u)),
        2 => run!(S_WRAP, {
            let (t, m) = g_named(u);
            (DWrap(t), m)
        }),
        3 => run!(S_TUPLE, g_tuple(u)),
        4 => run!(S_WRAPTAG, {
            let (t, m) = g_tuple(u);
            (DWrapTag { inner: t }, M::tag(TAG_WRAP, m))
        }),
        5 => run!(S_TAGGED, {
            let x = *choose(u, &[0i32, -1, 23, 24, -24, -25, 65536, i32::MIN, i32::MAX]);
            (DTagged { x_val: x }, M::tag(TAG_STRUCT, M::Map(vec![(M::text("xVal"), M::int(x as i128))])))
        }),
        6 | 7 => run!(S_OTHER, {
            let first = byte(u);
            let mut es = vec![(M::text("first"), M::Pos(first as u64))];
            let maybe = if boolean(u) {
                let s = gen::text(u, false);
                es.push((M::text("maybe"), M::Text(s.clone())));
                Some(s)
            } else {
                None
            };
            let mut rest = HashMap::new();
            let n = range_usize(u, 0, 3);
            for i in 0..n {
                let v = g_value(u);
                if boolean(u) {
                    let k = format!("_r{}", i);
                    rest.insert(MapKey::Text(k.clone()), to_value(&v));
                    es.push((M::Text(k), v));
                } else {
                    let k = 100 + i as u64 * 100_000;
                    rest.insert(MapKey::Positive(k), to_value(&v));
                    es.push((M::Pos(k), v));
                }
            }
            (DOther { first, maybe, rest }, M::Map(es))
        }),
        8 => run!(S_EMPTY, (DEmpty {}, M::Map(vec![]))),
        9 | 10 | 11 => {
            let (t, m) = match byte(u) % 3 {
                0 => {
                    let a = gen::arg(u);
                    (EMap::VarOne(a), M::Map(vec![(M::text("varOne"), M::Pos(a))]))
                }
                1 => {
                    let s = gen::text(u, false);
                    (EMap::VarTwo(s.clone()), M::Map(vec![(M::text("varTwo"), M::Text(s))]))
                }
                _ => {
                    let x = *choose(u, &[0i32, -1, i32::MIN, i32::MAX, 255, 256]);
                    (
                        EMap::Nested(DTagged { x_val: x }),
                        M::Map(vec![(M::text("nested"), M::tag(TAG_STRUCT, M::Map(vec![(M::text("xVal"), M::int(x as i128))])))]),
                    )
                }
            };
            if boolean(u) {
                run!(S_EMAP, (t, m))
            } else {
                run!(S_EMAP_MK, (CborMaybeKnown::Known(t), m))
            }
        }
        12 => {
            // an unknown variant held by the wrapper / the other-variant
            let key = format!("future{}", byte(u) % 4);
            let v = g_value(u);
            let m = M::Map(vec![(M::Text(key.clone()), v.clone())]);
            ctx.class("unknown-variant-held");
            if boolean(u) {
                run!(S_EMAP_MK, (CborMaybeKnown::<EMap>::Unknown(to_value(&m)), m))
            } else {
                run!(S_EMAP_OTHER, (EMapOther::Unknown(MapKey::Text(key), to_value(&v)), m))
            }
        }
        13 => run!(S_EMAP_OTHER, {
            let a = gen::arg(u);
            (EMapOther::VarOne(a), M::Map(vec![(M::text("varOne"), M::Pos(a))]))
        }),
        14 => {
            // former finding C17-F2: a container-level #[cbor(tag)] on an enum was written by serialize
            // and consumed by deserialize_maybe_known, but not by deserialize.
            let (t, m) = if boolean(u) {
                let a = gen::arg(u);
                (EMapTagged::VarOne(a), M::tag(TAG_ENUM, M::Map(vec![(M::text("varOne"), M::Pos(a))])))
            } else {
                let b = boolean(u);
                (EMapTagged::VarTwo(b), M::tag(TAG_ENUM, M::Map(vec![(M::text("varTwo"), M::bool(b))])))
            };
            // (fixed in /repo 36d9830f4; the direct decode is asserted again)
            ctx.class("enum-with-container-tag-direct-decode");
            match dec::<EMapTagged>(&encode(&canon(&m)), false) {
                Ok(d) if d == t => {}
                Ok(_) => {
                    return Err(vcore::Violation::new(
                        "derive-enum-container-tag",
                        "an enum with a container-level #[cbor(tag)] decodes to a different value than was encoded".to_string(),
                    ))
                }
                Err(e) => {
                    return Err(vcore::Violation::new(
                        "derive-enum-container-tag",
                        format!("the derived encoding of an enum with a container-level #[cbor(tag)] is rejected by its derived decoder: {e}"),
                    ))
                }
            }
            run!(S_EMAP_TAGGED_MK, (CborMaybeKnown::Known(t), m))
        }
        15 | 16 => {
            let (t, m) = match byte(u) % 3 {
                0 => {
                    let a = gen::arg(u);
                    (ETag::First(a), M::tag(TAG_A, M::Pos(a)))
                }
                1 => {
                    let s = gen::text(u, false);
                    (ETag::Second(DPeek(s.clone())), M::tag(TAG_PEEK, M::Text(s)))
                }
                _ => {
                    let s = gen::text(u, false);
                    (ETag::Plain(s.clone()), M::Text(s))
                }
            };
            if boolean(u) {
                run!(S_ETAG, (t, m))
            } else {
                run!(S_ETAG_MK, (CborMaybeKnown::Known(t), m))
            }
        }
        17 => {
            let mut tg = gen::tag_no(u);
            while tg == TAG_A || tg == TAG_PEEK {
                tg += 1;
            }
            let v = g_value(u);
            let m = M::tag(tg, v.clone());
            ctx.class("unknown-variant-held");
            if boolean(u) {
                run!(S_ETAG_MK, (CborMaybeKnown::<ETag>::Unknown(to_value(&m)), m))
            } else {
                run!(S_ETAG_OTHER, (ETagOther::Unknown(tg, to_value(&v)), m))
            }
        }
        18 => run!(S_ETAG_OTHER, {
            if boolean(u) {
                let a = gen::arg(u);
                (ETagOther::First(a), M::tag(TAG_A, M::Pos(a)))
            } else {
                let s = gen::text(u, false);
                (ETagOther::Plain(s.clone()), M::Text(s))
            }
        }),
        19 => {
            let e = g_i64(u);
            if boolean(u) {
                let mant = g_i64(u);
                run!(S_DECFRAC, (DecimalFraction::new(e, mant), M::tag(4, M::Array(vec![M::int(e as i128), M::int(mant as i128)]))))
            } else {
                let mant = gen::arg(u);
                run!(S_UDECFRAC, (UnsignedDecimalFraction::new(e, mant), M::tag(4, M::Array(vec![M::int(e as i128), M::Pos(mant)]))))
            }
        }
        _ => t_prims(u, ctx)?,
    }
    Ok(())
}

/// Primitives and collections: exact bytes, round trip, range checks at the type's edges, and the
/// documented bignum (tag 2 / tag 3) alternative for integers.
fn t_prims(u: &mut Unstructured, ctx: &mut Ctx) -> CheckResult {
    match idx(u, 16) {
        0 => {
            let a = gen::arg(u);
            prim!(ctx, u, "u64", a, M::Pos(a));
        }
        1 => {
            let a = gen::arg(u);
            // narrowing: accepted exactly when in range, never wrapped
            macro_rules! narrow {
                ($t:ty) => {{
                    let b = encode(&M::Pos(a));
                    match (dec::<$t>(&b, false), <$t>::try_from(a)) {
                        (Ok(x), Ok(y)) if x == y => {}
                        (Err(_), Err(_)) => ctx.class("prim:out-of-range-rejected"),
                        (got, want) => vcore::vfail!("int-range", "{} as {}: got {:?}, expected {:?}", a, stringify!($t), got, want.ok()),
                    }
                }};
            }
            ctx.class("prim:unsigned-narrowing");
            narrow!(u8);
            narrow!(u16);
            narrow!(u32);
            narrow!(u64);
            narrow!(usize);
        }
        2 => {
            let i = g_i64(u);
            prim!(ctx, u, "i64", i, M::int(i as i128));
        }
        3 => {
            // any CBOR integer into signed types: accepted exactly when representable
            let neg = boolean(u);
            let a = gen::arg(u);
            let val: i128 = if neg { -(a as i128) - 1 } else { a as i128 };
            let b = encode(&M::int(val));
            macro_rules! narrow {
                ($t:ty) => {{
                    match (dec::<$t>(&b, false), <$t>::try_from(val)) {
                        (Ok(x), Ok(y)) if x == y => {}
                        (Err(_), Err(_)) => ctx.class("prim:out-of-range-rejected"),
                        (got, want) => vcore::vfail!("int-range", "{} as {}: got {:?}, expected {:?}", val, stringify!($t), got, want.ok()),
                    }
                }};
            }
            ctx.class("prim:signed-narrowing");
            narrow!(i8);
            narrow!(i16);
            narrow!(i32);
            narrow!(i64);
            narrow!(isize);
            if neg {
                // a negative integer is never an unsigned one
                if let Ok(x) = dec::<u64>(&b, false) {
                    vcore::vfail!("int-range", "{} accepted as u64 {}", val, x);
                }
            }
        }
        4 => {
            // bignum alternative (documented: "support the non-preferred bignum encoding as long as
            // we are within range"): value = big-endian bytes, leading zeros allowed
            let mut be = match byte(u) % 4 {
                0 => vec![],
                1 => gen::arg(u).to_be_bytes().to_vec(),
                2 => short_bytes(u, 10),
                _ => {
                    let mut v = vec![0u8; range_usize(u, 0, 4)];
                    v.extend_from_slice(&gen::arg(u).to_be_bytes());
                    v
                }
            };
            // long forms: the byte string of a bignum has no length limit; only its value is bounded
            match byte(u) % 8 {
                0 => be.insert(0, 1),
                1 => {
                    // a single high byte far above the 8 (or 16) least significant ones
                    let gap = range_usize(u, 0, 40);
                    let hi = byte(u);
                    let mut v = vec![hi];
                    v.extend(std::iter::repeat(0u8).take(gap));
                    v.extend_from_slice(&be);
                    be = v;
                    ctx.class("prim:bignum-long");
                }
                2 => {
                    // many leading zeros: still the same value
                    let mut v = vec![0u8; range_usize(u, 5, 40)];
                    v.extend_from_slice(&be);
                    be = v;
                    ctx.class("prim:bignum-long");
                }
                _ => {}
            }
            let val = be.iter().fold(num_bigint::BigUint::from(0u8), |acc, b| (acc << 8usize) + *b as u32);
            let want_u: Option<u64> = u64::try_from(&val).ok();
            let b = encode(&M::tag(2, M::Bytes(be.clone())));
            ctx.class("prim:bignum");
            match (dec::<u64>(&b, false), want_u) {
                (Ok(x), Some(y)) if x == y => {}
                (Err(_), None) => ctx.class("prim:out-of-range-rejected"),
                (got, want) => vcore::vfail!("bignum", "tag2 {} as u64: got {:?}, expected {:?}", hex(&be), got, want),
            }
            let want_i: Option<i64> = want_u.and_then(|x| i64::try_from(x).ok());
            match (dec::<i64>(&b, false), want_i) {
                (Ok(x), Some(y)) if x == y => {}
                (Err(_), None) => {}
                (got, want) => vcore::vfail!("bignum", "tag2 {} as i64: got {:?}, expected {:?}", hex(&be), got, want),
            }
            // tag 3: value is -1 - n
            let b3 = encode(&M::tag(3, M::Bytes(be.clone())));
            let want_n: Option<i64> = want_u.and_then(|x| i64::try_from(-(x as i128) - 1).ok());
            match (dec::<i64>(&b3, false), want_n) {
                (Ok(x), Some(y)) if x == y => {}
                (Err(_), None) => {}
                (got, want) => vcore::vfail!("bignum", "tag3 {} as i64: got {:?}, expected {:?}", hex(&be), got, want),
            }
            if let Ok(x) = dec::<u64>(&b3, false) {
                vcore::vfail!("bignum", "negative bignum {} accepted as u64 {}", hex(&be), x);
            }
        }
        5 => {
            let b = boolean(u);
            prim!(ctx, u, "bool", b, M::bool(b));
        }
        6 => {
            let s = gen::text(u, true);
            if crate::EXCLUDE_F1 && crate::straddles_chunk(&s) {
                ctx.class("excluded:text-char-straddles-4096-chunk");
                return Ok(());
            }
            prim!(ctx, u, "String", s.clone(), M::Text(s));
        }
        7 => {
            let b = gen::bytestr(u, true);
            prim!(ctx, u, "Bytes", Bytes(b.clone()), M::Bytes(b));
        }
        8 => {
            let a: [u8; 32] = array::<32>(u);
            prim!(ctx, u, "[u8;32]", a, M::Bytes(a.to_vec()));
            // any other length is rejected
            let n = *choose(u, &[0usize, 1, 31, 33, 64]);
            let b = encode(&M::Bytes(vec![7u8; n]));
            if let Ok(x) = dec::<[u8; 32]>(&b, false) {
                vcore::vfail!("fixed-length", "{}-byte string accepted as [u8;32]: {:?}", n, x);
            }
            ctx.class("prim:wrong-fixed-length");
        }
        9 => {
            let n = match byte(u) % 6 {
                0 => 0,
                1 => *choose(u, &[23usize, 24, 255, 256]),
                2 => 5000,
                _ => range_usize(u, 0, 6),
            };
            let v: Vec<u64> = (0..n).map(|i| if n > 8 { i as u64 * 37 } else { gen::arg(u) }).collect();
            prim!(ctx, u, "Vec<u64>", v.clone(), M::Array(v.iter().map(|x| M::Pos(*x)).collect()));
        }
        10 => {
            let n = range_usize(u, 0, 5);
            let mut h: HashMap<u64, i64> = HashMap::new();
            for _ in 0..n {
                h.insert(gen::arg(u), g_i64(u));
            }
            let mut es: Vec<(u64, i64)> = h.iter().map(|(k, v)| (*k, *v)).collect();
            es.sort();
            prim!(ctx, u, "HashMap<u64,i64>", h, M::Map(es.iter().map(|(k, v)| (M::Pos(*k), M::int(*v as i128))).collect()));
        }
        11 => {
            let o = if boolean(u) { Some(gen::arg(u)) } else { None };
            prim!(ctx, u, "Option<u64>", o, o.map(M::Pos).unwrap_or(M::null()));
        }
        12 => {
            let k = if boolean(u) { MapKey::Positive(gen::arg(u)) } else { MapKey::Text(gen::text(u, false)) };
            let m = match &k {
                MapKey::Positive(p) => M::Pos(*p),
                MapKey::Text(s) => M::Text(s.clone()),
            };
            prim!(ctx, u, "MapKey", k, m);
        }
        13 => {
            let n = range_usize(u, 0, 4);
            let v: Vec<String> = (0..n).map(|_| gen::text(u, false)).collect();
            prim!(ctx, u, "Vec<String>", v.clone(), M::Array(v.iter().map(|s| M::Text(s.clone())).collect()));
        }
        14 => {
            let n = range_usize(u, 0, 4);
            let v: Vec<Option<i8>> = (0..n).map(|_| if boolean(u) { Some(byte(u) as i8) } else { None }).collect();
            prim!(
                ctx,
                u,
                "Vec<Option<i8>>",
                v.clone(),
                M::Array(v.iter().map(|s| s.map(|x| M::int(x as i128)).unwrap_or(M::null())).collect())
            );
        }
        _ => {
            // ill-typed primitives are rejected
            let m = {
                let mut fuel = 4usize;
                gen::tree(u, &mut fuel, 2, Opt { nan_ok: true, long_ok: false, dup_ok: false })
            };
            let b = encode(&canon(&m));
            ctx.class("prim:ill-typed-probe");
            let is = |f: fn(&M) -> bool| f(&m);
            if !is(|m| matches!(m, M::Pos(_)) || matches!(m, M::Tag(2, x) if matches!(**x, M::Bytes(_)))) {
                if let Ok(x) = dec::<u64>(&b, false) {
                    vcore::vfail!("ill-typed", "{} accepted as u64 {}", diag(&m), x);
                }
            }
            if !is(|m| matches!(m, M::Text(_))) {
                if let Ok(x) = dec::<String>(&b, false) {
                    vcore::vfail!("ill-typed", "{} accepted as String {:?}", diag(&m), x);
                }
            }
            if !is(|m| matches!(m, M::Bytes(_))) {
                if let Ok(x) = dec::<Bytes>(&b, false) {
                    vcore::vfail!("ill-typed", "{} accepted as Bytes {:?}", diag(&m), x);
                }
            }
            if !is(|m| matches!(m, M::Simple(FALSE) | M::Simple(TRUE))) {
                if let Ok(x) = dec::<bool>(&b, false) {
                    vcore::vfail!("ill-typed", "{} accepted as bool {:?}", diag(&m), x);
                }
            }
            if !is(|m| matches!(m, M::Array(_))) {
                if let Ok(x) = dec::<Vec<Value>>(&b, false) {
                    vcore::vfail!("ill-typed", "{} accepted as Vec {:?}", diag(&m), x);
                }
            }
            if !is(|m| matches!(m, M::Map(_))) {
                if let Ok(x) = dec::<DEmpty>(&b, false) {
                    vcore::vfail!("ill-typed", "{} accepted as struct {:?}", diag(&m), x);
                }
            }
            if !is(|m| matches!(m, M::Float(_))) {
                if let Ok(x) = dec::<f64>(&b, false) {
                    vcore::vfail!("ill-typed", "{} accepted as f64 {:?}", diag(&m), x);
                }
            }
        }
    }
    Ok(())
}

/// A model tree of some harness-defined type, used as a seed for byte-level mutation.
pub fn seed_model(u: &mut Unstructured) -> M {
    match idx(u, 6) {
        0 => g_named(u).1,
        1 => g_tuple(u).1,
        2 => M::tag(TAG_WRAP, g_tuple(u).1),
        3 => M::Map(vec![(M::text("first"), M::Pos(byte(u) as u64)), (M::text("_r0"), g_value(u)), (M::Pos(100), g_value(u))]),
        4 => M::Map(vec![(M::text(*choose(u, &["varOne", "varTwo", "nested", "other"])), g_value(u))]),
        _ => M::tag(*choose(u, &[TAG_A, TAG_PEEK, TAG_STRUCT, 5]), g_value(u)),
    }
}
