//! Generators over the choice sequence: CBOR model trees, strings, floats, integers at the
//! encoding-width boundaries, and a deliberately sloppy (non-preferred) encoder used to produce
//! alternative encodings of the same data.
use crate::model::*;
use vcore::gen::*;
use vcore::Unstructured;

pub const ARG_TABLE: [u64; 26] = [
    0,
    1,
    10,
    22,
    23,
    24,
    25,
    100,
    254,
    255,
    256,
    257,
    1000,
    65534,
    65535,
    65536,
    65537,
    0xffff_fffe,
    0xffff_ffff,
    0x1_0000_0000,
    0x1_0000_0001,
    i64::MAX as u64,
    1u64 << 63,
    (1u64 << 63) + 1,
    u64::MAX - 1,
    u64::MAX,
];

/// Integer argument: mostly from the width-boundary table.
pub fn arg(u: &mut Unstructured) -> u64 {
    match byte(u) % 8 {
        0..=4 => *choose(u, &ARG_TABLE),
        5 => byte(u) as u64,
        6 => boundary_u64(u),
        _ => u64v(u),
    }
}

/// Tag numbers: boundary table plus the tags the crate gives a meaning to.
pub fn tag_no(u: &mut Unstructured) -> u64 {
    const T: [u64; 12] = [0, 1, 2, 3, 4, 24, 39991, 39999, 40305, 40307, 55799, 23];
    match byte(u) % 4 {
        0 | 1 => *choose(u, &T),
        _ => arg(u),
    }
}

const CHARS: [char; 16] = [
    'a', 'Z', '0', ' ', '\u{0}', '\u{7f}', '\u{80}', 'é', 'ü', '\u{7ff}', '\u{800}', '水', '\u{ffff}', '\u{10000}', '😀', '\u{10ffff}',
];

fn one_char(u: &mut Unstructured) -> char { *choose(u, &CHARS) }

/// Length classes for strings: around the head-width boundaries.
fn len_class(u: &mut Unstructured) -> usize {
    match byte(u) % 16 {
        0 => 0,
        1 => 1,
        2..=7 => range_usize(u, 0, 12),
        8 => 23,
        9 => 24,
        10 => range_usize(u, 22, 26),
        11 => 255,
        12 => 256,
        13 => range_usize(u, 254, 258),
        14 => range_usize(u, 26, 300),
        _ => range_usize(u, 0, 40),
    }
}

/// Text string. `long_ok` additionally allows strings longer than the decoder's 4096-byte chunk
/// size (built by repetition so that the choice sequence stays short), and of 65535/65536 bytes.
pub fn text(u: &mut Unstructured, long_ok: bool) -> String {
    let k = byte(u) % 16;
    if long_ok && k == 15 {
        // long: `prefix_len` ASCII bytes, then a repeating pattern with multi-byte characters
        let prefix = match byte(u) % 6 {
            0 => range_usize(u, 4090, 4100),
            1 => range_usize(u, 8186, 8196),
            2 => range_usize(u, 0, 5000),
            3 => 65535 - range_usize(u, 0, 4),
            4 => 65536,
            _ => range_usize(u, 4000, 13000),
        };
        let mut s = String::with_capacity(prefix + 64);
        let fill = if boolean(u) { 'a' } else { one_char(u) };
        while s.len() < prefix {
            s.push(if s.len() + fill.len_utf8() <= prefix { fill } else { 'a' });
        }
        let tail = range_usize(u, 0, 12);
        for _ in 0..tail {
            s.push(one_char(u));
        }
        return s;
    }
    let n = len_class(u);
    let mut s = String::new();
    match k % 4 {
        0 => {
            // ASCII of exactly n bytes
            let c = (b'a' + byte(u) % 26) as char;
            for _ in 0..n {
                s.push(c);
            }
        }
        1 => {
            // mixed characters, about n bytes (exactly n when it can be padded with ASCII)
            while s.len() < n {
                let c = if n > 40 { CHARS[(s.len() * 7 + n) % CHARS.len()] } else { one_char(u) };
                if s.len() + c.len_utf8() <= n {
                    s.push(c);
                } else {
                    s.push('x');
                }
            }
        }
        2 => {
            // identifier-like
            const W: [&str; 10] = ["", "a", "url", "name", "_x", "amount", "transfer", "füü", "https://example.com/plt.json", "0"];
            s.push_str(*choose(u, &W));
        }
        _ => {
            let m = n.min(16);
            for _ in 0..m {
                s.push(one_char(u));
            }
        }
    }
    s
}

pub fn bytestr(u: &mut Unstructured, long_ok: bool) -> Vec<u8> {
    if long_ok && byte(u) % 32 == 31 {
        let n = match byte(u) % 4 {
            0 => range_usize(u, 4090, 4100),
            1 => 65535,
            2 => 65536,
            _ => range_usize(u, 4000, 13000),
        };
        let b = byte(u);
        return (0..n).map(|i| b.wrapping_add(i as u8)).collect();
    }
    let n = len_class(u);
    if n <= 16 {
        bytes(u, n)
    } else {
        let b = byte(u);
        (0..n).map(|i| b.wrapping_add((i * 31) as u8)).collect()
    }
}

pub fn float(u: &mut Unstructured, nan_ok: bool) -> f64 {
    const F: [u64; 24] = [
        0x0000_0000_0000_0000, // +0
        0x8000_0000_0000_0000, // -0
        0x3ff0_0000_0000_0000, // 1.0
        0x3ff8_0000_0000_0000, // 1.5
        0xc010_6666_6666_6666, // -4.1
        0x7ff0_0000_0000_0000, // +inf
        0xfff0_0000_0000_0000, // -inf
        0x3e70_0000_0000_0000, // 2^-24  smallest f16 subnormal
        0x3f10_0000_0000_0000, // 2^-14  smallest f16 normal
        0x40ef_fc00_0000_0000, // 65504  largest f16
        0x40ef_fc00_0000_0001, // just above, needs f64
        0x40f0_0000_0000_0000, // 65536  needs f32
        0x36a0_0000_0000_0000, // 2^-149 smallest f32 subnormal
        0x3810_0000_0000_0000, // 2^-126 smallest f32 normal
        0x47ef_ffff_e000_0000, // f32::MAX
        0x47ef_ffff_e000_0001, // just above f32::MAX mantissa
        0x0000_0000_0000_0001, // smallest f64 subnormal
        0x000f_ffff_ffff_ffff, // largest f64 subnormal
        0x0010_0000_0000_0000, // f64 min normal
        0x7fef_ffff_ffff_ffff, // f64::MAX
        0x3ff1_9999_9999_999a, // 1.1
        0x40f8_6a00_0000_0000, // 100000.0
        0x3ff1_f7ce_d916_872b, // 1.123
        0x4009_21fb_5444_2d18, // pi
    ];
    const NANS: [u64; 7] = [
        0x7ff8_0000_0000_0000, // canonical quiet NaN
        0xfff8_0000_0000_0000, // negative quiet NaN
        0x7ff8_0400_0000_0000, // quiet, payload fits f16
        0x7ff8_0000_2000_0000, // quiet, payload fits f32
        0x7ff8_0000_0000_0001, // quiet, payload needs f64
        0x7ff0_0000_0000_0001, // signalling, needs f64
        0x7ff4_0000_0000_0000, // signalling, payload fits f16
    ];
    let bits = match byte(u) % 8 {
        0..=4 => *choose(u, &F),
        5 if nan_ok => *choose(u, &NANS),
        5 => *choose(u, &F),
        6 => (u32v(u) as f32 as f64).to_bits(),
        _ => u64v(u),
    };
    let f = f64::from_bits(bits);
    if f.is_nan() && !nan_ok {
        1.25
    } else {
        f
    }
}

/// Simple values inside the generic data model's domain: 0..=19 unassigned, 20/21/22/23, and
/// 32..=255. (24..=31 are reserved and have no well-formed encoding.)
pub fn simple(u: &mut Unstructured) -> u8 {
    match byte(u) % 8 {
        0 => FALSE,
        1 => TRUE,
        2 => NULL,
        3 => 23,
        4 => byte(u) % 20,
        5 => *choose(u, &[32u8, 33, 255, 254, 100]),
        _ => {
            let x = byte(u);
            if (24..32).contains(&x) {
                x + 8
            } else {
                x
            }
        }
    }
}

#[derive(Clone, Copy)]
pub struct Opt {
    pub nan_ok:  bool,
    pub long_ok: bool,
    /// allow two entries of one map to have the same key
    pub dup_ok:  bool,
}

pub fn scalar(u: &mut Unstructured, o: Opt) -> M {
    match byte(u) % 12 {
        0 | 1 => M::Pos(arg(u)),
        2 | 3 => M::Neg(arg(u)),
        4 | 5 => M::Bytes(bytestr(u, o.long_ok)),
        6 | 7 => M::Text(text(u, o.long_ok)),
        8 | 9 => M::Simple(simple(u)),
        _ => M::Float(float(u, o.nan_ok)),
    }
}

/// Decimal fraction / bigfloat shaped items (tag 4, tag 5, bignums).
pub fn decimal_fraction(u: &mut Unstructured) -> M {
    let exp = match byte(u) % 4 {
        0 => M::int(-(byte(u) as i128)),
        1 => M::int(byte(u) as i128 - 128),
        2 => M::Neg(arg(u)),
        _ => M::Pos(arg(u)),
    };
    let man = match byte(u) % 6 {
        0 | 1 => M::Pos(arg(u)),
        2 => M::Neg(arg(u)),
        3 => M::tag(2, M::Bytes(short_bytes(u, 12))),
        4 => M::tag(3, M::Bytes(short_bytes(u, 12))),
        _ => M::Pos(u64v(u)),
    };
    let t = if byte(u) % 8 == 0 { 5 } else { 4 };
    M::tag(t, M::Array(vec![exp, man]))
}

fn dedup_keys(es: &mut Vec<(M, M)>) {
    let mut seen: Vec<Vec<u8>> = Vec::new();
    es.retain(|(k, _)| {
        let e = encode(&canon(k));
        if seen.contains(&e) {
            false
        } else {
            seen.push(e);
            true
        }
    });
}

/// General tree with a node budget (`fuel`) and a depth budget.
pub fn tree(u: &mut Unstructured, fuel: &mut usize, depth_left: usize, o: Opt) -> M {
    if *fuel == 0 || depth_left == 0 {
        return scalar(u, Opt { long_ok: false, ..o });
    }
    *fuel -= 1;
    match byte(u) % 16 {
        0..=5 => scalar(u, o),
        6..=8 => {
            let n = range_usize(u, 0, 5).min(*fuel);
            M::Array((0..n).map(|_| tree(u, fuel, depth_left - 1, o)).collect())
        }
        9..=11 => {
            let n = range_usize(u, 0, 4).min(*fuel);
            let mut es: Vec<(M, M)> = (0..n)
                .map(|_| {
                    // keys: mostly the kinds used in practice (text, unsigned), sometimes anything
                    let k = match byte(u) % 8 {
                        0..=2 => M::Text(text(u, false)),
                        3..=4 => M::Pos(arg(u)),
                        5 => M::Neg(arg(u)),
                        6 => scalar(u, Opt { long_ok: false, ..o }),
                        _ => tree(u, fuel, depth_left - 1, o),
                    };
                    (k, tree(u, fuel, depth_left - 1, o))
                })
                .collect();
            if o.dup_ok && es.len() >= 2 && byte(u) % 8 == 0 {
                let k = es[0].0.clone();
                es[1].0 = k;
            } else {
                dedup_keys(&mut es);
            }
            M::Map(es)
        }
        12..=13 => M::tag(tag_no(u), tree(u, fuel, depth_left - 1, o)),
        14 => decimal_fraction(u),
        _ => {
            // a run of equal small items with a length on a head-width boundary
            let n = *choose(u, &[22usize, 23, 24, 25, 255, 256]);
            let x = scalar(u, Opt { long_ok: false, ..o });
            if boolean(u) {
                M::Array(vec![x; n])
            } else {
                M::Map((0..n).map(|i| (M::Pos(i as u64), x.clone())).collect())
            }
        }
    }
}

/// A chain of `d` nested containers around a leaf.
pub fn chain(u: &mut Unstructured, d: usize, o: Opt) -> M {
    let mut m = scalar(u, Opt { long_ok: false, ..o });
    for _ in 0..d {
        m = match byte(u) % 6 {
            0 | 1 => M::Array(vec![m]),
            2 => M::Array(vec![M::Pos(arg(u)), m]),
            3 => M::Map(vec![(M::Text(text(u, false)), m)]),
            4 => M::Map(vec![(m, M::Pos(arg(u)))]),
            _ => M::tag(tag_no(u), m),
        };
    }
    m
}

// ------------------------------------------------------------------------------------------
// Sloppy encoder: same data model, non-preferred serialisation chosen from the choice sequence.

#[derive(Default, Debug, Clone)]
pub struct Sloppy {
    pub non_minimal: bool,
    pub indefinite:  bool,
    pub chunked:     bool,
    pub float_wide:  bool,
}

fn head_sloppy(out: &mut Vec<u8>, major: u8, a: u64, u: &mut Unstructured, s: &mut Sloppy) {
    let min_w = if a < 24 {
        0
    } else if a < 0x100 {
        1
    } else if a < 0x1_0000 {
        2
    } else if a < 0x1_0000_0000 {
        4
    } else {
        8
    };
    let widths = [0usize, 1, 2, 4, 8];
    let w = if byte(u) % 4 == 0 {
        let cands: Vec<usize> = widths.iter().copied().filter(|w| *w >= min_w).collect();
        *choose(u, &cands)
    } else {
        min_w
    };
    if w != min_w {
        s.non_minimal = true;
    }
    let m = major << 5;
    match w {
        0 => out.push(m | a as u8),
        1 => {
            out.push(m | 24);
            out.push(a as u8)
        }
        2 => {
            out.push(m | 25);
            out.extend_from_slice(&(a as u16).to_be_bytes())
        }
        4 => {
            out.push(m | 26);
            out.extend_from_slice(&(a as u32).to_be_bytes())
        }
        _ => {
            out.push(m | 27);
            out.extend_from_slice(&a.to_be_bytes())
        }
    }
}

/// Encode `m` (map entries in the given order) with heads of arbitrary width, indefinite-length
/// arrays/maps, chunked strings (text chunks split at character boundaries) and floats wider than
/// necessary. The result is well-formed CBOR denoting the same data.
pub fn encode_sloppy(out: &mut Vec<u8>, m: &M, u: &mut Unstructured, s: &mut Sloppy) {
    match m {
        M::Pos(x) => head_sloppy(out, 0, *x, u, s),
        M::Neg(x) => head_sloppy(out, 1, *x, u, s),
        M::Bytes(b) => {
            if byte(u) % 6 == 0 {
                s.indefinite = true;
                s.chunked = true;
                out.push(0x5f);
                let cut = range_usize(u, 0, b.len());
                for part in [&b[..cut], &b[cut..]] {
                    if !part.is_empty() || boolean(u) {
                        head_sloppy(out, 2, part.len() as u64, u, s);
                        out.extend_from_slice(part);
                    }
                }
                out.push(0xff);
            } else {
                head_sloppy(out, 2, b.len() as u64, u, s);
                out.extend_from_slice(b);
            }
        }
        M::Text(t) => {
            if byte(u) % 6 == 0 {
                s.indefinite = true;
                s.chunked = true;
                out.push(0x7f);
                let mut cut = range_usize(u, 0, t.len());
                while !t.is_char_boundary(cut) {
                    cut -= 1;
                }
                for part in [&t[..cut], &t[cut..]] {
                    if !part.is_empty() || boolean(u) {
                        head_sloppy(out, 3, part.len() as u64, u, s);
                        out.extend_from_slice(part.as_bytes());
                    }
                }
                out.push(0xff);
            } else {
                head_sloppy(out, 3, t.len() as u64, u, s);
                out.extend_from_slice(t.as_bytes());
            }
        }
        M::Array(xs) => {
            let indef = byte(u) % 5 == 0;
            if indef {
                s.indefinite = true;
                out.push(0x9f);
            } else {
                head_sloppy(out, 4, xs.len() as u64, u, s);
            }
            for x in xs {
                encode_sloppy(out, x, u, s);
            }
            if indef {
                out.push(0xff);
            }
        }
        M::Map(xs) => {
            let indef = byte(u) % 5 == 0;
            if indef {
                s.indefinite = true;
                out.push(0xbf);
            } else {
                head_sloppy(out, 5, xs.len() as u64, u, s);
            }
            for (k, v) in xs {
                encode_sloppy(out, k, u, s);
                encode_sloppy(out, v, u, s);
            }
            if indef {
                out.push(0xff);
            }
        }
        M::Tag(t, x) => {
            head_sloppy(out, 6, *t, u, s);
            encode_sloppy(out, x, u, s);
        }
        M::Simple(_) => encode_into(out, m),
        M::Float(f) => {
            let mut pref = Vec::new();
            encode_into(&mut pref, m);
            if byte(u) % 3 == 0 && pref.len() < 9 {
                s.float_wide = true;
                let f32_exact = ((*f as f32) as f64).to_bits() == f.to_bits();
                if pref.len() == 3 && f32_exact && boolean(u) {
                    out.push(0xfa);
                    out.extend_from_slice(&(*f as f32).to_bits().to_be_bytes());
                } else {
                    out.push(0xfb);
                    out.extend_from_slice(&f.to_bits().to_be_bytes());
                }
            } else {
                out.extend_from_slice(&pref);
            }
        }
    }
}

/// Shuffle the entries of every map (order taken from the choice sequence).
pub fn shuffle_maps(m: &M, u: &mut Unstructured) -> M {
    match m {
        M::Array(xs) => M::Array(xs.iter().map(|x| shuffle_maps(x, u)).collect()),
        M::Tag(t, x) => M::tag(*t, shuffle_maps(x, u)),
        M::Map(xs) => {
            let mut es: Vec<(M, M)> = xs.iter().map(|(k, v)| (shuffle_maps(k, u), shuffle_maps(v, u))).collect();
            let n = es.len();
            for i in (1..n).rev() {
                let j = idx(u, i + 1);
                es.swap(i, j);
            }
            M::Map(es)
        }
        other => other.clone(),
    }
}
