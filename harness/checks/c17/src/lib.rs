//! C17: CBOR codec and protocol-level token types round-trip deterministically.
//! See NOTES.md for generator / oracle / assumptions / sensitivity log.
pub mod amount;
pub mod bytes;
pub mod derived;
pub mod gen;
pub mod model;
pub mod tokens;
pub mod typed;

use concordium_base::common::cbor::{cbor_decode, cbor_decode_with_options, cbor_encode, value::Value};
use gen::Opt;
use model::*;
use vcore::gen::*;
use vcore::{CheckResult, Ctx, Property, Target, Unstructured, Violation};

/// Size of the chunks in which the crate's decoder pulls string content
/// (`MAX_PRE_ALLOCATED_SIZE` in common/cbor.rs).
pub const CHUNK: usize = 4096;

/// Signature of finding C17-F1: a text string longer than 4096 bytes in which a multi-byte UTF-8
/// character straddles a multiple of 4096 (counted from the start of the string content).
pub const EXCLUDE_F1: bool = false;

pub fn straddles_chunk(s: &str) -> bool {
    let mut k = CHUNK;
    while k < s.len() {
        if !s.is_char_boundary(k) {
            return true;
        }
        k += CHUNK;
    }
    false
}

fn any_straddling_text(m: &M) -> bool {
    match m {
        M::Text(s) => straddles_chunk(s),
        M::Array(xs) => xs.iter().any(any_straddling_text),
        M::Map(xs) => xs.iter().any(|(k, v)| any_straddling_text(k) || any_straddling_text(v)),
        M::Tag(_, x) => any_straddling_text(x),
        _ => false,
    }
}

fn max_text_len(m: &M) -> usize {
    match m {
        M::Text(s) => s.len(),
        M::Array(xs) => xs.iter().map(max_text_len).max().unwrap_or(0),
        M::Map(xs) => xs.iter().map(|(k, v)| max_text_len(k).max(max_text_len(v))).max().unwrap_or(0),
        M::Tag(_, x) => max_text_len(x),
        _ => 0,
    }
}

fn has_nan(m: &M) -> bool {
    match m {
        M::Float(f) => f.is_nan(),
        M::Array(xs) => xs.iter().any(has_nan),
        M::Map(xs) => xs.iter().any(|(k, v)| has_nan(k) || has_nan(v)),
        M::Tag(_, x) => has_nan(x),
        _ => false,
    }
}

/// Equality that identifies all NaNs (used where two *different* f16/f32 -> f64 widenings are
/// compared, which may or may not quieten a signalling NaN).
pub fn eq_mod_nan(a: &M, b: &M) -> bool {
    match (a, b) {
        (M::Float(x), M::Float(y)) => x.to_bits() == y.to_bits() || (x.is_nan() && y.is_nan()),
        (M::Array(x), M::Array(y)) => x.len() == y.len() && x.iter().zip(y).all(|(p, q)| eq_mod_nan(p, q)),
        (M::Map(x), M::Map(y)) => x.len() == y.len() && x.iter().zip(y).all(|(p, q)| eq_mod_nan(&p.0, &q.0) && eq_mod_nan(&p.1, &q.1)),
        (M::Tag(s, x), M::Tag(t, y)) => s == t && eq_mod_nan(x, y),
        _ => a == b,
    }
}

fn gen_value_case(u: &mut Unstructured, ctx: &mut Ctx) -> M {
    let o = Opt { nan_ok: true, long_ok: true, dup_ok: true };
    match byte(u) % 16 {
        0 | 1 => {
            ctx.class("shape:scalar");
            gen::scalar(u, o)
        }
        2..=8 => {
            ctx.class("shape:tree");
            let mut fuel = range_usize(u, 1, 40);
            let d = range_usize(u, 1, 8);
            gen::tree(u, &mut fuel, d, o)
        }
        9 | 10 => {
            ctx.class("shape:chain");
            let d = *choose(u, &[1usize, 2, 3, 4, 8, 16, 31, 32, 33, 48, 62, 63, 64]);
            gen::chain(u, d, o)
        }
        11 => {
            ctx.class("shape:chain-of-trees");
            let d = range_usize(u, 2, 60);
            let mut fuel = 12usize;
            let leaf = gen::tree(u, &mut fuel, 4, o);
            let mut m = leaf;
            for _ in 0..d {
                m = match byte(u) % 3 {
                    0 => M::Array(vec![m]),
                    1 => M::Map(vec![(M::Pos(gen::arg(u)), m)]),
                    _ => M::tag(gen::tag_no(u), m),
                };
            }
            m
        }
        12 => {
            ctx.class("shape:decimal-fraction");
            gen::decimal_fraction(u)
        }
        13 => {
            ctx.class("shape:wide");
            // many equal items; 65535/65536 rarely (they cost milliseconds)
            let n = match byte(u) % 64 {
                0 => 65535,
                1 => 65536,
                2 => 10000,
                3..=20 => 256,
                21..=38 => 255,
                _ => *choose(u, &[23usize, 24, 25, 257, 1000]),
            };
            let x = gen::scalar(u, Opt { long_ok: false, ..o });
            match byte(u) % 3 {
                0 => M::Array(vec![x; n]),
                1 => M::Map((0..n).map(|i| (M::Pos(i as u64), x.clone())).collect()),
                _ => M::Map((0..n).rev().map(|i| (M::Text(format!("k{}", i)), x.clone())).collect()),
            }
        }
        _ => {
            ctx.class("shape:tree-deep");
            let mut fuel = range_usize(u, 8, 80);
            let d = range_usize(u, 8, 64);
            gen::tree(u, &mut fuel, d, o)
        }
    }
}

/// Target `value`: the generic data model.
fn t_value(data: &[u8], ctx: &mut Ctx) -> CheckResult {
    let mut u = Unstructured::new(data);
    let u = &mut u;
    let m = gen_value_case(u, ctx);
    let depth = m.depth();
    debug_assert!(depth <= 64 + 4, "generator exceeded depth: {}", depth);
    if depth > 64 {
        ctx.class("excluded:depth>64");
        return Ok(());
    }
    ctx.sample(|| format!("depth {} nodes {}: {}", depth, m.nodes(), diag(&m)));
    ctx.describe(|| format!("depth {} nodes {}: {}\nreference encoding: {}", depth, m.nodes(), diag(&m), hex(&encode_canon(&m))));
    if EXCLUDE_F1 && any_straddling_text(&m) {
        // finding C17-F1; the signature is excluded by construction and counted. The probe below
        // only records whether the defect is still present (set EXCLUDE_F1 = false once fixed).
        ctx.class("excluded:text-char-straddles-4096-chunk");
        let v = to_value(&m);
        let e = cbor_encode(&v).map_err(|e| Violation::new("encode-total", e.to_string()))?;
        match cbor_decode::<Value>(&e) {
            Err(_) => ctx.class("F1:still-rejected"),
            Ok(_) => ctx.class("F1:now-accepted"),
        }
        return Ok(());
    }
    let boundary = m.has_boundary_int();
    let dup = m.has_dup_keys();
    let floats = m.has_float();
    let nan = floats && has_nan(&m);
    if boundary {
        ctx.class("int-at-width-boundary");
    }
    if dup {
        ctx.class("duplicate-map-keys");
    }
    if floats {
        ctx.class("has-float");
    }
    if nan {
        ctx.class("has-nan");
    }
    match depth {
        0 => ctx.class("depth:0"),
        1 => ctx.class("depth:1"),
        2..=7 => ctx.class("depth:2-7"),
        8..=31 => ctx.class("depth:8-31"),
        32..=63 => ctx.class("depth:32-63"),
        _ => ctx.class("depth:64"),
    }
    if max_text_len(&m) > CHUNK {
        ctx.class("text>4096");
    }

    let v = to_value(&m);
    let e1 = cbor_encode(&v).map_err(|e| Violation::new("encode-total", format!("{}: {}", diag(&m), e)))?;
    let e2 = cbor_encode(&v).map_err(|e| Violation::new("encode-total", format!("{}: {}", diag(&m), e)))?;
    vcore::vensure!(e1 == e2, "deterministic", "two encodings differ for {}: {} vs {}", diag(&m), hex(&e1), hex(&e2));
    let cm = canon(&m);
    if !nan {
        // exact bytes: minimal heads, RFC 8949 4.2.1 key order, shortest exact float width
        let reference = encode(&cm);
        if e1 != reference {
            // with duplicate keys the RFC gives no order; demand only the same multiset of entries
            let same_modulo_dups = dup && decode_one(&e1).map(|(d, n, _)| n == e1.len() && canon(&d) == cm).unwrap_or(false);
            if !same_modulo_dups {
                return Err(Violation::new(
                    "exact-bytes",
                    format!("{}\n encodes to {}\n reference  {}", diag(&m), hex_cut(&e1), hex_cut(&reference)),
                ));
            }
            ctx.class("duplicate-keys-order-differs-from-reference");
        }
    } else {
        ctx.class("exact-bytes-skipped:nan");
        // still: our own strict decoder must read it back as the same tree with minimal heads
        match decode_one(&e1) {
            Ok((d, n, f)) if n == e1.len() && !f.non_minimal && !f.indefinite && eq_mod_nan(&canon(&d), &cm) => {}
            other => vcore::vfail!("exact-bytes", "{} encodes to {} which the reference decoder reads as {:?}", diag(&m), hex_cut(&e1), other.map(|x| (diag(&x.0), x.1, x.2))),
        }
    }
    // round trip under both option sets
    for fail in [false, true] {
        let d: Value = cbor_decode_with_options(&e1, typed::opts(fail))
            .map_err(|e| Violation::new("roundtrip", format!("{} -> {} -> rejected: {}", diag(&m), hex_cut(&e1), e)))?;
        let dm = from_value(&d);
        // with NaN keys the reference key order is not authoritative (NaN width is undocumented)
        let ok = if dup || nan { canon(&dm) == cm } else { dm == cm };
        vcore::vensure!(ok, "roundtrip", "{} -> {} -> {}", diag(&m), hex_cut(&e1), diag(&dm));
        // and the decoded value encodes to the same bytes again
        let e3 = cbor_encode(&d).map_err(|e| Violation::new("encode-total", e.to_string()))?;
        vcore::vensure!(e3 == e1, "idempotent", "decode then encode changed the bytes of {}", diag(&m));
    }
    // trailing data and truncation
    {
        let mut x = e1.clone();
        let extra = short_bytes(u, 3);
        x.extend_from_slice(if extra.is_empty() { &[0xf6u8] } else { &extra });
        if let Ok(d) = cbor_decode::<Value>(&x) {
            vcore::vfail!("trailing-data", "{} accepted as {}", hex_cut(&x), diag(&from_value(&d)));
        }
        let cut = range_usize(u, 0, e1.len() - 1);
        if let Ok(d) = cbor_decode::<Value>(&e1[..cut]) {
            vcore::vfail!("truncated", "prefix of length {} of {} accepted as {}", cut, hex_cut(&e1), diag(&from_value(&d)));
        }
    }
    // a non-preferred but well-formed encoding of the same data decodes to the same value (order
    // as given; `Value` keeps map order)
    if byte(u) % 2 == 0 && max_text_len(&m) <= CHUNK && m.nodes() < 5000 {
        let mut s = gen::Sloppy::default();
        let mut alt = Vec::new();
        gen::encode_sloppy(&mut alt, &m, u, &mut s);
        if s.indefinite {
            ctx.class("alt:indefinite");
        }
        if s.non_minimal {
            ctx.class("alt:non-minimal-head");
        }
        if s.float_wide {
            ctx.class("alt:wide-float");
        }
        let d: Value = cbor_decode(&alt).map_err(|e| {
            Violation::new("well-formed-accepted", format!("{} as {} rejected: {}", diag(&m), hex_cut(&alt), e))
        })?;
        let dm = from_value(&d);
        // NaNs are identified here: widening a signalling f16/f32 NaN may quieten it
        vcore::vensure!(eq_mod_nan(&dm, &m), "alt-encoding-same-value", "{} as {} decoded to {}", diag(&m), hex_cut(&alt), diag(&dm));
    }
    if depth >= 2 && boundary {
        ctx.class("nt:depth>=2+boundary-int");
        ctx.nontrivial(&e1);
    }
    Ok(())
}

pub fn hex_cut(b: &[u8]) -> String {
    if b.len() > 400 {
        format!("{}…({} bytes)", hex(&b[..400]), b.len())
    } else {
        hex(b)
    }
}

pub fn property() -> Property {
    model::self_test();
    Property {
        id: "C17",
        rule: "Cases are decoded from a proptest-generated choice sequence. value: a CBOR tree of the generic data model \
               (integers/lengths/tags from the head-width boundary table, empty/non-ASCII/long strings, floats incl. \
               NaN payloads, ±0, subnormals, decimal fractions, chains nested up to 64, wide containers); non-trivial = \
               depth >= 2 and an integer argument on a width boundary, distinct by encoded bytes. token / derive: a value of \
               one protocol-level-token type (resp. one harness-defined derive type) together with the model tree its \
               documentation prescribes, plus one structural mutation (undeclared/missing/ill-typed field, wrong tag, \
               wrong major type, wrong length, unknown variant, alternative encoding); non-trivial = an optional or unknown \
               field/variant is present, distinct by (type, canonical bytes). bytes: a valid encoding mutated at byte level, \
               head soup or random bytes, fed to ~40 decoders under an allocation meter; non-trivial = some decoder accepted \
               the mutated input or the input is a well-formed item, distinct by input bytes. amount: TokenAmount values and \
               decimal strings compared as exact rationals across CBOR, decimal-string, JSON and rust_decimal forms; \
               non-trivial = value/decimals/digit count on a documented boundary.",
        assumptions: &[
            "The reference encoder/decoder/scanner in model.rs (RFC 8949 preferred serialisation, 4.2.1 key order) is the trusted base; it is unit-tested against RFC 8949 Appendix A vectors (cargo test -p c17).",
            "Map entry order of the encoder is the bytewise order of encoded keys (encoder.rs cites RFC 8949 core deterministic encoding); for maps with duplicate keys only the multiset of entries is compared.",
            "Exact bytes are not asserted for trees containing NaN floats (payload/width handling is not documented); bitwise round trip and determinism still are.",
            "Value::Simple(20|21|22) and simple values 24..=31 are outside the generated domain (not normal forms / not well-formed).",
            "Inputs whose nesting depth (independent scanner) exceeds 64 are counted and skipped (DESIGN observation O3).",
            "Known finding C17-F1 (text longer than 4096 bytes with a multi-byte character across a 4096-byte chunk boundary is rejected by decode_text) is excluded by construction in every target and counted; the signature is still probed in target value and reported through known_findings.jsonl.",
            "Decoder leniency on non-preferred input (non-minimal heads, indefinite lengths, two-byte simple values < 32, nested indefinite chunks, duplicate keys) is recorded per class, and only 'never a different value' is asserted for typed decoders.",
        ],
        targets: vec![
            Target::new("value", t_value).len(0, 700).cases(140_000, 14_000_000).floors(&[
                ("nt:depth>=2+boundary-int", 0.08),
                ("depth:32-63", 0.02),
                ("depth:64", 0.0025),
                ("has-float", 0.05),
                ("text>4096", 0.002),
            ]),
            Target::new("token", tokens::t_token).len(0, 600).cases(120_000, 12_000_000).floors(&[
                ("nt:optional-or-unknown-field", 0.08),
                ("mut:undeclared-key", 0.025),
                ("mut:unknown-key-preserved", 0.004),
                ("mut:missing-mandatory", 0.01),
                ("mut:wrong-tag", 0.012),
                ("mut:unknown-variant-preserved", 0.0025),
            ]),
            Target::new("derive", derived::t_derive).len(0, 400).cases(100_000, 10_000_000).floors(&[
                ("nt:optional-or-unknown-field", 0.08),
                ("mut:undeclared-key", 0.015),
                ("mut:missing-mandatory", 0.006),
                ("mut:unknown-variant-preserved", 0.01),
                ("mut:unknown-tag-preserved", 0.012),
            ]),
            Target::new("bytes", bytes::t_bytes).len(0, 700).cases(100_000, 10_000_000).floors(&[
                ("accepted-by-some-decoder", 0.10),
                ("strict:well-formed-complete", 0.10),
                ("strict:well-formed+trailing", 0.08),
                ("strict:malformed", 0.10),
            ]),
            Target::new("amount", amount::t_amount).len(0, 128).cases(60_000, 6_000_000).floors(&[("nt:boundary", 0.20)]),
        ],
    }
}
