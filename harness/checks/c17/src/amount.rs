//! Target `amount`: `TokenAmount` denotes value * 10^-decimals exactly, in its CBOR form (tag 4
//! decimal fraction), its decimal-string form (`Display` / `from_str`), its JSON form and its
//! `rust_decimal` form. All comparisons are on exact rationals (num-bigint).
use crate::gen;
use crate::model::*;
use crate::typed::{dec, enc};
use concordium_base::protocol_level_tokens::{ConversionRule, TokenAmount};
use num_bigint::{BigInt, BigUint};
use num_traits::{Signed, ToPrimitive, Zero};
use vcore::gen::*;
use vcore::{CheckResult, Ctx, Unstructured};

/// Exact non-normalised decimal rational: `num / 10^scale`.
#[derive(Debug, Clone)]
struct Rat {
    num:   BigInt,
    scale: u32,
}

fn pow10(n: u32) -> BigInt { num_traits::pow(BigInt::from(10), n as usize) }

impl Rat {
    fn eq(&self, o: &Rat) -> bool { &self.num * pow10(o.scale) == &o.num * pow10(self.scale) }

    /// self * 10^d as an integer, if it is one.
    fn scaled_int(&self, d: u32) -> Option<BigInt> {
        if d >= self.scale {
            Some(&self.num * pow10(d - self.scale))
        } else {
            let p = pow10(self.scale - d);
            if (&self.num % &p).is_zero() {
                Some(&self.num / &p)
            } else {
                None
            }
        }
    }
}

/// Independent parser of plain decimal notation: `[-]digits[.digits]`.
fn parse_plain(s: &str) -> Option<Rat> {
    let (neg, body) = match s.strip_prefix('-') {
        Some(r) => (true, r),
        None => (false, s),
    };
    let (ip, fp) = match body.split_once('.') {
        Some((a, b)) => (a, b),
        None => (body, ""),
    };
    if ip.is_empty() || !ip.bytes().all(|c| c.is_ascii_digit()) || !fp.bytes().all(|c| c.is_ascii_digit()) {
        return None;
    }
    if body.contains('.') && fp.is_empty() {
        return None;
    }
    let digits = format!("{}{}", ip, fp);
    let mut num = BigInt::from(BigUint::parse_bytes(digits.as_bytes(), 10)?);
    if neg {
        num = -num;
    }
    Some(Rat { num, scale: fp.len() as u32 })
}

fn amount_rat(value: u64, decimals: u8) -> Rat { Rat { num: BigInt::from(value), scale: decimals as u32 } }

fn g_value(u: &mut Unstructured) -> u64 {
    match byte(u) % 8 {
        0 => *choose(u, &[0u64, 1, 9, 10, 100, 999_999, 1_000_000, 12300, 123450, u64::MAX, u64::MAX - 1, 10_000_000_000_000_000_000]),
        1 => {
            // powers of ten and neighbours
            let k = byte(u) % 20;
            let p = 10u64.pow(k as u32);
            match byte(u) % 3 {
                0 => p,
                1 => p - 1,
                _ => p.saturating_add(1),
            }
        }
        2 => {
            // trailing zeros
            let k = byte(u) % 10;
            (u32v(u) as u64 % 100_000).saturating_mul(10u64.pow(k as u32))
        }
        _ => gen::arg(u),
    }
}

fn g_decimals(u: &mut Unstructured) -> u8 {
    match byte(u) % 8 {
        0 => 0,
        1 => *choose(u, &[1u8, 6, 18, 19, 20, 27, 28, 29, 30, 254, 255]),
        2..=5 => byte(u) % 20,
        6 => byte(u) % 30,
        _ => byte(u),
    }
}

pub fn t_amount(data: &[u8], ctx: &mut Ctx) -> CheckResult {
    let mut u = Unstructured::new(data);
    let u = &mut u;
    match byte(u) % 4 {
        0 | 1 => forms(u, ctx),
        2 => strings(u, ctx),
        _ => binary(u, ctx),
    }
}

/// One amount, all forms.
fn forms(u: &mut Unstructured, ctx: &mut Ctx) -> CheckResult {
    ctx.class("forms");
    let value = g_value(u);
    let decimals = g_decimals(u);
    let t = TokenAmount::from_raw(value, decimals);
    let want = amount_rat(value, decimals);
    ctx.sample(|| format!("TokenAmount value={} decimals={} display={}", value, decimals, t));
    ctx.describe(|| format!("TokenAmount value={} decimals={} display={}", value, decimals, t));
    vcore::vensure!(t.value() == value && t.decimals() == decimals, "accessors", "from_raw({}, {}) reads back {} {}", value, decimals, t.value(), t.decimals());
    let boundary = matches!(decimals, 0 | 1 | 18 | 19 | 20 | 27 | 28 | 29 | 254 | 255)
        || value == 0
        || value >= u64::MAX - 1
        || value % 10 == 0
        || value.to_string().bytes().all(|c| c == b'9');
    if boundary {
        ctx.class("nt:boundary");
        ctx.nontrivial(&("forms", value, decimals));
    }

    // binary form, read with the independent decoder: tag 4 [exponent, mantissa] = mantissa * 10^exponent
    let e = enc(&t).map_err(|e| vcore::Violation::new("encode-total", e))?;
    let (m, n, facts) = decode_one(&e).map_err(|er| vcore::Violation::new("binary-form", format!("{} is not well-formed CBOR: {:?}", hex(&e), er)))?;
    vcore::vensure!(n == e.len() && !facts.non_minimal && !facts.indefinite, "binary-form", "{} not in preferred serialisation", hex(&e));
    let bin = match &m {
        M::Tag(4, inner) => match &**inner {
            M::Array(xs) if xs.len() == 2 => {
                let exp: i128 = match &xs[0] {
                    M::Pos(x) => *x as i128,
                    M::Neg(x) => -(*x as i128) - 1,
                    _ => vcore::vfail!("binary-form", "exponent is not an integer: {}", diag(&m)),
                };
                let man = match &xs[1] {
                    M::Pos(x) => BigInt::from(*x),
                    M::Neg(x) => -BigInt::from(*x) - 1,
                    _ => vcore::vfail!("binary-form", "mantissa is not an integer: {}", diag(&m)),
                };
                vcore::vensure!(exp <= 0 && exp >= -255, "binary-form", "exponent {} out of range in {}", exp, diag(&m));
                Rat { num: man, scale: (-exp) as u32 }
            }
            _ => vcore::vfail!("binary-form", "not a two-element array under tag 4: {}", diag(&m)),
        },
        _ => vcore::vfail!("binary-form", "not a tag 4 decimal fraction: {}", diag(&m)),
    };
    vcore::vensure!(bin.eq(&want), "binary-form", "{} denotes {:?}, amount is {:?}", diag(&m), bin, want);
    let back: TokenAmount = dec(&e, false).map_err(|er| vcore::Violation::new("roundtrip", format!("{} rejected: {}", hex(&e), er)))?;
    vcore::vensure!(back == t, "roundtrip", "{:?} -> {} -> {:?}", t, hex(&e), back);

    // decimal string form
    let s = t.to_string();
    let shown = parse_plain(&s).ok_or_else(|| vcore::Violation::new("string-form", format!("Display gives {:?}, not plain decimal notation", s)))?;
    vcore::vensure!(shown.eq(&want), "string-form", "Display of value={} decimals={} is {:?}", value, decimals, s);
    if decimals > 0 {
        // fixed point: exactly `decimals` fractional digits (the type is documented as fixed point)
        vcore::vensure!(shown.scale == decimals as u32, "string-form", "Display {:?} has {} fractional digits, decimals is {}", s, shown.scale, decimals);
    }
    match TokenAmount::from_str(&s, decimals, ConversionRule::Exact) {
        Ok(p) => {
            vcore::vensure!(p == t, "string-form", "from_str({:?}, {}) = {:?}, expected {:?}", s, decimals, p, t);
            ctx.class("string-parse:ok");
        }
        Err(er) => {
            // rust_decimal carries 96 bits / scale <= 28; outside of that a rejection is a documented limit
            vcore::vensure!(decimals > 28, "string-form", "from_str({:?}, {}, Exact) rejected: {}", s, decimals, er);
            ctx.class("string-parse:beyond-rust-decimal-scale");
        }
    }

    // JSON form {"value": "<digits>", "decimals": n}
    let j = serde_json::to_value(t).map_err(|er| vcore::Violation::new("json-form", er.to_string()))?;
    let jv = j.get("value").and_then(|x| x.as_str()).ok_or_else(|| vcore::Violation::new("json-form", format!("no string member 'value' in {}", j)))?;
    let jd = j.get("decimals").and_then(|x| x.as_u64()).ok_or_else(|| vcore::Violation::new("json-form", format!("no integer member 'decimals' in {}", j)))?;
    let jr = parse_plain(jv).filter(|r| r.scale == 0).ok_or_else(|| vcore::Violation::new("json-form", format!("'value' is not an integer string in {}", j)))?;
    vcore::vensure!(jd <= 255, "json-form", "decimals out of range in {}", j);
    let jr = Rat { num: jr.num, scale: jd as u32 };
    vcore::vensure!(jr.eq(&want), "json-form", "{} denotes {:?}, amount is value={} decimals={}", j, jr, value, decimals);
    let jback: TokenAmount = serde_json::from_value(j.clone()).map_err(|er| vcore::Violation::new("json-form", format!("{} rejected: {}", j, er)))?;
    vcore::vensure!(jback == t, "json-form", "{} read back as {:?}", j, jback);
    let js = serde_json::to_string(&t).map_err(|er| vcore::Violation::new("json-form", er.to_string()))?;
    let jback2: TokenAmount = serde_json::from_str(&js).map_err(|er| vcore::Violation::new("json-form", format!("{} rejected: {}", js, er)))?;
    vcore::vensure!(jback2 == t, "json-form", "{} read back as {:?}", js, jback2);

    // rust_decimal form
    match t.try_to_rust_decimal() {
        Ok(d) => {
            let r = Rat { num: BigInt::from(d.mantissa()), scale: d.scale() };
            vcore::vensure!(r.eq(&want), "rust-decimal-form", "{:?} -> {} (mantissa {} scale {})", t, d, d.mantissa(), d.scale());
            match TokenAmount::try_from_rust_decimal(d, decimals, ConversionRule::Exact) {
                Ok(p) => vcore::vensure!(p == t, "rust-decimal-form", "{:?} -> {} -> {:?}", t, d, p),
                Err(er) => vcore::vfail!("rust-decimal-form", "{:?} -> {} -> rejected: {}", t, d, er),
            }
        }
        Err(_) => {
            vcore::vensure!(decimals > 28, "rust-decimal-form", "try_to_rust_decimal failed for value={} decimals={}", value, decimals);
            ctx.class("rust-decimal:beyond-scale");
        }
    }
    Ok(())
}

/// Decimal strings: exact conversion never rounds; rounding conversion stays within one unit.
fn strings(u: &mut Unstructured, ctx: &mut Ctx) -> CheckResult {
    ctx.class("strings");
    let decimals = match byte(u) % 8 {
        0 => 0,
        1 => 28,
        2 => *choose(u, &[1u8, 2, 6, 18, 19, 27, 29, 30, 255]),
        _ => byte(u) % 12,
    };
    // integer part
    let int_digits = match byte(u) % 8 {
        0 => "0".to_string(),
        1 => u64::MAX.to_string(),
        2 => "18446744073709551616".to_string(),
        3 => {
            let k = range_usize(u, 1, 30);
            let mut s = String::from(*choose(u, &["1", "9", "5"]));
            for _ in 1..k {
                s.push(*choose(u, &['0', '9', '1']));
            }
            s
        }
        _ => gen::arg(u).to_string(),
    };
    // fractional part: a few significant digits and a controlled number of trailing zeros
    let frac = match byte(u) % 8 {
        0 => String::new(),
        _ => {
            let sig = range_usize(u, 0, 6);
            let mut s = String::new();
            for _ in 0..sig {
                s.push((b'0' + byte(u) % 10) as char);
            }
            let lead = match byte(u) % 4 {
                0 => 0,
                1 => (decimals as usize).saturating_sub(sig),
                2 => (decimals as usize + 1).saturating_sub(sig),
                _ => range_usize(u, 0, 30),
            };
            let mut f = "0".repeat(lead.min(40));
            f.push_str(&s);
            let trail = match byte(u) % 4 {
                0 => 0,
                1 => range_usize(u, 1, 4),
                _ => 0,
            };
            f.push_str(&"0".repeat(trail));
            f
        }
    };
    let neg = byte(u) % 16 == 0;
    let text = format!("{}{}{}{}", if neg { "-" } else { "" }, int_digits, if frac.is_empty() { "" } else { "." }, frac);
    let r = parse_plain(&text).expect("generated plain decimal");
    ctx.sample(|| format!("from_str({:?}, decimals={})", text, decimals));
    ctx.describe(|| format!("from_str({:?}, decimals={})", text, decimals));
    let frac_sig_len = frac.trim_end_matches('0').len();
    if frac_sig_len > decimals as usize {
        ctx.class("more-fraction-digits-than-decimals");
    }
    if frac.len() > decimals as usize && frac_sig_len <= decimals as usize {
        ctx.class("excess-digits-are-zeros");
    }
    // what an exact conversion must give
    let expected: Option<u64> = r.scaled_int(decimals as u32).and_then(|n| if n.is_negative() { None } else { n.to_u64() });
    // region in which rust_decimal (96-bit mantissa, scale <= 28) can carry the string exactly
    let sig_digits = int_digits.trim_start_matches('0').len() + frac.len();
    let safe = !neg && decimals <= 28 && frac.len() <= 28 && sig_digits <= 28;
    if frac.len() == decimals as usize || frac.len() == decimals as usize + 1 || frac_sig_len == decimals as usize + 1 || sig_digits >= 28 {
        ctx.class("nt:boundary");
        ctx.nontrivial(&("strings", text.clone(), decimals));
    }
    match TokenAmount::from_str(&text, decimals, ConversionRule::Exact) {
        Ok(t) => {
            ctx.class("exact:accepted");
            vcore::vensure!(
                t.decimals() == decimals && expected == Some(t.value()),
                "exact-never-rounds",
                "from_str({:?}, {}, Exact) = value {} decimals {}, but the string denotes {}",
                text,
                decimals,
                t.value(),
                t.decimals(),
                match expected {
                    Some(n) => format!("{} units", n),
                    None => "a value that is not a whole number of units (or out of range)".to_string(),
                }
            );
        }
        Err(er) => {
            ctx.class("exact:rejected");
            if let (Some(n), true) = (expected, safe) {
                vcore::vfail!("exact-complete", "from_str({:?}, {}, Exact) rejected ({}), but the string denotes exactly {} units", text, decimals, er, n);
            }
        }
    }
    match TokenAmount::from_str(&text, decimals, ConversionRule::AllowRounding) {
        Ok(t) => {
            ctx.class("rounding:accepted");
            vcore::vensure!(t.decimals() == decimals, "rounding", "decimals changed: {:?}", t);
            // |t.value - r*10^d| < 1   <=>   |t.value*10^s - num*10^d| < 10^s  with everything scaled to 10^(s+d)
            let lhs = BigInt::from(t.value()) * pow10(r.scale) - &r.num * pow10(decimals as u32);
            vcore::vensure!(
                lhs.abs() < pow10(r.scale),
                "rounding-within-one-unit",
                "from_str({:?}, {}, AllowRounding) = {} units",
                text,
                decimals,
                t.value()
            );
            if let (Some(n), true) = (expected, safe) {
                vcore::vensure!(t.value() == n, "rounding-exact-when-representable", "from_str({:?}, {}, AllowRounding) = {}, exact value is {}", text, decimals, t.value(), n);
            }
        }
        Err(er) => {
            ctx.class("rounding:rejected");
            if let (Some(n), true) = (expected, safe) {
                vcore::vfail!("rounding-complete", "from_str({:?}, {}, AllowRounding) rejected ({}), exact value is {} units", text, decimals, er, n);
            }
        }
    }
    Ok(())
}

/// Arbitrary decimal fractions in binary form read as TokenAmount.
fn binary(u: &mut Unstructured, ctx: &mut Ctx) -> CheckResult {
    ctx.class("binary");
    let exp: i128 = match byte(u) % 8 {
        0 => 0,
        1 => -255,
        2 => -256,
        3 => 1,
        4 => -(byte(u) as i128),
        5 => byte(u) as i128 - 200,
        6 => -(gen::arg(u) as i128) - 1,
        _ => gen::arg(u) as i128,
    };
    let exp_m = M::int(exp.clamp(-(u64::MAX as i128) - 1, u64::MAX as i128));
    let exp = match &exp_m {
        M::Pos(x) => *x as i128,
        M::Neg(x) => -(*x as i128) - 1,
        _ => unreachable!(),
    };
    let (man_m, man): (M, Option<BigInt>) = match byte(u) % 8 {
        0 | 1 | 2 => {
            let v = g_value(u);
            (M::Pos(v), Some(BigInt::from(v)))
        }
        3 => {
            let v = gen::arg(u);
            (M::Neg(v), Some(-BigInt::from(v) - 1))
        }
        4 | 5 => {
            // bignum mantissa (tag 2), documented as accepted while within u64 range
            let mut be = gen::arg(u).to_be_bytes().to_vec();
            if boolean(u) {
                be.insert(0, byte(u) % 2);
            }
            // the byte string of a bignum has no length limit; only its value is bounded
            match byte(u) % 8 {
                0 => {
                    let gap = range_usize(u, 0, 40);
                    let hi = byte(u);
                    let mut v = vec![hi];
                    v.extend(std::iter::repeat(0u8).take(gap));
                    v.extend_from_slice(&be);
                    be = v;
                    ctx.class("binary:bignum-long");
                }
                1 => {
                    let mut v = vec![0u8; range_usize(u, 5, 40)];
                    v.extend_from_slice(&be);
                    be = v;
                    ctx.class("binary:bignum-long");
                }
                _ => {}
            }
            let v = BigUint::from_bytes_be(&be);
            (M::tag(2, M::Bytes(be)), Some(BigInt::from(v)))
        }
        6 => (M::Float(1.5), None),
        _ => (M::text("1"), None),
    };
    let tag = if byte(u) % 8 == 0 { *choose(u, &[5u64, 3, 30, 40307]) } else { 4 };
    let m = M::tag(tag, M::Array(vec![exp_m, man_m]));
    let b = encode(&m);
    ctx.sample(|| format!("decimal fraction {}", diag(&m)));
    ctx.describe(|| format!("decimal fraction {} = {}", diag(&m), hex(&b)));
    let representable: Option<(u64, u8)> = match (&man, tag) {
        (Some(n), 4) if (-255..=0).contains(&exp) => n.to_u64().map(|v| (v, (-exp) as u8)),
        _ => None,
    };
    if exp == 0 || exp == -255 || exp == -256 || exp == 1 {
        ctx.class("nt:boundary");
        ctx.nontrivial(&("binary", b.clone()));
    }
    match (dec::<TokenAmount>(&b, false), representable) {
        (Ok(t), Some((v, d))) => {
            ctx.class("binary:accepted");
            vcore::vensure!(t.value() == v && t.decimals() == d, "binary-decode", "{} read as {:?}", diag(&m), t);
        }
        (Err(_), None) => ctx.class("binary:rejected"),
        (Ok(t), None) => vcore::vfail!("binary-decode", "{} is not a token amount (negative/ill-typed mantissa, exponent outside -255..=0, or wrong tag) but was read as {:?}", diag(&m), t),
        (Err(e), Some((v, d))) => vcore::vfail!("binary-decode", "{} denotes value={} decimals={} but was rejected: {}", diag(&m), v, d, e),
    }
    Ok(())
}
