//! Shared pieces: an independent model of access structures and signature maps (plain integers
//! and byte strings, none of the crate's types), the reference predicate written from the property
//! statement, hand-written serialisation of headers and signature maps, key generation, and the
//! conversions into the crate's types.
use concordium_base::{
    base::{Energy, Nonce},
    common::types::{CredentialIndex, KeyIndex, Signature, TransactionSignature, TransactionTime},
    contracts_common::{AccountAddress, AccountThreshold, SignatureThreshold},
    id::types::{CredentialPublicKeys, VerifyKey},
    transactions::{AccountAccessStructure, PayloadSize, TransactionHeader, TransactionHeaderV1},
};
use ed25519_dalek::{Signer, SigningKey, Verifier, VerifyingKey};
use rand::RngCore;
use sha2::{Digest, Sha256};
use std::collections::{BTreeMap, BTreeSet};
use vcore::{gen, Unstructured};

pub type Rng = rand_chacha::ChaCha20Rng;

pub fn sha256(parts: &[&[u8]]) -> [u8; 32] {
    let mut h = Sha256::new();
    for p in parts {
        h.update(p);
    }
    h.finalize().into()
}

/// A fresh ed25519 key derived deterministically from the case's RNG.
pub fn new_key(rng: &mut Rng) -> SigningKey {
    let mut b = [0u8; 32];
    rng.fill_bytes(&mut b);
    SigningKey::from_bytes(&b)
}

pub fn pk_bytes(k: &SigningKey) -> [u8; 32] { k.verifying_key().to_bytes() }

pub fn sign(k: &SigningKey, msg: &[u8]) -> Vec<u8> { k.sign(msg).to_bytes().to_vec() }

/// ed25519 validity of `sig` on `msg` under the public key `pk`, decided by ed25519-dalek directly
/// (trusted primitive). A byte string that is not 64 bytes long is not a signature.
pub fn ed_valid(pk: &[u8; 32], msg: &[u8], sig: &[u8]) -> bool {
    let Ok(arr) = <[u8; 64]>::try_from(sig) else { return false };
    let Ok(vk) = VerifyingKey::from_bytes(pk) else { return false };
    vk.verify(msg, &ed25519_dalek::Signature::from_bytes(&arr)).is_ok()
}

// ------------------------------------------------------------------------------------------
// Model

#[derive(Debug, Clone, PartialEq, Eq)]
pub struct MCred {
    pub threshold: u8,
    pub keys:      BTreeMap<u8, [u8; 32]>,
}

#[derive(Debug, Clone, PartialEq, Eq)]
pub struct MAcc {
    pub threshold: u8,
    pub creds:     BTreeMap<u8, MCred>,
}

pub type MSigs = BTreeMap<u8, BTreeMap<u8, Vec<u8>>>;

/// The reference predicate, written from the property statement: at least the account threshold
/// of credentials are supplied; every supplied credential is registered and supplies at least its
/// own threshold of signatures; every supplied signature belongs to a registered key and is a
/// valid ed25519 signature on the digest.
pub fn reference_accepts(acc: &MAcc, digest: &[u8], sigs: &MSigs) -> bool {
    let enough_credentials = sigs.len() >= acc.threshold as usize;
    let every_credential_ok = sigs.iter().all(|(ci, cs)| match acc.creds.get(ci) {
        None => false,
        Some(cred) => {
            cs.len() >= cred.threshold as usize
                && cs.iter().all(|(ki, sig)| match cred.keys.get(ki) {
                    None => false,
                    Some(pk) => ed_valid(pk, digest, sig),
                })
        }
    });
    enough_credentials && every_credential_ok
}

/// Number of independent reasons for rejection (0 iff the reference predicate accepts): missing
/// credentials, missing signatures per registered credential, unknown credentials, unknown keys,
/// invalid signatures. Used for classification only.
pub fn defects(acc: &MAcc, digest: &[u8], sigs: &MSigs) -> u32 {
    let mut d = (acc.threshold as u32).saturating_sub(sigs.len() as u32);
    for (ci, cs) in sigs {
        match acc.creds.get(ci) {
            None => d += 1,
            Some(cred) => {
                d += (cred.threshold as u32).saturating_sub(cs.len() as u32);
                for (ki, sig) in cs {
                    match cred.keys.get(ki) {
                        None => d += 1,
                        Some(pk) => {
                            if !ed_valid(pk, digest, sig) {
                                d += 1
                            }
                        }
                    }
                }
            }
        }
    }
    d
}

/// An accepting case is *tight* when removing one element would make it fail: the number of
/// supplied credentials equals the account threshold, or some credential supplies exactly its
/// threshold.
pub fn tight(acc: &MAcc, sigs: &MSigs) -> bool {
    sigs.len() == acc.threshold as usize
        || sigs.iter().any(|(ci, cs)| acc.creds.get(ci).map(|c| c.threshold as usize == cs.len()).unwrap_or(false))
}

// ------------------------------------------------------------------------------------------
// Conversions into the crate's types

pub fn vk(pk: &[u8; 32]) -> VerifyingKey { VerifyingKey::from_bytes(pk).expect("generated public keys are valid points") }

pub fn to_access(acc: &MAcc) -> AccountAccessStructure {
    AccountAccessStructure {
        threshold: AccountThreshold::try_from(acc.threshold).expect("threshold >= 1"),
        keys:      acc
            .creds
            .iter()
            .map(|(ci, c)| {
                (CredentialIndex { index: *ci }, CredentialPublicKeys {
                    keys:      c.keys.iter().map(|(ki, pk)| (KeyIndex(*ki), VerifyKey::Ed25519VerifyKey(vk(pk)))).collect(),
                    threshold: SignatureThreshold::try_from(c.threshold).expect("threshold >= 1"),
                })
            })
            .collect(),
    }
}

pub fn to_sig(sigs: &MSigs) -> TransactionSignature {
    TransactionSignature {
        signatures: sigs
            .iter()
            .map(|(ci, cs)| {
                (CredentialIndex { index: *ci }, cs.iter().map(|(ki, s)| (KeyIndex(*ki), Signature { sig: s.clone() })).collect())
            })
            .collect(),
    }
}

pub fn from_sig(sig: &TransactionSignature) -> MSigs {
    sig.signatures
        .iter()
        .map(|(ci, cs)| (ci.index, cs.iter().map(|(ki, s)| (ki.0, s.sig.clone())).collect()))
        .collect()
}

// ------------------------------------------------------------------------------------------
// Headers

#[derive(Clone, PartialEq, Eq, Hash)]
pub struct Hdr {
    pub sender:       [u8; 32],
    pub nonce:        u64,
    pub energy:       u64,
    pub payload_size: u32,
    pub expiry:       u64,
    /// Only meaningful for v1 headers.
    pub sponsor:      Option<[u8; 32]>,
}

impl std::fmt::Debug for Hdr {
    fn fmt(&self, f: &mut std::fmt::Formatter<'_>) -> std::fmt::Result {
        write!(
            f,
            "{{sender {} nonce {} energy {} payload_size {} expiry {} sponsor {}}}",
            short(&self.sender),
            self.nonce,
            self.energy,
            self.payload_size,
            self.expiry,
            self.sponsor.map(|s| short(&s)).unwrap_or_else(|| "-".into())
        )
    }
}

impl Hdr {
    pub fn gen(u: &mut Unstructured) -> Hdr {
        Hdr {
            sender:       gen::array::<32>(u),
            nonce:        gen::boundary_u64(u),
            energy:       gen::boundary_u64(u),
            payload_size: 0,
            expiry:       gen::boundary_u64(u),
            sponsor:      None,
        }
    }

    /// Hand-written serialisation of a (v0) transaction header: 32 + 8 + 8 + 4 + 8 bytes, big endian.
    pub fn ser_v0(&self) -> Vec<u8> {
        let mut o = Vec::with_capacity(60);
        o.extend_from_slice(&self.sender);
        o.extend_from_slice(&self.nonce.to_be_bytes());
        o.extend_from_slice(&self.energy.to_be_bytes());
        o.extend_from_slice(&self.payload_size.to_be_bytes());
        o.extend_from_slice(&self.expiry.to_be_bytes());
        o
    }

    /// v1 header: 16-bit feature bitmap (bit 0 = sponsor present), the v0 header, the sponsor address if present.
    pub fn ser_v1(&self) -> Vec<u8> {
        let mut o = Vec::with_capacity(94);
        let bitmap: u16 = if self.sponsor.is_some() { 1 } else { 0 };
        o.extend_from_slice(&bitmap.to_be_bytes());
        o.extend_from_slice(&self.ser_v0());
        if let Some(s) = &self.sponsor {
            o.extend_from_slice(s);
        }
        o
    }

    pub fn to_v0(&self) -> TransactionHeader {
        TransactionHeader {
            sender:        AccountAddress(self.sender),
            nonce:         Nonce::from(self.nonce),
            energy_amount: Energy::from(self.energy),
            payload_size:  PayloadSize::from(self.payload_size),
            expiry:        TransactionTime::from_seconds(self.expiry),
        }
    }

    pub fn to_v1(&self) -> TransactionHeaderV1 {
        TransactionHeaderV1 {
            sender:        AccountAddress(self.sender),
            nonce:         Nonce::from(self.nonce),
            energy_amount: Energy::from(self.energy),
            payload_size:  PayloadSize::from(self.payload_size),
            expiry:        TransactionTime::from_seconds(self.expiry),
            sponsor:       self.sponsor.map(AccountAddress),
        }
    }

    pub fn of_v0(h: &TransactionHeader) -> Hdr {
        Hdr {
            sender:       h.sender.0,
            nonce:        h.nonce.nonce,
            energy:       h.energy_amount.energy,
            payload_size: u32::from(h.payload_size),
            expiry:       h.expiry.seconds,
            sponsor:      None,
        }
    }

    pub fn of_v1(h: &TransactionHeaderV1) -> Hdr {
        Hdr {
            sender:       h.sender.0,
            nonce:        h.nonce.nonce,
            energy:       h.energy_amount.energy,
            payload_size: u32::from(h.payload_size),
            expiry:       h.expiry.seconds,
            sponsor:      h.sponsor.map(|a| a.0),
        }
    }

    /// Flip one bit somewhere in the header (field-wise, so that the result is always a header).
    /// `with_sponsor` allows the bit to fall into the sponsor address of a v1 header.
    pub fn flip_bit(&self, u: &mut Unstructured, with_sponsor: bool) -> (Hdr, String) {
        let mut h = self.clone();
        let nfields = if with_sponsor && self.sponsor.is_some() { 6 } else { 5 };
        let what;
        match gen::idx(u, nfields) {
            0 => {
                let i = gen::idx(u, 256);
                h.sender[i / 8] ^= 1 << (i % 8);
                what = format!("sender bit {i}");
            }
            1 => {
                let i = gen::idx(u, 64);
                h.nonce ^= 1 << i;
                what = format!("nonce bit {i}");
            }
            2 => {
                let i = gen::idx(u, 64);
                h.energy ^= 1 << i;
                what = format!("energy bit {i}");
            }
            3 => {
                let i = gen::idx(u, 32);
                h.payload_size ^= 1 << i;
                what = format!("payload_size bit {i}");
            }
            4 => {
                let i = gen::idx(u, 64);
                h.expiry ^= 1 << i;
                what = format!("expiry bit {i}");
            }
            _ => {
                let i = gen::idx(u, 256);
                if let Some(s) = h.sponsor.as_mut() {
                    s[i / 8] ^= 1 << (i % 8);
                }
                what = format!("sponsor bit {i}");
            }
        }
        (h, what)
    }
}

/// The documented 32-byte prefix of the v1 sign digest.
pub fn v1_prefix() -> [u8; 32] {
    let mut p = [0u8; 32];
    p[31] = 1;
    p
}

pub fn digest_v0(h: &Hdr, payload: &[u8]) -> [u8; 32] { sha256(&[&h.ser_v0(), payload]) }

pub fn digest_v1(h: &Hdr, payload: &[u8]) -> [u8; 32] { sha256(&[&v1_prefix(), &h.ser_v1(), payload]) }

/// Hand-written serialisation of a transaction signature: u8 count, then per credential its index,
/// a u8 count, and per key its index and the signature with a 16-bit length.
pub fn ser_sigs(s: &MSigs) -> Vec<u8> {
    let mut o = vec![s.len() as u8];
    for (ci, cs) in s {
        o.push(*ci);
        o.push(cs.len() as u8);
        for (ki, sig) in cs {
            o.push(*ki);
            o.extend_from_slice(&(sig.len() as u16).to_be_bytes());
            o.extend_from_slice(sig);
        }
    }
    o
}

// ------------------------------------------------------------------------------------------
// Access structure generation

/// Pick an index not in `used`: sequential from 0, from 255 downwards, or arbitrary.
pub fn fresh_index(u: &mut Unstructured, used: &BTreeSet<u8>) -> u8 {
    let n = used.len() as u8;
    let mut c = match gen::byte(u) % 4 {
        0 => n,
        1 => 255 - n,
        _ => gen::byte(u),
    };
    while used.contains(&c) {
        c = c.wrapping_add(1);
    }
    c
}

#[derive(Clone)]
pub struct Account {
    pub model:   MAcc,
    pub secrets: BTreeMap<(u8, u8), SigningKey>,
}

impl Account {
    /// 1..=max_creds credentials at arbitrary indices with 1..=max_keys keys each at arbitrary
    /// indices. Thresholds are all 1 here; callers set them.
    pub fn gen(u: &mut Unstructured, rng: &mut Rng, max_creds: usize, max_keys: usize) -> Account {
        let ncreds = 1 + gen::idx(u, max_creds);
        let mut creds = BTreeMap::new();
        let mut secrets = BTreeMap::new();
        let mut used_c = BTreeSet::new();
        for _ in 0..ncreds {
            let ci = fresh_index(u, &used_c);
            used_c.insert(ci);
            let nkeys = 1 + gen::idx(u, max_keys);
            let mut keys = BTreeMap::new();
            let mut used_k = BTreeSet::new();
            for _ in 0..nkeys {
                let ki = fresh_index(u, &used_k);
                used_k.insert(ki);
                let sk = new_key(rng);
                keys.insert(ki, pk_bytes(&sk));
                secrets.insert((ci, ki), sk);
            }
            creds.insert(ci, MCred { threshold: 1, keys });
        }
        Account { model: MAcc { threshold: 1, creds }, secrets }
    }
}

/// A threshold from the full range 1..=255, biased to the neighbourhood of `n`.
pub fn threshold_near(u: &mut Unstructured, n: usize) -> u8 {
    let n = n.min(255) as u64;
    let t = match gen::byte(u) % 8 {
        0 => 1,
        1 => n,
        2 => n + 1,
        3 => n.saturating_sub(1),
        4 => 255,
        5 => gen::range_u64(u, 1, n.max(1)),
        _ => gen::range_u64(u, 1, 255),
    };
    t.clamp(1, 255) as u8
}

pub fn hex(b: &[u8]) -> String { gen::hex(b) }

pub fn short(b: &[u8]) -> String {
    if b.len() <= 6 {
        hex(b)
    } else {
        format!("{}..({}B)", hex(&b[..4]), b.len())
    }
}

pub fn pretty_acc(a: &MAcc) -> String {
    let mut s = format!("account threshold {} {{", a.threshold);
    for (ci, c) in &a.creds {
        s.push_str(&format!(" cred {ci}: threshold {} keys {:?};", c.threshold, c.keys.keys().collect::<Vec<_>>()));
    }
    s.push_str(" }");
    s
}

pub fn pretty_sigs(acc: &MAcc, digest: &[u8], sigs: &MSigs) -> String {
    let mut s = String::from("signatures {");
    for (ci, cs) in sigs {
        s.push_str(&format!(" cred {ci}{}: [", if acc.creds.contains_key(ci) { "" } else { " (unknown)" }));
        for (ki, sig) in cs {
            let st = match acc.creds.get(ci).and_then(|c| c.keys.get(ki)) {
                None => "unknown-key",
                Some(pk) => {
                    if ed_valid(pk, digest, sig) {
                        "valid"
                    } else {
                        "INVALID"
                    }
                }
            };
            s.push_str(&format!("{ki}:{st}({}B) ", sig.len()));
        }
        s.push(']');
    }
    s.push_str(" }");
    s
}
