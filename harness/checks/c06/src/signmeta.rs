//! Target `sign_meta`: signing with the crate's signers, then verifying; the sign digest and the
//! block-item hash against independent SHA-256 computations over hand-written serialisations;
//! bit-flip metamorphic checks on header, payload, signatures and keys.
use crate::{common::*, payloads::PArgs};
use concordium_base::{
    common::{
        from_bytes, to_bytes,
        types::{CredentialIndex, KeyIndex, KeyPair, TransactionSignaturesV1},
    },
    contracts_common::{AccountThreshold, SignatureThreshold},
    hashes::TransactionSignHash,
    id::types::{AccountKeys, CredentialData},
    transactions::{
        compute_transaction_sign_hash, compute_transaction_sign_hash_v1, sign_transaction, AccountAccessStructure, AccountTransaction,
        AccountTransactionV1, BlockItem, EncodedPayload, ExactSizeTransactionSigner, PayloadLike, TransactionSigner,
    },
};
use std::collections::BTreeMap;
use vcore::{gen, vensure, CheckResult, Ctx, Unstructured};

pub fn account_keys(a: &Account) -> AccountKeys {
    AccountKeys {
        threshold: AccountThreshold::try_from(a.model.threshold).unwrap(),
        keys:      a
            .model
            .creds
            .iter()
            .map(|(ci, c)| {
                (CredentialIndex { index: *ci }, CredentialData {
                    threshold: SignatureThreshold::try_from(c.threshold).unwrap(),
                    keys:      c.keys.keys().map(|ki| (KeyIndex(*ki), KeyPair::from(a.secrets[&(*ci, *ki)].clone()))).collect(),
                })
            })
            .collect(),
    }
}

pub type KeyMap = BTreeMap<CredentialIndex, BTreeMap<KeyIndex, KeyPair>>;

/// What the documented behaviour of the `AccountKeys` signer produces: the first `threshold`
/// credentials, and for each the first `threshold` keys of that credential.
pub fn expected_account_keys_sigs(a: &Account, digest: &[u8]) -> MSigs {
    a.model
        .creds
        .iter()
        .take(a.model.threshold as usize)
        .map(|(ci, c)| (*ci, c.keys.keys().take(c.threshold as usize).map(|ki| (*ki, sign(&a.secrets[&(*ci, *ki)], digest))).collect()))
        .collect()
}

/// Whether every threshold can be met by the account's own keys.
pub fn satisfiable(a: &Account) -> bool {
    a.model.threshold as usize <= a.model.creds.len() && a.model.creds.values().all(|c| c.threshold as usize <= c.keys.len())
}

/// Thresholds that are mostly (or always) satisfiable by the account's own keys.
pub fn set_thresholds(u: &mut Unstructured, a: &mut Account, always_satisfiable: bool) {
    let n = a.model.creds.len();
    a.model.threshold = if always_satisfiable || gen::ratio(u, 7, 8) { gen::range_u64(u, 1, n as u64) as u8 } else { threshold_near(u, n) };
    for c in a.model.creds.values_mut() {
        let k = c.keys.len();
        c.threshold = if always_satisfiable || gen::ratio(u, 7, 8) { gen::range_u64(u, 1, k as u64) as u8 } else { threshold_near(u, k) };
    }
}

pub enum SignerKind {
    AccountKeys(AccountKeys),
    Map(KeyMap),
}

impl SignerKind {
    pub fn sign(&self, h: &TransactionSignHash) -> concordium_base::common::types::TransactionSignature {
        match self {
            SignerKind::AccountKeys(k) => k.sign_transaction_hash(h),
            SignerKind::Map(m) => m.sign_transaction_hash(h),
        }
    }

    pub fn num_keys(&self) -> u32 {
        match self {
            SignerKind::AccountKeys(k) => k.num_keys(),
            SignerKind::Map(m) => m.num_keys(),
        }
    }
}

/// Choose a signer for the account and say which signature map it must produce on `digest`.
pub fn gen_signer(u: &mut Unstructured, a: &Account, digest: &[u8]) -> (SignerKind, MSigs, &'static str) {
    match gen::byte(u) % 4 {
        0 | 1 => (SignerKind::AccountKeys(account_keys(a)), expected_account_keys_sigs(a, digest), "signer:AccountKeys"),
        2 => {
            let mut m = KeyMap::new();
            let mut e = MSigs::new();
            for ((ci, ki), sk) in &a.secrets {
                m.entry(CredentialIndex { index: *ci }).or_default().insert(KeyIndex(*ki), KeyPair::from(sk.clone()));
                e.entry(*ci).or_default().insert(*ki, sign(sk, digest));
            }
            (SignerKind::Map(m), e, "signer:map-all-keys")
        }
        _ => {
            let mut m = KeyMap::new();
            let mut e = MSigs::new();
            for ((ci, ki), sk) in &a.secrets {
                if gen::ratio(u, 2, 3) {
                    m.entry(CredentialIndex { index: *ci }).or_default().insert(KeyIndex(*ki), KeyPair::from(sk.clone()));
                    e.entry(*ci).or_default().insert(*ki, sign(sk, digest));
                }
            }
            (SignerKind::Map(m), e, "signer:map-subset")
        }
    }
}

fn flip(b: &mut [u8], i: usize) { b[i / 8] ^= 1 << (i % 8); }

pub fn t_sign_meta(data: &[u8], ctx: &mut Ctx) -> CheckResult {
    let mut u = Unstructured::new(data);
    let mut rng = gen::rng(&mut u);
    let heavy = gen::ratio(&mut u, 1, 12);
    let args = PArgs::gen(&mut u, &mut rng, heavy);
    ctx.class(&format!("kind:{}", args.kind()));
    let payload = args.payload();
    let enc = payload.encode();
    let pbytes: Vec<u8> = enc.clone().into();
    if let Some(h) = args.hand() {
        ctx.class("payload-hand-encoded");
        vensure!(h == pbytes, "payload-encoding", "{}: hand-written encoding {} differs from the crate's {}", args.kind(), hex(&h), hex(&pbytes));
    }
    let mut hdr = Hdr::gen(&mut u);
    let size_accurate = !gen::ratio(&mut u, 1, 8);
    hdr.payload_size = if size_accurate { pbytes.len() as u32 } else { gen::u32v(&mut u) };
    let v1 = gen::boolean(&mut u);
    let mut sender = Account::gen(&mut u, &mut rng, 4, 4);
    set_thresholds(&mut u, &mut sender, false);
    if !satisfiable(&sender) {
        ctx.class("unsatisfiable-account-keys");
    }
    ctx.describe(|| format!("{} {:?}\nheader {:?}\nsender {}", if v1 { "v1" } else { "v0" }, args, hdr, pretty_acc(&sender.model)));

    if !v1 {
        ctx.class("v0");
        let digest = digest_v0(&hdr, &pbytes);
        let header = hdr.to_v0();
        // digest: typed payload, encoded payload, independent
        let d1 = compute_transaction_sign_hash(&header, &payload);
        let d2 = compute_transaction_sign_hash(&header, &enc);
        vensure!(
            d1.as_ref() == digest && d2.as_ref() == digest,
            "sign-digest",
            "{}: compute_transaction_sign_hash typed {} encoded {} independent SHA256(header||payload) {}",
            args.kind(),
            hex(d1.as_ref()),
            hex(d2.as_ref()),
            hex(&digest)
        );
        let (signer, expected_sigs, sname) = gen_signer(&mut u, &sender, &digest);
        ctx.class(sname);
        let tx = match &signer {
            SignerKind::AccountKeys(k) => sign_transaction(k, header.clone(), payload.clone()),
            SignerKind::Map(m) => sign_transaction(m, header.clone(), payload.clone()),
        };
        let got_sigs = from_sig(&tx.signature);
        vensure!(
            got_sigs == expected_sigs,
            "signer-output",
            "{sname}: produced signatures for {:?}, expected {:?} (valid signatures by exactly the documented keys over the digest)",
            got_sigs.iter().map(|(c, m)| (*c, m.keys().copied().collect::<Vec<_>>())).collect::<Vec<_>>(),
            expected_sigs.iter().map(|(c, m)| (*c, m.keys().copied().collect::<Vec<_>>())).collect::<Vec<_>>()
        );
        // An `AccountKeys` whose thresholds exceed its own keys can never sign validly; `num_keys` is
        // only compared for well-formed signers (NOTES, observation 2).
        vensure!(
            !satisfiable(&sender) || signer.num_keys() as usize == got_sigs.values().map(|m| m.len()).sum::<usize>(),
            "signer-num-keys",
            "{sname}: num_keys() = {} but {} signatures were produced",
            signer.num_keys(),
            got_sigs.values().map(|m| m.len()).sum::<usize>()
        );
        vensure!(Hdr::of_v0(&tx.header) == hdr, "sign-transaction-header", "sign_transaction changed the header");
        let access = to_access(&sender.model);
        if let SignerKind::AccountKeys(k) = &signer {
            let from_keys = AccountAccessStructure::from(k);
            vensure!(from_keys == access, "access-from-account-keys", "AccountAccessStructure::from(&AccountKeys) differs from the account's public structure");
        }
        let expect = reference_accepts(&sender.model, &digest, &got_sigs);
        let sufficient = sender.model.threshold as usize <= got_sigs.len()
            && got_sigs.iter().all(|(ci, m)| sender.model.creds[ci].threshold as usize <= m.len());
        vensure!(expect == sufficient, "harness-self-check", "honest signatures: reference {expect} but sufficient {sufficient}");
        ctx.class(if sufficient { "sufficient-signers" } else { "insufficient-signers" });
        let got = tx.verify_transaction_signature(&access);
        vensure!(
            got == expect,
            if expect { "sign-then-verify-fails" } else { "insufficient-signers-verify" },
            "{}: signed with {sname} ({} credentials), account threshold {}: verify = {got}, reference = {expect}",
            args.kind(),
            got_sigs.len(),
            sender.model.threshold
        );
        // block item hash
        let bi: BlockItem<EncodedPayload> =
            BlockItem::AccountTransaction(AccountTransaction { signature: tx.signature.clone(), header: header.clone(), payload: enc.clone() });
        let mut ser = vec![0u8];
        ser.extend_from_slice(&ser_sigs(&got_sigs));
        ser.extend_from_slice(&hdr.ser_v0());
        ser.extend_from_slice(&pbytes);
        let crate_ser = to_bytes(&bi);
        vensure!(crate_ser == ser, "block-item-serialization", "block item serialises to {} but the documented layout gives {}", short(&crate_ser), short(&ser));
        let h = bi.hash();
        vensure!(h.as_ref() == sha256(&[&ser]), "block-item-hash", "BlockItem::hash {} != SHA256(serialization) {}", hex(h.as_ref()), hex(&sha256(&[&ser])));
        let typed_hash = BlockItem::AccountTransaction(tx.clone()).hash();
        vensure!(typed_hash == h, "block-item-hash-typed", "hash of the block item with a typed payload differs from the one with the encoded payload");
        if size_accurate && !got_sigs.is_empty() && got_sigs.values().all(|m| !m.is_empty()) {
            match from_bytes::<BlockItem<EncodedPayload>, _>(&mut std::io::Cursor::new(&ser)) {
                Ok(back) => vensure!(back.hash() == h, "block-item-reparse-hash", "re-parsed block item hashes differently"),
                Err(e) => vcore::vfail!("block-item-reparse", "serialised block item does not parse: {e}"),
            }
            ctx.class("reparsed");
        }

        if expect {
            // ---- metamorphic perturbations: each must make verification fail ----
            let key = (args.kind(), hdr.clone(), sname, format!("{:?}", sender.model));
            ctx.nontrivial(&key);
            // header bit
            let (h2, what) = hdr.flip_bit(&mut u, false);
            let t2 = AccountTransaction { signature: tx.signature.clone(), header: h2.to_v0(), payload: enc.clone() };
            vensure!(!t2.verify_transaction_signature(&access), "flip-header-verifies", "{}: after flipping header {what} the transaction still verifies", args.kind());
            ctx.class("perturb:header-bit");
            // payload bit / appended byte
            let mut p2 = pbytes.clone();
            let what = if gen::ratio(&mut u, 1, 6) {
                p2.push(gen::byte(&mut u));
                "appended byte".to_string()
            } else {
                let i = gen::idx(&mut u, p2.len() * 8);
                flip(&mut p2, i);
                format!("payload bit {i}")
            };
            let t2 = AccountTransaction { signature: tx.signature.clone(), header: header.clone(), payload: EncodedPayload::try_from(p2).unwrap() };
            vensure!(!t2.verify_transaction_signature(&access), "flip-payload-verifies", "{}: after {what} the transaction still verifies", args.kind());
            ctx.class("perturb:payload-bit");
            // signature bit
            let slots: Vec<(u8, u8)> = got_sigs.iter().flat_map(|(c, m)| m.keys().map(move |k| (*c, *k))).collect();
            let (sc, sk) = slots[gen::idx(&mut u, slots.len())];
            let mut s2 = got_sigs.clone();
            let i = gen::idx(&mut u, 512);
            flip(s2.get_mut(&sc).unwrap().get_mut(&sk).unwrap(), i);
            let t2 = AccountTransaction { signature: to_sig(&s2), header: header.clone(), payload: enc.clone() };
            vensure!(
                !t2.verify_transaction_signature(&access),
                "flip-signature-verifies",
                "{}: after flipping bit {i} of the signature of credential {sc} key {sk} the transaction still verifies",
                args.kind()
            );
            ctx.class("perturb:signature-bit");
            // key replaced / removed
            let (kc, kk) = slots[gen::idx(&mut u, slots.len())];
            let mut m2 = sender.model.clone();
            let removed = gen::ratio(&mut u, 1, 3);
            if removed {
                m2.creds.get_mut(&kc).unwrap().keys.remove(&kk);
            } else {
                m2.creds.get_mut(&kc).unwrap().keys.insert(kk, pk_bytes(&new_key(&mut rng)));
            }
            if !m2.creds[&kc].keys.is_empty() {
                let t2 = AccountTransaction { signature: tx.signature.clone(), header: header.clone(), payload: enc.clone() };
                vensure!(
                    !t2.verify_transaction_signature(&to_access(&m2)),
                    "replace-key-verifies",
                    "{}: after {} the public key of credential {kc} key {kk} the transaction still verifies",
                    args.kind(),
                    if removed { "removing" } else { "replacing" }
                );
                ctx.class("perturb:key");
            }
            // a key that did not sign is irrelevant
            let unused: Vec<(u8, u8)> = sender.secrets.keys().copied().filter(|s| !slots.contains(s)).collect();
            if !unused.is_empty() {
                let (uc, uk) = unused[gen::idx(&mut u, unused.len())];
                let mut m3 = sender.model.clone();
                m3.creds.get_mut(&uc).unwrap().keys.insert(uk, pk_bytes(&new_key(&mut rng)));
                vensure!(
                    tx.verify_transaction_signature(&to_access(&m3)),
                    "unused-key-matters",
                    "replacing a key that did not sign (credential {uc} key {uk}) makes verification fail"
                );
                ctx.class("perturb:unused-key");
            }
        }
        ctx.sample(|| {
            format!(
                "v0 {} payload {} header {:?} {} {sname} -> {} signatures, verify {}",
                args.kind(),
                short(&pbytes),
                hdr,
                pretty_acc(&sender.model),
                got_sigs.values().map(|m| m.len()).sum::<usize>(),
                expect
            )
        });
        ctx.describe(|| format!("v0 {:?}\nheader {:?}\n{}\n{sname}", args, hdr, pretty_acc(&sender.model)));
    } else {
        ctx.class("v1");
        let with_sponsor = gen::boolean(&mut u);
        if with_sponsor {
            hdr.sponsor = Some(gen::array::<32>(&mut u));
        }
        let digest = digest_v1(&hdr, &pbytes);
        let header = hdr.to_v1();
        let d1 = compute_transaction_sign_hash_v1(&header, &payload);
        let d2 = compute_transaction_sign_hash_v1(&header, &enc);
        vensure!(
            d1.as_ref() == digest && d2.as_ref() == digest,
            "sign-digest-v1",
            "{}: compute_transaction_sign_hash_v1 typed {} encoded {} independent SHA256(prefix||header||payload) {}",
            args.kind(),
            hex(d1.as_ref()),
            hex(d2.as_ref()),
            hex(&digest)
        );
        let sign_hash = TransactionSignHash::new(digest);
        let (signer, expected_sigs, sname) = gen_signer(&mut u, &sender, &digest);
        ctx.class(sname);
        let sender_sig = signer.sign(&sign_hash);
        vensure!(from_sig(&sender_sig) == expected_sigs, "signer-output", "{sname}: unexpected signature map on a v1 digest");
        let mut sponsor = Account::gen(&mut u, &mut rng, 3, 3);
        set_thresholds(&mut u, &mut sponsor, false);
        let sponsor_sig = if with_sponsor {
            ctx.class("v1-sponsored");
            let (s, e, n) = gen_signer(&mut u, &sponsor, &digest);
            let sig = s.sign(&sign_hash);
            vensure!(from_sig(&sig) == e, "signer-output", "{n}: unexpected sponsor signature map");
            Some(sig)
        } else {
            ctx.class("v1-unsponsored");
            None
        };
        let sender_m = from_sig(&sender_sig);
        let sponsor_m = sponsor_sig.as_ref().map(from_sig);
        let expect = reference_accepts(&sender.model, &digest, &sender_m)
            && sponsor_m.as_ref().map(|m| reference_accepts(&sponsor.model, &digest, m)).unwrap_or(true);
        ctx.class(if expect { "sufficient-signers" } else { "insufficient-signers" });
        let tx = AccountTransactionV1 {
            signatures: TransactionSignaturesV1 { sender: sender_sig.clone(), sponsor: sponsor_sig.clone() },
            header:     header.clone(),
            payload:    enc.clone(),
        };
        let sa = to_access(&sender.model);
        let pa = to_access(&sponsor.model);
        let got = tx.verify_transaction_signature(&sa, &pa);
        vensure!(
            got == expect,
            if expect { "sign-then-verify-fails-v1" } else { "insufficient-signers-verify-v1" },
            "{}: v1 verify = {got}, reference = {expect}",
            args.kind()
        );
        // block item hash, tag 3
        let bi: BlockItem<EncodedPayload> = BlockItem::AccountTransactionV1(tx.clone());
        let mut ser = vec![3u8];
        ser.extend_from_slice(&ser_sigs(&sender_m));
        match &sponsor_m {
            Some(m) => ser.extend_from_slice(&ser_sigs(m)),
            None => ser.push(0),
        }
        ser.extend_from_slice(&hdr.ser_v1());
        ser.extend_from_slice(&pbytes);
        let crate_ser = to_bytes(&bi);
        vensure!(crate_ser == ser, "block-item-serialization-v1", "v1 block item serialises to {} but the documented layout gives {}", short(&crate_ser), short(&ser));
        let h = bi.hash();
        vensure!(h.as_ref() == sha256(&[&ser]), "block-item-hash-v1", "BlockItem::hash {} != SHA256(serialization)", hex(h.as_ref()));
        // Observation only (NOTES, observation 3): the block-item decoder has no case for tag 3.
        match from_bytes::<BlockItem<EncodedPayload>, _>(&mut std::io::Cursor::new(&ser)) {
            Ok(_) => ctx.class("v1-block-item-reparsed"),
            Err(_) => ctx.class("v1-block-item-not-parseable"),
        }

        if expect {
            ctx.nontrivial(&(args.kind(), hdr.clone(), sname, format!("{:?}{:?}", sender.model, sponsor.model)));
            let (h2, what) = hdr.flip_bit(&mut u, true);
            let t2 = AccountTransactionV1 { signatures: tx.signatures.clone(), header: h2.to_v1(), payload: enc.clone() };
            vensure!(!t2.verify_transaction_signature(&sa, &pa), "flip-header-verifies-v1", "{}: after flipping header {what} the v1 transaction still verifies", args.kind());
            ctx.class("perturb:header-bit");
            // toggling the presence of the sponsor in the header changes the digest
            let mut h3 = hdr.clone();
            h3.sponsor = if hdr.sponsor.is_some() { None } else { Some([0u8; 32]) };
            let t3 = AccountTransactionV1 { signatures: tx.signatures.clone(), header: h3.to_v1(), payload: enc.clone() };
            vensure!(!t3.verify_transaction_signature(&sa, &pa), "toggle-sponsor-verifies", "after toggling the sponsor field of the header the v1 transaction still verifies");
            ctx.class("perturb:sponsor-toggle");
            let mut p2 = pbytes.clone();
            let i = gen::idx(&mut u, p2.len() * 8);
            flip(&mut p2, i);
            let t2 = AccountTransactionV1 { signatures: tx.signatures.clone(), header: header.clone(), payload: EncodedPayload::try_from(p2).unwrap() };
            vensure!(!t2.verify_transaction_signature(&sa, &pa), "flip-payload-verifies-v1", "{}: after flipping payload bit {i} the v1 transaction still verifies", args.kind());
            ctx.class("perturb:payload-bit");
            // flip a bit in a sender or a sponsor signature
            let on_sponsor = sponsor_m.is_some() && gen::boolean(&mut u);
            let mut sm = if on_sponsor { sponsor_m.clone().unwrap() } else { sender_m.clone() };
            let slots: Vec<(u8, u8)> = sm.iter().flat_map(|(c, m)| m.keys().map(move |k| (*c, *k))).collect();
            let (sc, sk) = slots[gen::idx(&mut u, slots.len())];
            let i = gen::idx(&mut u, 512);
            flip(sm.get_mut(&sc).unwrap().get_mut(&sk).unwrap(), i);
            let sigs2 = if on_sponsor {
                TransactionSignaturesV1 { sender: sender_sig.clone(), sponsor: Some(to_sig(&sm)) }
            } else {
                TransactionSignaturesV1 { sender: to_sig(&sm), sponsor: sponsor_sig.clone() }
            };
            let t2 = AccountTransactionV1 { signatures: sigs2, header: header.clone(), payload: enc.clone() };
            vensure!(
                !t2.verify_transaction_signature(&sa, &pa),
                "flip-signature-verifies-v1",
                "after flipping bit {i} of a {} signature the v1 transaction still verifies",
                if on_sponsor { "sponsor" } else { "sender" }
            );
            ctx.class(if on_sponsor { "perturb:sponsor-signature-bit" } else { "perturb:signature-bit" });
            // the v0 digest of the same fields is a different message: a v0 transaction with the
            // same signatures must not verify (domain separation by the documented prefix)
            if !with_sponsor {
                let t0 = AccountTransaction { signature: sender_sig.clone(), header: hdr.to_v0(), payload: enc.clone() };
                vensure!(!t0.verify_transaction_signature(&sa), "v1-signature-valid-for-v0", "signatures on the v1 digest verify for the v0 transaction with the same header fields");
                ctx.class("perturb:v1-vs-v0");
            }
        }
        ctx.sample(|| {
            format!(
                "v1 {} payload {} header {:?} sender {} sponsor-signature {} -> verify {}",
                args.kind(),
                short(&pbytes),
                hdr,
                pretty_acc(&sender.model),
                sponsor_m.is_some(),
                expect
            )
        });
        ctx.describe(|| format!("v1 {:?}\nheader {:?}\nsender {}\nsponsor {}", args, hdr, pretty_acc(&sender.model), pretty_acc(&sponsor.model)));
    }
    Ok(())
}
