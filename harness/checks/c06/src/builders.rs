//! Target `builders`: every `construct::*` / `send::*` builder declares the actual encoded payload
//! size and the documented energy; its sign digest is the independent one; the v1 extension and
//! sponsoring adjust energy as documented; what the builders sign verifies.
use crate::{common::*, payloads::PArgs, signmeta::*};
use concordium_base::{
    base::{Energy, Nonce},
    common::{to_bytes, types::TransactionTime},
    contracts_common::AccountAddress,
    transactions::{construct, cost, send},
};
use vcore::{gen, vensure, CheckResult, Ctx, Unstructured};

const HEADER_SIZE: u64 = 32 + 8 + 8 + 4 + 8;

fn num_sigs(u: &mut Unstructured) -> u32 {
    match gen::byte(u) % 8 {
        0 => 0,
        1 => 1,
        2 => 2,
        3 => 255,
        4 => u32::MAX,
        5 => gen::u32v(u),
        _ => gen::range_u64(u, 1, 25) as u32,
    }
}

/// Documented base cost: `B * size + A * number of signatures` with A = 100 per signature and B = 1 per byte.
fn base(size: u64, sigs: u64) -> u64 { cost::B * size + cost::A * sigs }

pub fn t_builders(data: &[u8], ctx: &mut Ctx) -> CheckResult {
    let mut u = Unstructured::new(data);
    let mut rng = gen::rng(&mut u);
    let heavy = gen::ratio(&mut u, 1, 10);
    let args = PArgs::gen(&mut u, &mut rng, heavy);
    let kind = args.kind();
    ctx.class(&format!("kind:{kind}"));
    let sender_addr = AccountAddress(gen::array::<32>(&mut u));
    let nonce = gen::boundary_u64(&mut u);
    let expiry = gen::boundary_u64(&mut u);
    let n = num_sigs(&mut u);
    ctx.describe(|| format!("{args:?}\nnum_sigs {n} nonce {nonce} expiry {expiry}"));

    let expected_payload = match args.hand() {
        Some(h) => {
            ctx.class("payload-hand-encoded");
            h
        }
        None => to_bytes(&args.payload()),
    };
    let len = expected_payload.len() as u64;
    let specific = args.specific_energy();

    let pre = args.construct(n, sender_addr, Nonce::from(nonce), TransactionTime::from_seconds(expiry));
    let enc: Vec<u8> = pre.encoded.clone().into();
    vensure!(enc == expected_payload, "builder-payload", "construct::{kind}: encoded payload {} but the arguments encode to {}", short(&enc), short(&expected_payload));
    vensure!(to_bytes(&pre.payload) == expected_payload, "builder-typed-payload", "construct::{kind}: the typed payload does not encode to the encoded payload");
    vensure!(
        u32::from(pre.header.payload_size) as u64 == len,
        "builder-payload-size",
        "construct::{kind}: header.payload_size = {} but the encoded payload has {} bytes",
        u32::from(pre.header.payload_size),
        len
    );
    vensure!(
        pre.header.sender == sender_addr && pre.header.nonce.nonce == nonce && pre.header.expiry.seconds == expiry,
        "builder-header-fields",
        "construct::{kind}: sender/nonce/expiry were not passed through"
    );
    let want_energy = base(HEADER_SIZE + len, n as u64) + specific;
    vensure!(
        pre.header.energy_amount.energy == want_energy,
        "builder-energy",
        "construct::{kind}: energy {} but documented formula gives 1*({HEADER_SIZE}+{len}) + 100*{n} + {specific} = {want_energy}",
        pre.header.energy_amount.energy
    );
    let hdr = Hdr::of_v0(&pre.header);
    let digest = digest_v0(&hdr, &expected_payload);
    vensure!(pre.hash_to_sign.as_ref() == digest, "builder-sign-digest", "construct::{kind}: hash_to_sign {} != SHA256(header||payload) {}", hex(pre.hash_to_sign.as_ref()), hex(&digest));
    let mut body = hdr.ser_v0();
    body.extend_from_slice(&expected_payload);
    vensure!(to_bytes(&pre) == body, "builder-body-serialization", "construct::{kind}: the prepared transaction does not serialise to header || payload");
    ctx.nontrivial(&(kind, &expected_payload, n, nonce, expiry));

    let mut signer_acc = Account::gen(&mut u, &mut rng, 3, 3);
    set_thresholds(&mut u, &mut signer_acc, true);
    let access = to_access(&signer_acc.model);
    let mode = gen::idx(&mut u, 4);
    match mode {
        0 => {
            ctx.class("mode:construct+sign");
            let (signer, expected_sigs, sname) = gen_signer(&mut u, &signer_acc, &digest);
            let tx = match &signer {
                SignerKind::AccountKeys(k) => pre.clone().sign(k),
                SignerKind::Map(m) => pre.clone().sign(m),
            };
            vensure!(from_sig(&tx.signature) == expected_sigs, "builder-sign-output", "construct::{kind}.sign with {sname}: unexpected signature map");
            vensure!(Hdr::of_v0(&tx.header) == hdr, "builder-sign-header", "sign changed the header");
            let expect = reference_accepts(&signer_acc.model, &digest, &expected_sigs);
            let got = tx.verify_transaction_signature(&access);
            vensure!(got == expect, if expect { "builder-sign-then-verify-fails" } else { "builder-insufficient-verifies" }, "construct::{kind}.sign({sname}): verify {got}, reference {expect}");
            ctx.class(if expect { "signed-verifies" } else { "signed-insufficient" });
            // the header of a prepared transaction is public: when it is adjusted before signing, the
            // signatures must still be over the digest of exactly the header that is emitted
            let mut pre2 = pre.clone();
            pre2.header.nonce = Nonce::from(nonce.wrapping_add(1));
            if nonce % 2 == 1 {
                pre2.header.energy_amount = Energy::from(u64::from(pre2.header.energy_amount).wrapping_add(1));
            }
            let hdr2 = Hdr::of_v0(&pre2.header);
            let digest2 = digest_v0(&hdr2, &expected_payload);
            let tx2 = match &signer {
                SignerKind::AccountKeys(k) => pre2.sign(k),
                SignerKind::Map(m) => pre2.sign(m),
            };
            vensure!(Hdr::of_v0(&tx2.header) == hdr2, "builder-sign-header", "sign changed the adjusted header");
            let sigs2 = from_sig(&tx2.signature);
            let got2 = tx2.verify_transaction_signature(&access);
            vensure!(got2 == reference_accepts(&signer_acc.model, &digest2, &sigs2), "builder-adjusted-header-verify", "construct::{kind}: verify {got2} disagrees with the reference on the emitted header");
            vensure!(
                got2 == expect,
                "builder-adjusted-header-sign",
                "construct::{kind}.sign({sname}) after adjusting the prepared header: verify {got2}, but the same signer gives {expect} on the unadjusted one (signatures are not over the digest of the emitted header)"
            );
            ctx.class("adjusted-header-signed");
        }
        1 => {
            ctx.class("mode:send");
            let use_map = gen::boolean(&mut u);
            let keys = account_keys(&signer_acc);
            let map: KeyMap = signer_acc.secrets.iter().fold(KeyMap::new(), |mut m, ((c, k), sk)| {
                m.entry((*c).into()).or_default().insert((*k).into(), sk.clone().into());
                m
            });
            let tx = if use_map {
                args.send(&map, sender_addr, Nonce::from(nonce), TransactionTime::from_seconds(expiry))
            } else {
                args.send(&keys, sender_addr, Nonce::from(nonce), TransactionTime::from_seconds(expiry))
            };
            let txp: Vec<u8> = tx.payload.clone().into();
            vensure!(txp == expected_payload, "send-payload", "send::{kind}: payload differs from the arguments' encoding");
            vensure!(u32::from(tx.header.payload_size) as u64 == len, "send-payload-size", "send::{kind}: payload_size {} but payload has {len} bytes", u32::from(tx.header.payload_size));
            let h2 = Hdr::of_v0(&tx.header);
            let d2 = digest_v0(&h2, &expected_payload);
            // the number of signatures the signer will produce, counted independently
            let exp_sigs = if use_map {
                signer_acc.secrets.iter().fold(MSigs::new(), |mut m, ((c, k), sk)| {
                    m.entry(*c).or_default().insert(*k, sign(sk, &d2));
                    m
                })
            } else {
                expected_account_keys_sigs(&signer_acc, &d2)
            };
            let nsig = exp_sigs.values().map(|m| m.len() as u64).sum::<u64>();
            let want = base(HEADER_SIZE + len, nsig) + specific;
            vensure!(
                tx.header.energy_amount.energy == want,
                "send-energy",
                "send::{kind}: energy {} but documented formula with the signer's {nsig} signatures gives {want}",
                tx.header.energy_amount.energy
            );
            vensure!(from_sig(&tx.signature) == exp_sigs, "send-sign-output", "send::{kind}: unexpected signature map");
            let expect = reference_accepts(&signer_acc.model, &d2, &exp_sigs);
            let got = tx.verify_transaction_signature(&access);
            vensure!(got == expect, if expect { "send-then-verify-fails" } else { "send-insufficient-verifies" }, "send::{kind}: verify {got}, reference {expect}");
            ctx.class(if expect { "signed-verifies" } else { "signed-insufficient" });
        }
        2 => {
            ctx.class("mode:extend-v1");
            let mut v1 = pre.clone().extend();
            let mut h1 = hdr.clone();
            h1.energy = base(HEADER_SIZE + 2 + len, n as u64) + specific;
            vensure!(Hdr::of_v1(&v1.header) == h1, "extend-header", "extend(): header {:?}, expected {:?} (energy + 2 for the bitmap, no sponsor)", Hdr::of_v1(&v1.header), h1);
            let d1 = digest_v1(&h1, &expected_payload);
            vensure!(v1.hash_to_sign.as_ref() == d1, "extend-sign-digest", "extend(): hash_to_sign is not SHA256(prefix||header v1||payload)");
            vensure!(v1.finalize().is_err(), "finalize-without-signature", "finalize() succeeded without a sender signature");
            vensure!(v1.sponsor(&account_keys(&signer_acc)).is_err(), "sponsor-without-sponsor", "sponsor() succeeded although no sponsor was added");
            let sponsored = gen::boolean(&mut u);
            let mut sponsor_acc = Account::gen(&mut u, &mut rng, 3, 3);
            set_thresholds(&mut u, &mut sponsor_acc, true);
            let mut cur = h1.clone();
            let mut dcur = d1;
            if sponsored {
                ctx.class("v1-sponsored");
                let sp = gen::array::<32>(&mut u);
                let nsp = num_sigs(&mut u);
                vensure!(v1.add_sponsor(AccountAddress(sp), nsp).is_ok(), "add-sponsor", "add_sponsor failed on a transaction without a sponsor");
                cur.sponsor = Some(sp);
                cur.energy = base(HEADER_SIZE + 2 + 32 + len, n as u64 + nsp as u64) + specific;
                vensure!(
                    Hdr::of_v1(&v1.header) == cur,
                    "add-sponsor-header",
                    "add_sponsor: header {:?}, expected {:?} (energy + 32 + 100 * {nsp})",
                    Hdr::of_v1(&v1.header),
                    cur
                );
                dcur = digest_v1(&cur, &expected_payload);
                vensure!(v1.hash_to_sign.as_ref() == dcur, "add-sponsor-sign-digest", "add_sponsor: hash_to_sign was not recomputed over the new header");
                vensure!(v1.add_sponsor(AccountAddress([1u8; 32]), 1).is_err(), "add-sponsor-twice", "a second add_sponsor succeeded");
                vensure!(Hdr::of_v1(&v1.header) == cur, "add-sponsor-twice", "a failed add_sponsor changed the header");
            } else {
                ctx.class("v1-unsponsored");
            }
            let (signer, sender_sigs, sname) = gen_signer(&mut u, &signer_acc, &dcur);
            match &signer {
                SignerKind::AccountKeys(k) => v1.sign(k),
                SignerKind::Map(m) => v1.sign(m),
            };
            let mut sponsor_sigs = None;
            if sponsored && !gen::ratio(&mut u, 1, 6) {
                let (s2, e2, _) = gen_signer(&mut u, &sponsor_acc, &dcur);
                let r = match &s2 {
                    SignerKind::AccountKeys(k) => v1.sponsor(k).map(|_| ()),
                    SignerKind::Map(m) => v1.sponsor(m).map(|_| ()),
                };
                vensure!(r.is_ok(), "sponsor-sign", "sponsor() failed although a sponsor is present");
                sponsor_sigs = Some(e2);
            }
            let tx = match v1.finalize() {
                Ok(t) => t,
                Err(e) => vcore::vfail!("finalize", "finalize() failed with a sender signature present: {e}"),
            };
            vensure!(Hdr::of_v1(&tx.header) == cur, "finalize-header", "finalize changed the header");
            let txp: Vec<u8> = tx.payload.clone().into();
            vensure!(txp == expected_payload, "finalize-payload", "finalize changed the payload");
            vensure!(from_sig(&tx.signatures.sender) == sender_sigs, "finalize-sender-signature", "{sname}: unexpected sender signature map");
            vensure!(tx.signatures.sponsor.as_ref().map(from_sig) == sponsor_sigs, "finalize-sponsor-signature", "unexpected sponsor signature map");
            let expect = reference_accepts(&signer_acc.model, &dcur, &sender_sigs)
                && sponsor_sigs.as_ref().map(|m| reference_accepts(&sponsor_acc.model, &dcur, m)).unwrap_or(true);
            let got = tx.verify_transaction_signature(&access, &to_access(&sponsor_acc.model));
            vensure!(got == expect, if expect { "v1-builder-sign-then-verify-fails" } else { "v1-builder-insufficient-verifies" }, "v1 built from construct::{kind}: verify {got}, reference {expect}");
            ctx.class(if expect { "signed-verifies" } else { "signed-insufficient" });
        }
        _ => {
            ctx.class("mode:make_transaction");
            let e = gen::boundary_u64(&mut u) >> 1;
            let payload = args.payload();
            let abs = construct::make_transaction(
                sender_addr,
                Nonce::from(nonce),
                TransactionTime::from_seconds(expiry),
                construct::GivenEnergy::Absolute(Energy::from(e)),
                payload.clone(),
            );
            vensure!(abs.header.energy_amount.energy == e, "make-transaction-absolute", "GivenEnergy::Absolute({e}) produced energy {}", abs.header.energy_amount.energy);
            vensure!(u32::from(abs.header.payload_size) as u64 == len, "make-transaction-payload-size", "make_transaction: payload_size {} for {len} bytes", u32::from(abs.header.payload_size));
            let add = construct::make_transaction(
                sender_addr,
                Nonce::from(nonce),
                TransactionTime::from_seconds(expiry),
                construct::GivenEnergy::Add { energy: Energy::from(e), num_sigs: n },
                payload.clone(),
            );
            let want = base(HEADER_SIZE + len, n as u64) + e;
            vensure!(add.header.energy_amount.energy == want, "make-transaction-add", "GivenEnergy::Add({e}, {n} sigs) produced energy {}, documented {want}", add.header.energy_amount.energy);
            let keys = account_keys(&signer_acc);
            let nsig = expected_account_keys_sigs(&signer_acc, &[0u8; 32]).values().map(|m| m.len() as u64).sum::<u64>();
            let s_add = send::make_and_sign_transaction(
                &keys,
                sender_addr,
                Nonce::from(nonce),
                TransactionTime::from_seconds(expiry),
                send::GivenEnergy::Add(Energy::from(e)),
                payload.clone(),
            );
            let want = base(HEADER_SIZE + len, nsig) + e;
            vensure!(s_add.header.energy_amount.energy == want, "make-and-sign-add", "send::GivenEnergy::Add({e}) with {nsig} signer keys produced {}, documented {want}", s_add.header.energy_amount.energy);
            let s_abs = send::make_and_sign_transaction(
                &keys,
                sender_addr,
                Nonce::from(nonce),
                TransactionTime::from_seconds(expiry),
                send::GivenEnergy::Absolute(Energy::from(e)),
                payload,
            );
            vensure!(s_abs.header.energy_amount.energy == e, "make-and-sign-absolute", "send::GivenEnergy::Absolute({e}) produced {}", s_abs.header.energy_amount.energy);
            for tx in [&s_add, &s_abs] {
                let h = Hdr::of_v0(&tx.header);
                let d = digest_v0(&h, &expected_payload);
                let sigs = from_sig(&tx.signature);
                vensure!(sigs == expected_account_keys_sigs(&signer_acc, &d), "make-and-sign-output", "make_and_sign_transaction: unexpected signature map");
                let expect = reference_accepts(&signer_acc.model, &d, &sigs);
                let got = tx.verify_transaction_signature(&access);
                vensure!(got == expect, "make-and-sign-verify", "make_and_sign_transaction: verify {got}, reference {expect}");
            }
        }
    }
    ctx.sample(|| format!("{kind} num_sigs {n} payload {len}B specific energy {specific} -> energy {want_energy}, payload_size {len}"));
    ctx.describe(|| format!("{args:?}\nnum_sigs {n} nonce {nonce} expiry {expiry}\nsigner {}", pretty_acc(&signer_acc.model)));
    Ok(())
}
