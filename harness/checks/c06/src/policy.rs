//! Targets `policy` and `policy_v1`: the accept/reject decision of the verification functions
//! equals the reference predicate, in both directions, over generated access structures and
//! signature maps concentrated around the accept/reject boundary.
use crate::common::*;
use concordium_base::{
    common::types::{CredentialIndex, KeyIndex, TransactionSignaturesV1},
    contracts_common::{AccountThreshold, SignatureThreshold},
    hashes::TransactionSignHash,
    transactions::{
        compute_transaction_sign_hash, compute_transaction_sign_hash_v1, verify_data_signature,
        verify_signature_transaction_sign_hash, verify_signature_transaction_sign_hash_v1, AccountAccessStructure,
        AccountTransaction, AccountTransactionV1, EncodedPayload, HasAccountAccessStructure,
    },
};
use std::collections::BTreeSet;
use vcore::{gen, vensure, CheckResult, Ctx, Unstructured};

pub struct Scenario {
    pub acc:    Account,
    pub sigs:   MSigs,
    pub mode:   &'static str,
    pub extras: Vec<&'static str>,
}

const OPS: &[&str] = &[
    "account-one-short",
    "credential-one-short",
    "unknown-credential",
    "unknown-key-index",
    "wrong-key",
    "corrupted-signature",
    "other-digest",
    "empty-inner-map",
];

/// Build an access structure, a set of signers, thresholds relative to what is supplied, and then
/// 0..3 injected defects.
pub fn gen_scenario(u: &mut Unstructured, rng: &mut Rng, digest: &[u8; 32], max_creds: usize, max_keys: usize) -> Scenario {
    let mut acc = Account::gen(u, rng, max_creds, max_keys);
    // who signs
    let cred_ids: Vec<u8> = acc.model.creds.keys().copied().collect();
    let mut sigs = MSigs::new();
    let all_creds = gen::ratio(u, 1, 3);
    for ci in &cred_ids {
        let take = all_creds || gen::boolean(u);
        if !take {
            continue;
        }
        let key_ids: Vec<u8> = acc.model.creds[ci].keys.keys().copied().collect();
        let all_keys = gen::ratio(u, 1, 3);
        let mut cs = std::collections::BTreeMap::new();
        for ki in &key_ids {
            if all_keys || gen::boolean(u) {
                cs.insert(*ki, sign(&acc.secrets[&(*ci, *ki)], digest));
            }
        }
        if cs.is_empty() {
            let ki = key_ids[gen::idx(u, key_ids.len())];
            cs.insert(ki, sign(&acc.secrets[&(*ci, ki)], digest));
        }
        sigs.insert(*ci, cs);
    }
    if sigs.is_empty() && !gen::ratio(u, 1, 8) {
        let ci = cred_ids[gen::idx(u, cred_ids.len())];
        let ki = *acc.model.creds[&ci].keys.keys().next().unwrap();
        let mut cs = std::collections::BTreeMap::new();
        cs.insert(ki, sign(&acc.secrets[&(ci, ki)], digest));
        sigs.insert(ci, cs);
    }
    // thresholds
    let mode = match gen::byte(u) % 20 {
        0..=8 => "tight",
        9..=15 => "slack",
        _ => "free",
    };
    let nsup = sigs.len();
    match mode {
        "tight" => {
            acc.model.threshold = nsup.clamp(1, 255) as u8;
            for (ci, c) in acc.model.creds.iter_mut() {
                let n = sigs.get(ci).map(|s| s.len()).unwrap_or(0);
                c.threshold = if n == 0 {
                    threshold_near(u, c.keys.len())
                } else if gen::boolean(u) {
                    n as u8
                } else {
                    gen::range_u64(u, 1, n as u64) as u8
                };
            }
        }
        "slack" => {
            acc.model.threshold = gen::range_u64(u, 1, nsup.max(1) as u64) as u8;
            for (ci, c) in acc.model.creds.iter_mut() {
                let n = sigs.get(ci).map(|s| s.len()).unwrap_or(0);
                c.threshold = if n == 0 { threshold_near(u, c.keys.len()) } else { gen::range_u64(u, 1, n as u64) as u8 };
            }
        }
        _ => {
            acc.model.threshold = threshold_near(u, nsup);
            for (ci, c) in acc.model.creds.iter_mut() {
                let n = sigs.get(ci).map(|s| s.len()).unwrap_or(c.keys.len());
                c.threshold = threshold_near(u, n);
            }
        }
    }
    // defects
    let k = match gen::byte(u) % 25 {
        0..=9 => 0,
        10..=19 => 1,
        20..=22 => 2,
        _ => 3,
    };
    let mut extras = Vec::new();
    for _ in 0..k {
        let op = gen::idx(u, OPS.len());
        let applied = apply_defect(u, rng, digest, &mut acc, &mut sigs, op);
        extras.push(applied);
    }
    Scenario { acc, sigs, mode, extras }
}

/// A supplied signature slot (credential registered, key registered).
fn pick_slot(u: &mut Unstructured, acc: &Account, sigs: &MSigs) -> Option<(u8, u8)> {
    let slots: Vec<(u8, u8)> = sigs
        .iter()
        .flat_map(|(ci, cs)| cs.keys().map(move |ki| (*ci, *ki)))
        .filter(|(ci, ki)| acc.model.creds.get(ci).map(|c| c.keys.contains_key(ki)).unwrap_or(false))
        .collect();
    if slots.is_empty() {
        None
    } else {
        Some(slots[gen::idx(u, slots.len())])
    }
}

fn apply_defect(u: &mut Unstructured, rng: &mut Rng, digest: &[u8; 32], acc: &mut Account, sigs: &mut MSigs, op: usize) -> &'static str {
    match op {
        0 => {
            acc.model.threshold = (sigs.len() + 1).min(255) as u8;
            OPS[0]
        }
        1 => {
            let sup: Vec<u8> = sigs.keys().copied().filter(|c| acc.model.creds.contains_key(c)).collect();
            if sup.is_empty() {
                return apply_defect(u, rng, digest, acc, sigs, 2);
            }
            let ci = sup[gen::idx(u, sup.len())];
            acc.model.creds.get_mut(&ci).unwrap().threshold = (sigs[&ci].len() + 1).min(255) as u8;
            OPS[1]
        }
        2 => {
            let used: BTreeSet<u8> = acc.model.creds.keys().chain(sigs.keys()).copied().collect();
            let ci = fresh_index(u, &used);
            let k = new_key(rng);
            let mut cs = std::collections::BTreeMap::new();
            cs.insert(gen::byte(u), sign(&k, digest));
            sigs.insert(ci, cs);
            OPS[2]
        }
        3 => {
            let sup: Vec<u8> = sigs.keys().copied().filter(|c| acc.model.creds.contains_key(c)).collect();
            if sup.is_empty() {
                return apply_defect(u, rng, digest, acc, sigs, 2);
            }
            let ci = sup[gen::idx(u, sup.len())];
            let used: BTreeSet<u8> = acc.model.creds[&ci].keys.keys().chain(sigs[&ci].keys()).copied().collect();
            let ki = fresh_index(u, &used);
            // signed by a registered key of the same credential, but supplied under an unregistered index
            let signer_ki = *acc.model.creds[&ci].keys.keys().next().unwrap();
            let s = sign(&acc.secrets[&(ci, signer_ki)], digest);
            sigs.get_mut(&ci).unwrap().insert(ki, s);
            OPS[3]
        }
        4 => {
            let Some((ci, ki)) = pick_slot(u, acc, sigs) else { return apply_defect(u, rng, digest, acc, sigs, 2) };
            let others: Vec<(u8, u8)> = acc.secrets.keys().copied().filter(|x| *x != (ci, ki)).collect();
            let s = if others.is_empty() {
                sign(&new_key(rng), digest)
            } else {
                sign(&acc.secrets[&others[gen::idx(u, others.len())]], digest)
            };
            sigs.get_mut(&ci).unwrap().insert(ki, s);
            OPS[4]
        }
        5 => {
            let Some((ci, ki)) = pick_slot(u, acc, sigs) else { return apply_defect(u, rng, digest, acc, sigs, 2) };
            let s = sigs.get_mut(&ci).unwrap().get_mut(&ki).unwrap();
            if s.len() != 64 {
                *s = sign(&acc.secrets[&(ci, ki)], digest);
            }
            match gen::byte(u) % 8 {
                0 => {
                    s.pop();
                }
                1 => s.push(0),
                2 => s.clear(),
                3 => *s = vec![0u8; 64],
                _ => {
                    let i = gen::idx(u, 512);
                    s[i / 8] ^= 1 << (i % 8);
                }
            }
            OPS[5]
        }
        6 => {
            let Some((ci, ki)) = pick_slot(u, acc, sigs) else { return apply_defect(u, rng, digest, acc, sigs, 2) };
            let mut d = *digest;
            let i = gen::idx(u, 256);
            d[i / 8] ^= 1 << (i % 8);
            let s = sign(&acc.secrets[&(ci, ki)], &d);
            sigs.get_mut(&ci).unwrap().insert(ki, s);
            OPS[6]
        }
        _ => {
            let unsup: Vec<u8> = acc.model.creds.keys().copied().filter(|c| !sigs.contains_key(c)).collect();
            let ci = if unsup.is_empty() || gen::ratio(u, 1, 4) {
                let used: BTreeSet<u8> = acc.model.creds.keys().chain(sigs.keys()).copied().collect();
                fresh_index(u, &used)
            } else {
                let ci = unsup[gen::idx(u, unsup.len())];
                if gen::boolean(u) {
                    acc.model.creds.get_mut(&ci).unwrap().threshold = 1;
                }
                ci
            };
            sigs.insert(ci, Default::default());
            OPS[7]
        }
    }
}

/// Build the crate's access structure through `AccountAccessStructure::new`, optionally with
/// decoy duplicates placed *before* the real entries ("later ones override the previous ones").
fn access_via_new(u: &mut Unstructured, rng: &mut Rng, acc: &MAcc) -> (AccountAccessStructure, bool) {
    let decoys = gen::ratio(u, 1, 3);
    let mut key_lists: Vec<Vec<(KeyIndex, ed25519_dalek::VerifyingKey)>> = Vec::new();
    let mut heads: Vec<(CredentialIndex, SignatureThreshold)> = Vec::new();
    if decoys {
        if let Some((ci, c)) = acc.creds.iter().next() {
            // a decoy credential entry with other keys and threshold, overridden below
            let k = new_key(rng);
            heads.push((CredentialIndex { index: *ci }, SignatureThreshold::try_from(c.threshold.wrapping_add(1).max(1)).unwrap()));
            key_lists.push(vec![(KeyIndex(0), k.verifying_key()), (KeyIndex(7), k.verifying_key())]);
        }
    }
    for (ci, c) in &acc.creds {
        heads.push((CredentialIndex { index: *ci }, SignatureThreshold::try_from(c.threshold).unwrap()));
        let mut l = Vec::new();
        if decoys {
            if let Some((ki, _)) = c.keys.iter().next() {
                l.push((KeyIndex(*ki), new_key(rng).verifying_key()));
            }
        }
        for (ki, pk) in &c.keys {
            l.push((KeyIndex(*ki), vk(pk)));
        }
        key_lists.push(l);
    }
    let structure: Vec<(CredentialIndex, SignatureThreshold, &[(KeyIndex, ed25519_dalek::VerifyingKey)])> =
        heads.iter().zip(key_lists.iter()).map(|((ci, t), l)| (*ci, *t, l.as_slice())).collect();
    (AccountAccessStructure::new(AccountThreshold::try_from(acc.threshold).unwrap(), &structure), decoys)
}

/// An implementation of the access-structure trait that is not the crate's own map type.
struct Lookup<'a>(&'a AccountAccessStructure);
impl HasAccountAccessStructure for Lookup<'_> {
    fn threshold(&self) -> AccountThreshold { self.0.threshold }

    fn credential_keys(&self, idx: CredentialIndex) -> Option<&concordium_base::id::types::CredentialPublicKeys> {
        self.0.keys.iter().find(|(k, _)| **k == idx).map(|(_, v)| v)
    }
}

fn classify(ctx: &mut Ctx, sc: &Scenario, digest: &[u8; 32], prefix: &str) -> (bool, bool) {
    let expect = reference_accepts(&sc.acc.model, digest, &sc.sigs);
    let d = defects(&sc.acc.model, digest, &sc.sigs);
    let boundary = if expect { tight(&sc.acc.model, &sc.sigs) } else { d == 1 };
    ctx.class(&format!("{prefix}mode:{}", sc.mode));
    ctx.class(&format!("{prefix}{}", if expect { "ref-accept" } else { "ref-reject" }));
    if expect && boundary {
        ctx.class(&format!("{prefix}accept-tight"));
    }
    if !expect && d == 1 {
        ctx.class(&format!("{prefix}reject-one-defect"));
    }
    if !expect && d > 1 {
        ctx.class(&format!("{prefix}reject-many-defects"));
    }
    for e in &sc.extras {
        ctx.class(&format!("{prefix}extra:{e}"));
    }
    if sc.acc.model.threshold as usize > sc.acc.model.creds.len() {
        ctx.class(&format!("{prefix}account-threshold>credentials"));
    }
    if sc.acc.model.creds.values().any(|c| c.threshold as usize > c.keys.len()) {
        ctx.class(&format!("{prefix}credential-threshold>keys"));
    }
    (expect, boundary)
}

pub fn t_policy(data: &[u8], ctx: &mut Ctx) -> CheckResult {
    let mut u = Unstructured::new(data);
    let mut rng = gen::rng(&mut u);
    let mut hdr = Hdr::gen(&mut u);
    let payload = gen::short_bytes(&mut u, 48);
    hdr.payload_size = if gen::ratio(&mut u, 1, 8) { gen::u32v(&mut u) } else { payload.len() as u32 };
    let digest = digest_v0(&hdr, &payload);
    let sc = gen_scenario(&mut u, &mut rng, &digest, 5, 5);

    let (expect, boundary) = classify(ctx, &sc, &digest, "");
    let d = defects(&sc.acc.model, &digest, &sc.sigs);
    vensure!(expect == (d == 0), "harness-self-check", "reference predicate and defect count disagree: accept={expect} defects={d}");
    if boundary {
        ctx.class("boundary");
        ctx.nontrivial(&(&sc.acc.model.threshold, format!("{:?}", sc.acc.model.creds), &sc.sigs));
    }
    let pretty = || {
        format!(
            "{}\n{}\nmode {} extras {:?}\nreference: {} (defects {})",
            pretty_acc(&sc.acc.model),
            pretty_sigs(&sc.acc.model, &digest, &sc.sigs),
            sc.mode,
            sc.extras,
            if expect { "ACCEPT" } else { "REJECT" },
            d
        )
    };
    ctx.sample(pretty);
    ctx.describe(pretty);

    let (access, decoys) = access_via_new(&mut u, &mut rng, &sc.acc.model);
    if decoys {
        ctx.class("constructor-with-overridden-duplicates");
    }
    let direct = to_access(&sc.acc.model);
    vensure!(access == direct, "access-structure-new", "AccountAccessStructure::new (decoys={decoys}) differs from the specified structure:\n{access:?}\nvs\n{direct:?}");

    let sig = to_sig(&sc.sigs);
    let sign_hash = TransactionSignHash::new(digest);
    // 1. low-level function on the independently computed digest
    let got = verify_signature_transaction_sign_hash(&access, &sign_hash, &sig);
    vensure!(
        got == expect,
        if expect { "policy-rejects-authorised" } else { "policy-accepts-unauthorised" },
        "verify_signature_transaction_sign_hash = {got}, reference = {expect}"
    );
    // 2. the same through a foreign implementation of the trait
    let got = verify_signature_transaction_sign_hash(&Lookup(&access), &sign_hash, &sig);
    vensure!(got == expect, "policy-trait-impl", "verify_signature_transaction_sign_hash over a custom HasAccountAccessStructure = {got}, reference = {expect}");
    // 3. verify_data_signature on the digest bytes
    let got = verify_data_signature(&access, &digest, &sig.signatures);
    vensure!(got == expect, "policy-data-signature", "verify_data_signature = {got}, reference = {expect}");
    // 4. the whole transaction (the crate computes the digest)
    let header = hdr.to_v0();
    let enc = EncodedPayload::try_from(payload.clone()).expect("payload below the maximum size");
    let crate_digest = compute_transaction_sign_hash(&header, &enc);
    vensure!(
        crate_digest.as_ref() == digest,
        "sign-digest",
        "compute_transaction_sign_hash = {} but SHA256(header || payload) = {}",
        hex(crate_digest.as_ref()),
        hex(&digest)
    );
    let tx = AccountTransaction { signature: sig, header, payload: enc };
    let got = tx.verify_transaction_signature(&access);
    vensure!(
        got == expect,
        if expect { "transaction-rejects-authorised" } else { "transaction-accepts-unauthorised" },
        "AccountTransaction::verify_transaction_signature = {got}, reference = {expect}"
    );
    Ok(())
}

pub fn t_policy_v1(data: &[u8], ctx: &mut Ctx) -> CheckResult {
    let mut u = Unstructured::new(data);
    let mut rng = gen::rng(&mut u);
    let mut hdr = Hdr::gen(&mut u);
    let payload = gen::short_bytes(&mut u, 48);
    hdr.payload_size = payload.len() as u32;
    let header_sponsor = gen::boolean(&mut u);
    if header_sponsor {
        hdr.sponsor = Some(gen::array::<32>(&mut u));
    }
    let digest = digest_v1(&hdr, &payload);
    let sender = gen_scenario(&mut u, &mut rng, &digest, 3, 3);
    // The sponsor signature is present or absent independently of the header's sponsor field: the
    // functions under test do not look at that field (see NOTES, observation 1).
    let sponsor_sig_present = if header_sponsor { !gen::ratio(&mut u, 1, 5) } else { gen::ratio(&mut u, 1, 5) };
    let sponsor = gen_scenario(&mut u, &mut rng, &digest, 3, 3);

    let (e_sender, b_sender) = classify(ctx, &sender, &digest, "sender-");
    let (e_sponsor, b_sponsor) = if sponsor_sig_present { classify(ctx, &sponsor, &digest, "sponsor-") } else { (true, false) };
    let expect = e_sender && (!sponsor_sig_present || e_sponsor);
    ctx.class(if expect { "v1-accept" } else { "v1-reject" });
    ctx.class(match (header_sponsor, sponsor_sig_present) {
        (true, true) => "sponsored+sponsor-signature",
        (true, false) => "sponsored-without-sponsor-signature",
        (false, true) => "unsponsored-with-sponsor-signature",
        (false, false) => "unsponsored",
    });
    // boundary: exactly one of the two parts is at its boundary while the other accepts
    let boundary = (b_sender && (!sponsor_sig_present || e_sponsor)) || (sponsor_sig_present && b_sponsor && e_sender);
    if boundary {
        ctx.class("boundary");
        ctx.nontrivial(&(
            format!("{:?}", sender.acc.model),
            &sender.sigs,
            sponsor_sig_present,
            format!("{:?}", sponsor.acc.model),
            &sponsor.sigs,
        ));
    }
    if sponsor_sig_present && e_sender && !e_sponsor {
        ctx.class("sender-ok-sponsor-bad");
    }
    if sponsor_sig_present && !e_sender && e_sponsor {
        ctx.class("sender-bad-sponsor-ok");
    }
    let pretty = || {
        format!(
            "header sponsor: {}\nSENDER {}\n{} (extras {:?}) -> {}\nSPONSOR signature present: {}\n{}\n{} (extras {:?}) -> {}\nreference: {}",
            header_sponsor,
            pretty_acc(&sender.acc.model),
            pretty_sigs(&sender.acc.model, &digest, &sender.sigs),
            sender.extras,
            e_sender,
            sponsor_sig_present,
            pretty_acc(&sponsor.acc.model),
            pretty_sigs(&sponsor.acc.model, &digest, &sponsor.sigs),
            sponsor.extras,
            e_sponsor,
            if expect { "ACCEPT" } else { "REJECT" }
        )
    };
    ctx.sample(pretty);
    ctx.describe(pretty);

    let sender_access = to_access(&sender.acc.model);
    let sponsor_access = to_access(&sponsor.acc.model);
    let sigs = TransactionSignaturesV1 {
        sender:  to_sig(&sender.sigs),
        sponsor: if sponsor_sig_present { Some(to_sig(&sponsor.sigs)) } else { None },
    };
    let got = verify_signature_transaction_sign_hash_v1(&sender_access, &sponsor_access, &TransactionSignHash::new(digest), &sigs);
    vensure!(
        got == expect,
        if expect { "policy-v1-rejects-authorised" } else { "policy-v1-accepts-unauthorised" },
        "verify_signature_transaction_sign_hash_v1 = {got}, reference = {expect} (sender {e_sender}, sponsor signature present {sponsor_sig_present}, sponsor {e_sponsor})"
    );
    let header = hdr.to_v1();
    let enc = EncodedPayload::try_from(payload.clone()).expect("payload below the maximum size");
    let crate_digest = compute_transaction_sign_hash_v1(&header, &enc);
    vensure!(
        crate_digest.as_ref() == digest,
        "sign-digest-v1",
        "compute_transaction_sign_hash_v1 = {} but SHA256(prefix || header || payload) = {}",
        hex(crate_digest.as_ref()),
        hex(&digest)
    );
    let tx = AccountTransactionV1 { signatures: sigs, header, payload: enc };
    let got = tx.verify_transaction_signature(&sender_access, &sponsor_access);
    vensure!(
        got == expect,
        if expect { "transaction-v1-rejects-authorised" } else { "transaction-v1-accepts-unauthorised" },
        "AccountTransactionV1::verify_transaction_signature = {got}, reference = {expect}"
    );
    // swapping the roles of the two access structures must follow the reference as well
    let swapped_expect = reference_accepts(&sponsor.acc.model, &digest, &sender.sigs)
        && (!sponsor_sig_present || reference_accepts(&sender.acc.model, &digest, &sponsor.sigs));
    let got = tx.verify_transaction_signature(&sponsor_access, &sender_access);
    vensure!(got == swapped_expect, "transaction-v1-swapped-roles", "with sender and sponsor keys swapped: got {got}, reference {swapped_expect}");
    Ok(())
}
