//! Target `updates`: `find_authorized_keys` / `construct_update_signer` accept exactly sets of
//! known, authorised, distinct keys; `update::update` signs exactly with the given keys over the
//! independent digest of header and payload; declared payload size; block-item hash.
use crate::common::*;
use concordium_base::{
    base::{
        AmountFraction, DurationSeconds, ElectionDifficulty, Energy, PartsPerHundredThousands, UpdateKeyPair, UpdateKeysIndex,
        UpdateKeysThreshold, UpdatePublicKey, UpdateSequenceNumber,
    },
    common::{from_bytes, to_bytes, types::{Amount, TransactionTime}},
    contracts_common::{AccountAddress, Duration, ExchangeRate},
    hashes,
    id::types::VerifyKey,
    transactions::{BlockItem, EncodedPayload},
    updates::{
        find_authorized_keys, update, AccessStructure, AuthorizationsV0, AuthorizationsV1, BakerParameters, CooldownParameters,
        FinalizationCommitteeParameters, GASRewards, HigherLevelAccessStructure, Level1Update, ProtocolUpdate, RootKeysKind, RootUpdate,
        TransactionFeeDistribution, UpdateInstruction, UpdatePayload, ValidatorScoreParameters,
    },
};
use std::collections::{BTreeMap, BTreeSet};
use vcore::{gen, vensure, CheckResult, Ctx, Unstructured};

fn pk_of(kp: &UpdateKeyPair) -> [u8; 32] {
    match UpdatePublicKey::from(kp).public {
        VerifyKey::Ed25519VerifyKey(k) => k.to_bytes(),
    }
}

fn frac(u: &mut Unstructured) -> AmountFraction { AmountFraction::new(gen::range_u64(u, 0, 100_000) as u32).unwrap() }

fn gen_payload(u: &mut Unstructured, keys: &[UpdatePublicKey], auth: &AuthorizationsV0) -> (UpdatePayload, &'static str) {
    match gen::idx(u, 16) {
        0 => (UpdatePayload::ElectionDifficulty(ElectionDifficulty::new(gen::range_u64(u, 0, 100_000) as u32).unwrap()), "election-difficulty"),
        1 => (
            UpdatePayload::Protocol(ProtocolUpdate {
                message: String::from_utf8(gen::short_bytes(u, 20).iter().map(|b| b'a' + b % 26).collect()).unwrap(),
                specification_url: String::from_utf8(gen::short_bytes(u, 20).iter().map(|b| b'a' + b % 26).collect()).unwrap(),
                specification_hash: hashes::Hash::new(gen::array::<32>(u)),
                specification_auxiliary_data: gen::short_bytes(u, 64),
            }),
            "protocol",
        ),
        2 => (UpdatePayload::EuroPerEnergy(ExchangeRate::new_unchecked(gen::boundary_u64(u).max(1), 1)), "euro-per-energy"),
        3 => (UpdatePayload::MicroGTUPerEuro(ExchangeRate::new_unchecked(1, gen::boundary_u64(u).max(1))), "micro-ccd-per-euro"),
        4 => (UpdatePayload::FoundationAccount(AccountAddress(gen::array::<32>(u))), "foundation-account"),
        5 => {
            let b = gen::range_u64(u, 0, 100_000) as u32;
            let g = gen::range_u64(u, 0, (100_000 - b) as u64) as u32;
            (
                UpdatePayload::TransactionFeeDistribution(TransactionFeeDistribution {
                    baker:       AmountFraction::new(b).unwrap(),
                    gas_account: AmountFraction::new(g).unwrap(),
                }),
                "transaction-fee-distribution",
            )
        }
        6 => (
            UpdatePayload::GASRewards(GASRewards { baker: frac(u), finalization_proof: frac(u), account_creation: frac(u), chain_update: frac(u) }),
            "gas-rewards",
        ),
        7 => (
            UpdatePayload::BakerStakeThreshold(BakerParameters { minimum_threshold_for_baking: Amount::from_micro_ccd(gen::boundary_u64(u)) }),
            "baker-stake-threshold",
        ),
        8 => (
            UpdatePayload::CooldownParametersCPV1(CooldownParameters {
                pool_owner_cooldown: DurationSeconds::from(gen::boundary_u64(u)),
                delegator_cooldown:  DurationSeconds::from(gen::boundary_u64(u)),
            }),
            "cooldown-parameters",
        ),
        9 => (UpdatePayload::MinBlockTimeCPV2(Duration::from_millis(gen::boundary_u64(u))), "min-block-time"),
        10 => (UpdatePayload::BlockEnergyLimitCPV2(Energy::from(gen::boundary_u64(u))), "block-energy-limit"),
        11 => (
            UpdatePayload::FinalizationCommitteeParametersCPV2(FinalizationCommitteeParameters {
                min_finalizers: gen::boundary_u32(u),
                max_finalizers: gen::boundary_u32(u),
                finalizers_relative_stake_threshold: PartsPerHundredThousands::new(gen::range_u64(u, 0, 100_000) as u32).unwrap(),
            }),
            "finalization-committee-parameters",
        ),
        12 => (UpdatePayload::ValidatorScoreParametersCPV3(ValidatorScoreParameters { max_missed_rounds: gen::boundary_u64(u) }), "validator-score-parameters"),
        13 => (
            UpdatePayload::Root(RootUpdate::RootKeysUpdate(HigherLevelAccessStructure::<RootKeysKind> {
                keys:      keys.to_vec(),
                threshold: UpdateKeysThreshold::try_from(gen::range_u64(u, 1, keys.len().max(1) as u64) as u16).unwrap(),
                _phantom:  Default::default(),
            })),
            "root-keys",
        ),
        14 => (UpdatePayload::Level1(Level1Update::Level2KeysUpdate(Box::new(auth.clone()))), "level2-keys-v0"),
        _ => {
            let a = auth.emergency.clone();
            (
                UpdatePayload::Root(RootUpdate::Level2KeysUpdateV1(Box::new(AuthorizationsV1 {
                    v0: auth.clone(),
                    cooldown_parameters: a.clone(),
                    time_parameters: a,
                    create_plt: None,
                }))),
                "level2-keys-v1",
            )
        }
    }
}

#[derive(Debug, Clone, Copy, PartialEq, Eq)]
enum Pick {
    Authorised(usize),
    Unauthorised(usize),
    Unknown(usize),
    Duplicate,
}

pub fn t_updates(data: &[u8], ctx: &mut Ctx) -> CheckResult {
    let mut u = Unstructured::new(data);
    let mut rng = gen::rng(&mut u);
    // governance keys (distinct) and some keys the chain does not know
    let nkeys = gen::range_usize(&mut u, 1, 6);
    let known: Vec<UpdateKeyPair> = (0..nkeys).map(|_| UpdateKeyPair::generate(&mut rng)).collect();
    let unknown: Vec<UpdateKeyPair> = (0..2).map(|_| UpdateKeyPair::generate(&mut rng)).collect();
    let keys: Vec<UpdatePublicKey> = known.iter().map(UpdatePublicKey::from).collect();
    // access structure for this update type
    let mut authorised = BTreeSet::new();
    let all = gen::ratio(&mut u, 1, 3);
    for i in 0..nkeys {
        if all || gen::ratio(&mut u, 2, 3) {
            authorised.insert(i);
        }
    }
    let mut authorized_keys: BTreeSet<UpdateKeysIndex> = authorised.iter().map(|i| UpdateKeysIndex { index: *i as u16 }).collect();
    if gen::ratio(&mut u, 1, 6) {
        // an index that refers to no key at all
        authorized_keys.insert(UpdateKeysIndex { index: nkeys as u16 + gen::byte(&mut u) as u16 });
        ctx.class("dangling-authorised-index");
    }
    // the picks
    let npicks = if gen::ratio(&mut u, 1, 10) { 0 } else { gen::range_usize(&mut u, 1, 5) };
    let clean = gen::ratio(&mut u, 1, 3);
    let mut picks: Vec<Pick> = Vec::new();
    let mut actual: Vec<UpdateKeyPair> = Vec::new();
    let mut used: BTreeSet<usize> = BTreeSet::new();
    for _ in 0..npicks {
        let auth_free: Vec<usize> = authorised.iter().copied().filter(|i| !used.contains(i)).collect();
        let unauth: Vec<usize> = (0..nkeys).filter(|i| !authorised.contains(i)).collect();
        let choice = if clean { 0 } else { gen::byte(&mut u) % 6 };
        let p = match choice {
            3 if !unauth.is_empty() => Pick::Unauthorised(unauth[gen::idx(&mut u, unauth.len())]),
            4 => Pick::Unknown(gen::idx(&mut u, unknown.len())),
            5 if !actual.is_empty() => Pick::Duplicate,
            _ if !auth_free.is_empty() => Pick::Authorised(auth_free[gen::idx(&mut u, auth_free.len())]),
            _ => break,
        };
        match p {
            Pick::Authorised(i) => {
                used.insert(i);
                actual.push(known[i].clone());
            }
            Pick::Unauthorised(i) => actual.push(known[i].clone()),
            Pick::Unknown(i) => actual.push(unknown[i].clone()),
            Pick::Duplicate => {
                let j = gen::idx(&mut u, actual.len());
                actual.push(actual[j].clone());
            }
        }
        picks.push(p);
    }
    let threshold_n = match gen::byte(&mut u) % 4 {
        0 => picks.len(),
        1 => picks.len() + 1,
        2 => picks.len().saturating_sub(1),
        _ => gen::range_usize(&mut u, 1, 8),
    }
    .max(1) as u16;
    let access = AccessStructure { authorized_keys: authorized_keys.clone(), threshold: UpdateKeysThreshold::try_from(threshold_n).unwrap() };

    // reference: Some iff every given key is known, authorised, and no key is given twice
    let mut expect: Option<BTreeMap<u16, [u8; 32]>> = Some(BTreeMap::new());
    for kp in &actual {
        let pk = pk_of(kp);
        let pos = known.iter().position(|k| pk_of(k) == pk);
        match (pos, expect.as_mut()) {
            (Some(i), Some(m)) if authorised.contains(&i) && !m.contains_key(&(i as u16)) => {
                m.insert(i as u16, pk);
            }
            _ => expect = None,
        }
    }
    let bad = picks.iter().filter(|p| !matches!(p, Pick::Authorised(_))).count();
    vensure!(expect.is_some() == (bad == 0), "harness-self-check", "picks {picks:?} but reference says {:?}", expect.is_some());
    ctx.class(if expect.is_some() { "keys-accepted" } else { "keys-rejected" });
    for p in &picks {
        match p {
            Pick::Unauthorised(_) => ctx.class("pick:unauthorised"),
            Pick::Unknown(_) => ctx.class("pick:unknown"),
            Pick::Duplicate => ctx.class("pick:duplicate"),
            Pick::Authorised(_) => {}
        }
    }
    if bad <= 1 && !picks.is_empty() {
        ctx.class("boundary");
        ctx.nontrivial(&(nkeys, &authorised, format!("{picks:?}"), threshold_n));
    }
    let pretty = || {
        format!(
            "{nkeys} governance keys, authorised indices {:?} threshold {threshold_n}, signing keys {picks:?} -> reference {}",
            authorized_keys.iter().map(|i| i.index).collect::<Vec<_>>(),
            if expect.is_some() { "Some" } else { "None" }
        )
    };
    ctx.sample(pretty);
    ctx.describe(pretty);

    let got = find_authorized_keys(&keys, &access, actual.iter().cloned());
    let got_model: Option<BTreeMap<u16, [u8; 32]>> = got.as_ref().map(|m| m.iter().map(|(i, kp)| (i.index, pk_of(kp))).collect());
    vensure!(
        got_model == expect,
        if expect.is_some() { "authorised-keys-rejected" } else { "unauthorised-keys-accepted" },
        "find_authorized_keys returned {:?}, reference {:?}",
        got_model.as_ref().map(|m| m.keys().collect::<Vec<_>>()),
        expect.as_ref().map(|m| m.keys().collect::<Vec<_>>())
    );
    // the same through the two authorisation records
    let auth0 = AuthorizationsV0 {
        keys: keys.clone(),
        emergency: access.clone(),
        protocol: access.clone(),
        election_difficulty: access.clone(),
        euro_per_energy: access.clone(),
        micro_gtu_per_euro: access.clone(),
        foundation_account: access.clone(),
        mint_distribution: access.clone(),
        transaction_fee_distribution: access.clone(),
        param_gas_rewards: access.clone(),
        pool_parameters: access.clone(),
        add_anonymity_revoker: access.clone(),
        add_identity_provider: access.clone(),
    };
    let g0 = auth0.construct_update_signer(&auth0.protocol, actual.iter().cloned());
    vensure!(
        g0.as_ref().map(|m| m.keys().map(|i| i.index).collect::<Vec<_>>()) == expect.as_ref().map(|m| m.keys().copied().collect::<Vec<_>>()),
        "construct-update-signer-v0",
        "AuthorizationsV0::construct_update_signer disagrees with the reference"
    );
    let auth1 = AuthorizationsV1 { v0: auth0.clone(), cooldown_parameters: access.clone(), time_parameters: access.clone(), create_plt: Some(access.clone()) };
    let g1 = auth1.construct_update_signer(&auth1.cooldown_parameters, actual.iter().cloned());
    vensure!(
        g1.as_ref().map(|m| m.keys().map(|i| i.index).collect::<Vec<_>>()) == expect.as_ref().map(|m| m.keys().copied().collect::<Vec<_>>()),
        "construct-update-signer-v1",
        "AuthorizationsV1::construct_update_signer disagrees with the reference"
    );

    // access structure decoding enforces threshold <= number of authorised keys
    let ser = to_bytes(&access);
    let back = from_bytes::<AccessStructure, _>(&mut std::io::Cursor::new(&ser));
    let fits = threshold_n as usize <= authorized_keys.len();
    vensure!(
        back.is_ok() == fits,
        "access-structure-threshold",
        "AccessStructure with {} keys and threshold {threshold_n}: decoding {}",
        authorized_keys.len(),
        if back.is_ok() { "succeeded" } else { "failed" }
    );
    ctx.class(if fits { "threshold-fits" } else { "threshold-too-large" });

    // ---- signing ----
    // sign with whatever mapping we have: the accepted signer, or (if rejected) an explicit list
    let seq = gen::boundary_u64(&mut u);
    let eff = gen::boundary_u64(&mut u);
    let timeout = gen::boundary_u64(&mut u);
    let (payload, pkind) = gen_payload(&mut u, &keys, &auth0);
    ctx.class(&format!("payload:{pkind}"));
    let pbytes = to_bytes(&payload);
    let (ui, signer_pks): (UpdateInstruction, BTreeMap<u16, [u8; 32]>) = match &got {
        Some(signer) => {
            ctx.class("signer:authorised-map");
            (
                update::update(signer, UpdateSequenceNumber::from(seq), TransactionTime::from_seconds(eff), TransactionTime::from_seconds(timeout), payload.clone()),
                signer.iter().map(|(i, kp)| (i.index, pk_of(kp))).collect(),
            )
        }
        None => {
            ctx.class("signer:explicit-list");
            // distinct arbitrary indices paired with the given keys
            let mut idxs = BTreeSet::new();
            let list: Vec<(UpdateKeysIndex, UpdateKeyPair)> = actual
                .iter()
                .map(|kp| {
                    let mut i = gen::u16v(&mut u);
                    while idxs.contains(&i) {
                        i = i.wrapping_add(1);
                    }
                    idxs.insert(i);
                    (UpdateKeysIndex { index: i }, kp.clone())
                })
                .collect();
            (
                update::update(&list[..], UpdateSequenceNumber::from(seq), TransactionTime::from_seconds(eff), TransactionTime::from_seconds(timeout), payload.clone()),
                list.iter().map(|(i, kp)| (i.index, pk_of(kp))).collect(),
            )
        }
    };
    vensure!(
        ui.header.seq_number.number == seq && ui.header.effective_time.seconds == eff && ui.header.timeout.seconds == timeout,
        "update-header-fields",
        "update(): sequence number / effective time / timeout not passed through"
    );
    vensure!(ui.payload.as_ref() == pbytes.as_slice(), "update-payload", "update(): encoded payload differs from the payload's serialisation");
    vensure!(
        u32::from(ui.header.payload_size) as usize == pbytes.len(),
        "update-payload-size",
        "update(): header.payload_size {} but the payload has {} bytes",
        u32::from(ui.header.payload_size),
        pbytes.len()
    );
    let mut hser = Vec::new();
    hser.extend_from_slice(&seq.to_be_bytes());
    hser.extend_from_slice(&eff.to_be_bytes());
    hser.extend_from_slice(&timeout.to_be_bytes());
    hser.extend_from_slice(&(pbytes.len() as u32).to_be_bytes());
    let digest = sha256(&[&hser, &pbytes]);
    let got_idx: Vec<u16> = ui.signatures.signatures.keys().map(|i| i.index).collect();
    vensure!(
        got_idx == signer_pks.keys().copied().collect::<Vec<_>>(),
        "update-signature-indices",
        "update(): signatures under indices {got_idx:?}, signer has {:?}",
        signer_pks.keys().collect::<Vec<_>>()
    );
    for (i, sig) in &ui.signatures.signatures {
        let pk = signer_pks[&i.index];
        vensure!(
            ed_valid(&pk, &digest, &sig.sig),
            "update-signature-invalid",
            "update(): the signature under index {} does not verify under that key over SHA256(header||payload)",
            i.index
        );
    }
    // The instruction is authorised (by the threshold policy) iff the accepted signer has at least
    // `threshold` keys; evaluate the policy on the produced instruction with the chain's key list.
    if let Some(m) = &expect {
        let authorised_now = ui.signatures.signatures.len() >= threshold_n as usize
            && ui.signatures.signatures.iter().all(|(i, sig)| {
                authorized_keys.contains(i)
                    && keys.get(i.index as usize).map(|k| match &k.public {
                        VerifyKey::Ed25519VerifyKey(vk) => ed_valid(&vk.to_bytes(), &digest, &sig.sig),
                    }) == Some(true)
            });
        vensure!(
            authorised_now == (m.len() >= threshold_n as usize),
            "update-policy",
            "an instruction signed by {} accepted keys with threshold {threshold_n} evaluates to authorised={authorised_now}",
            m.len()
        );
        ctx.class(if authorised_now { "instruction-authorised" } else { "instruction-below-threshold" });
    }
    // block item
    let mut ser = vec![2u8];
    ser.extend_from_slice(&hser);
    ser.extend_from_slice(&pbytes);
    ser.extend_from_slice(&(ui.signatures.signatures.len() as u16).to_be_bytes());
    for (i, sig) in &ui.signatures.signatures {
        ser.extend_from_slice(&i.index.to_be_bytes());
        ser.extend_from_slice(&(sig.sig.len() as u16).to_be_bytes());
        ser.extend_from_slice(&sig.sig);
    }
    let bi: BlockItem<EncodedPayload> = BlockItem::UpdateInstruction(ui.clone());
    let crate_ser = to_bytes(&bi);
    vensure!(crate_ser == ser, "update-block-item-serialization", "update block item serialises to {} but the documented layout gives {}", short(&crate_ser), short(&ser));
    let h = bi.hash();
    vensure!(h.as_ref() == sha256(&[&ser]), "update-block-item-hash", "BlockItem::hash of an update instruction is not SHA256 of its serialisation");
    if !ui.signatures.signatures.is_empty() {
        match from_bytes::<BlockItem<EncodedPayload>, _>(&mut std::io::Cursor::new(&ser)) {
            Ok(back) => vensure!(back.hash() == h, "update-reparse-hash", "re-parsed update instruction hashes differently"),
            Err(e) => vcore::vfail!("update-reparse", "serialised update instruction does not parse: {e}"),
        }
    }
    Ok(())
}
