//! C06: transaction and update authorisation is exactly the threshold policy.
//!
//! Five targets (see NOTES.md): `policy`, `policy_v1` (reference predicate vs. the verification
//! functions, both directions, concentrated at the accept/reject boundary), `sign_meta` (signers,
//! digests, block-item hash, bit-flip metamorphic checks), `builders` (`construct::*`/`send::*`
//! payload size, energy, digests, v1 extension and sponsoring), `updates` (update instructions).
pub mod builders;
pub mod common;
pub mod payloads;
pub mod policy;
pub mod signmeta;
pub mod updates;

use vcore::{Property, Target};

pub fn property() -> Property {
    Property {
        id: "C06",
        rule: "policy / policy_v1: an access structure of 1-5 (v1: 1-3 per party) credentials at arbitrary credential indices with \
               1-5 (1-3) ed25519 keys each at arbitrary key indices; signers are a subset of credentials x subset of keys over the \
               independently computed digest of a generated header and payload; thresholds are set relative to what is supplied \
               (tight = exactly met, slack, or free over 1..=255 incl. larger than the number of keys), then 0-3 defects are injected \
               (account one short, credential one short, unknown credential index, unknown key index, valid signature by the wrong \
               key, corrupted/truncated/extended signature, signature over another digest, empty inner map). A case is non-trivial \
               when it is within one element of the accept/reject boundary: accepted with some threshold met exactly, or rejected \
               for exactly one reason (v1: in one party while the other party accepts). Distinct = distinct (access structure, \
               signature map). sign_meta: payload kind x header x signer (AccountKeys / key maps) x v0/v1; non-trivial when the \
               honestly signed transaction verifies and every perturbation (header bit, payload bit, signature bit, key \
               replaced/removed, sponsor toggled, v1-vs-v0) was executed. builders: payload kind x arguments x num_sigs x mode \
               (sign, send, extend to v1 + sponsor, make_transaction); every case is non-trivial, distinct by (kind, payload bytes, \
               num_sigs, nonce, expiry). updates: 1-6 governance keys, an access structure over their indices, 0-5 signing keys of \
               which each may be unauthorised, unknown or a duplicate; non-trivial when at most one signing key is bad.",
        assumptions: &[
            "ed25519 signing/verification (ed25519-dalek) and SHA-256 (sha2) are trusted primitives; 'valid signature' means ed25519_dalek::Verifier::verify accepts",
            "public keys are derived from generated 32-byte seeds, so no small-order or otherwise malformed keys occur",
            "the list of governance keys given to find_authorized_keys contains no duplicate public keys",
            "schedules have at most 255 releases, memos/registered data at most 256 bytes, contract-execution energy below 2^63 (documented limits; beyond them the builders truncate or overflow)",
            "for the sponsored (v1) format the verification functions are modelled as documented in the code: the sponsor's policy is required exactly when a sponsor signature is supplied; they do not look at the header's sponsor field (NOTES.md, observation 1)",
            "payload bytes of kinds without a hand-written encoder (token update, credential updates, baker keys, encrypted transfers) and of update payloads are taken from the crate's own serialisation (covered by C05)",
            "there is no verification function for update instructions in this repository; the update policy is evaluated by the check's own reference on the instructions the crate produces",
        ],
        targets: vec![
            Target::new("policy", policy::t_policy)
                .len(16, 640)
                .cases(200_000, 8_000_000)
                .floors(&[("boundary", 0.30), ("ref-accept", 0.15), ("reject-one-defect", 0.10)]),
            Target::new("policy_v1", policy::t_policy_v1)
                .len(16, 768)
                .cases(120_000, 5_000_000)
                .floors(&[("boundary", 0.30), ("v1-accept", 0.10), ("sender-ok-sponsor-bad", 0.03)]),
            Target::new("sign_meta", signmeta::t_sign_meta).len(16, 1024).cases(120_000, 5_000_000).floors(&[("sufficient-signers", 0.30)]),
            Target::new("builders", builders::t_builders).len(16, 1024).cases(120_000, 5_000_000).floors(&[("signed-verifies", 0.20)]),
            Target::new("updates", updates::t_updates).len(8, 384).cases(120_000, 5_000_000).floors(&[("keys-rejected", 0.08), ("keys-accepted", 0.20)]),
        ],
    }
}
