//! Payload kinds: generated arguments, the corresponding `Payload` value, a hand-written encoding
//! where the format is simple, the documented transaction-specific energy, and the calls of the
//! `construct::*` / `send::*` builders with the same arguments.
#![allow(deprecated)]
use crate::common::Rng;
use concordium_base::{
    base::{AmountFraction, BakerId, BakerKeyPairs, CredentialRegistrationID, DelegationTarget, Energy, Nonce, OpenStatus, UrlText},
    common::types::{Amount, KeyIndex, Timestamp, TransactionTime},
    constants::EncryptedAmountsCurve,
    contracts_common::{
        AccountAddress, AccountThreshold, ContractAddress, ModuleReference, OwnedContractName, OwnedParameter, OwnedReceiveName,
        SignatureThreshold,
    },
    curve_arithmetic::Curve,
    elgamal::{PublicKey, SecretKey},
    encrypted_transfers::{
        encrypt_amount, make_sec_to_pub_transfer_data, make_transfer_data,
        types::{AggregatedDecryptedAmount, EncryptedAmountTransferData, SecToPubAmountTransferData},
    },
    id::{
        constants::ArCurve,
        types::{CredentialPublicKeys, GlobalContext, VerifyKey},
    },
    protocol_level_tokens::{operations, TokenAmount, TokenId, TokenOperation, TokenOperations},
    smart_contracts::{ModuleSource, WasmModule, WasmVersion},
    transactions::{
        construct::{self, PreAccountTransaction},
        cost, send, AccountTransaction, AddBakerPayload, BakerAddKeysPayload, BakerUpdateKeysPayload, ConfigureBakerKeysPayload,
        ConfigureBakerPayload, ConfigureDelegationPayload, EncodedPayload, ExactSizeTransactionSigner, InitContractPayload, Memo, Payload,
        RegisteredData, UpdateContractPayload,
    },
};
use rand::SeedableRng;
use std::sync::OnceLock;
use vcore::{gen, Unstructured};

/// Expensive, content-irrelevant payload parts, built once from fixed seeds (deterministic).
pub struct Fixtures {
    pub add_keys:       BakerAddKeysPayload,
    pub update_keys:    BakerUpdateKeysPayload,
    pub configure_keys: ConfigureBakerKeysPayload,
    pub enc_transfer:   EncryptedAmountTransferData<EncryptedAmountsCurve>,
    pub sec_to_pub:     SecToPubAmountTransferData<EncryptedAmountsCurve>,
    pub cred_ids:       Vec<CredentialRegistrationID>,
}

pub fn fixtures() -> &'static Fixtures {
    static F: OnceLock<Fixtures> = OnceLock::new();
    F.get_or_init(|| {
        let mut rng = Rng::seed_from_u64(0xC06);
        let sender = AccountAddress([7u8; 32]);
        let bk = BakerKeyPairs::generate(&mut rng);
        let add_keys = BakerAddKeysPayload::new(&bk, sender, &mut rng);
        let update_keys = BakerUpdateKeysPayload::new(&bk, sender, &mut rng);
        let configure_keys = ConfigureBakerKeysPayload::new(&bk, sender, &mut rng);
        let ctx = GlobalContext::<ArCurve>::generate_size(String::from("c06"), 64);
        let sk_sender: SecretKey<ArCurve> = SecretKey::generate(ctx.elgamal_generator(), &mut rng);
        let pk_sender = PublicKey::from(&sk_sender);
        let sk_receiver: SecretKey<ArCurve> = SecretKey::generate(ctx.elgamal_generator(), &mut rng);
        let pk_receiver = PublicKey::from(&sk_receiver);
        let s = 1_000_000u64;
        let enc = encrypt_amount(&ctx, &pk_sender, Amount::from_micro_ccd(s), &mut rng);
        let input = AggregatedDecryptedAmount {
            agg_amount:           Amount::from_micro_ccd(s),
            agg_encrypted_amount: enc.0.clone(),
            agg_index:            3u64.into(),
        };
        let enc_transfer =
            make_transfer_data(&ctx, &pk_receiver, &sk_sender, &input, Amount::from_micro_ccd(1234), &mut rng).expect("transfer data");
        let sec_to_pub = make_sec_to_pub_transfer_data(&ctx, &sk_sender, &input, Amount::from_micro_ccd(77), &mut rng).expect("sec to pub data");
        let cred_ids = (0..4).map(|_| CredentialRegistrationID::new(ArCurve::generate(&mut rng))).collect();
        Fixtures { add_keys, update_keys, configure_keys, enc_transfer, sec_to_pub, cred_ids }
    })
}

#[derive(Debug, Clone)]
pub enum TokOp {
    Transfer([u8; 32], u64, u8),
    Mint(u64, u8),
    Burn(u64, u8),
    AddAllow([u8; 32]),
    RemoveAllow([u8; 32]),
    AddDeny([u8; 32]),
    RemoveDeny([u8; 32]),
    Pause,
    Unpause,
}

impl TokOp {
    fn op(&self) -> TokenOperation {
        match self {
            TokOp::Transfer(a, v, d) => operations::transfer_tokens(AccountAddress(*a), TokenAmount::from_raw(*v, *d)),
            TokOp::Mint(v, d) => operations::mint_tokens(TokenAmount::from_raw(*v, *d)),
            TokOp::Burn(v, d) => operations::burn_tokens(TokenAmount::from_raw(*v, *d)),
            TokOp::AddAllow(a) => operations::add_token_allow_list(AccountAddress(*a)),
            TokOp::RemoveAllow(a) => operations::remove_token_allow_list(AccountAddress(*a)),
            TokOp::AddDeny(a) => operations::add_token_deny_list(AccountAddress(*a)),
            TokOp::RemoveDeny(a) => operations::remove_token_deny_list(AccountAddress(*a)),
            TokOp::Pause => operations::pause(),
            TokOp::Unpause => operations::unpause(),
        }
    }

    /// Documented additional cost per operation kind.
    fn energy(&self) -> u64 {
        match self {
            TokOp::Transfer(..) => cost::PLT_TRANSFER.energy,
            TokOp::Mint(..) => cost::PLT_MINT.energy,
            TokOp::Burn(..) => cost::PLT_BURN.energy,
            TokOp::AddAllow(_) | TokOp::RemoveAllow(_) | TokOp::AddDeny(_) | TokOp::RemoveDeny(_) => cost::PLT_LIST_UPDATE.energy,
            TokOp::Pause | TokOp::Unpause => cost::PLT_PAUSE.energy,
        }
    }
}

#[derive(Debug, Clone)]
pub enum PArgs {
    Transfer { to: [u8; 32], amount: u64 },
    TransferWithMemo { to: [u8; 32], amount: u64, memo: Vec<u8> },
    RegisterData { data: Vec<u8> },
    RemoveBaker,
    UpdateBakerStake { stake: u64 },
    UpdateBakerRestake { restake: bool },
    TransferToEncrypted { amount: u64 },
    TransferWithSchedule { to: [u8; 32], schedule: Vec<(u64, u64)> },
    TransferWithScheduleAndMemo { to: [u8; 32], memo: Vec<u8>, schedule: Vec<(u64, u64)> },
    InitContract { amount: u64, modref: [u8; 32], name: String, param: Vec<u8>, energy: u64 },
    Update { amount: u64, index: u64, subindex: u64, name: String, param: Vec<u8>, energy: u64 },
    DeployModule { version: u8, source: Vec<u8> },
    ConfigureDelegation { capital: Option<u64>, restake: Option<bool>, target: Option<Option<u64>> },
    ConfigureBaker {
        capital: Option<u64>,
        restake: Option<bool>,
        open:    Option<u8>,
        keys:    bool,
        url:     Option<String>,
        tfc:     Option<u32>,
        brc:     Option<u32>,
        frc:     Option<u32>,
        suspend: Option<bool>,
    },
    TokenUpdate { token_id: String, ops: Vec<TokOp> },
    UpdateCredentialKeys { n_existing: u16, cred: usize, keys: Vec<(u8, [u8; 32])>, threshold: u8 },
    UpdateCredentials { n_existing: u16, remove: Vec<usize>, threshold: u8 },
    EncryptedTransfer { to: [u8; 32], memo: Option<Vec<u8>> },
    TransferToPublic,
    AddBaker { stake: u64, restake: bool },
    UpdateBakerKeys,
}

pub const KINDS: usize = 21;

fn name_chars(u: &mut Unstructured, n: usize) -> String {
    const CH: &[u8] = b"abcXYZ019_-!~";
    (0..n).map(|_| CH[gen::idx(u, CH.len())] as char).collect()
}

fn schedule(u: &mut Unstructured) -> Vec<(u64, u64)> {
    let n = match gen::byte(u) % 8 {
        0 => 0,
        1 => 1,
        2 => 255,
        _ => gen::range_usize(u, 0, 12),
    };
    (0..n).map(|i| (gen::boundary_u64(u).wrapping_add(i as u64), gen::boundary_u64(u))).collect()
}

fn opt<T>(u: &mut Unstructured, f: impl FnOnce(&mut Unstructured) -> T) -> Option<T> {
    if gen::boolean(u) {
        Some(f(u))
    } else {
        None
    }
}

impl PArgs {
    /// `heavy` allows the kinds that carry fixture proofs (large payloads, slower hashing).
    pub fn gen(u: &mut Unstructured, rng: &mut Rng, heavy: bool) -> PArgs {
        let k = gen::idx(u, if heavy { KINDS } else { 17 });
        match k {
            0 => PArgs::Transfer { to: gen::array(u), amount: gen::boundary_u64(u) },
            1 => PArgs::TransferWithMemo { to: gen::array(u), amount: gen::boundary_u64(u), memo: gen::short_bytes(u, 256) },
            2 => PArgs::RegisterData { data: gen::short_bytes(u, 256) },
            3 => PArgs::RemoveBaker,
            4 => PArgs::UpdateBakerStake { stake: gen::boundary_u64(u) },
            5 => PArgs::UpdateBakerRestake { restake: gen::boolean(u) },
            6 => PArgs::TransferToEncrypted { amount: gen::boundary_u64(u) },
            7 => PArgs::TransferWithSchedule { to: gen::array(u), schedule: schedule(u) },
            8 => PArgs::TransferWithScheduleAndMemo { to: gen::array(u), memo: gen::short_bytes(u, 256), schedule: schedule(u) },
            9 => {
                let n = gen::range_usize(u, 0, 20);
                PArgs::InitContract {
                    amount: gen::boundary_u64(u),
                    modref: gen::array(u),
                    name:   format!("init_{}", name_chars(u, n)),
                    param:  gen::short_bytes(u, 300),
                    energy: gen::boundary_u64(u) >> 1,
                }
            }
            10 => {
                let n = gen::range_usize(u, 0, 12);
                let m = gen::range_usize(u, 0, 12);
                PArgs::Update {
                    amount:   gen::boundary_u64(u),
                    index:    gen::boundary_u64(u),
                    subindex: gen::boundary_u64(u),
                    name:     format!("{}.{}", name_chars(u, n), name_chars(u, m)),
                    param:    gen::short_bytes(u, 300),
                    energy:   gen::boundary_u64(u) >> 1,
                }
            }
            11 => PArgs::DeployModule { version: gen::byte(u) % 2, source: gen::short_bytes(u, 400) },
            12 => PArgs::ConfigureDelegation {
                capital: opt(u, gen::boundary_u64),
                restake: opt(u, gen::boolean),
                target:  opt(u, |u| opt(u, gen::boundary_u64)),
            },
            13 => PArgs::ConfigureBaker {
                capital: opt(u, gen::boundary_u64),
                restake: opt(u, gen::boolean),
                open:    opt(u, |u| gen::byte(u) % 3),
                keys:    heavy && gen::ratio(u, 1, 4),
                url:     opt(u, |u| {
                    let n = gen::range_usize(u, 0, 40);
                    name_chars(u, n)
                }),
                tfc:     opt(u, |u| gen::range_u64(u, 0, 100_000) as u32),
                brc:     opt(u, |u| gen::range_u64(u, 0, 100_000) as u32),
                frc:     opt(u, |u| gen::range_u64(u, 0, 100_000) as u32),
                suspend: opt(u, gen::boolean),
            },
            14 => {
                let n = gen::range_usize(u, 1, 12);
                let nops = gen::range_usize(u, 0, 6);
                let ops = (0..nops)
                    .map(|_| match gen::byte(u) % 9 {
                        0 => TokOp::Transfer(gen::array(u), gen::boundary_u64(u), gen::byte(u)),
                        1 => TokOp::Mint(gen::boundary_u64(u), gen::byte(u)),
                        2 => TokOp::Burn(gen::boundary_u64(u), gen::byte(u)),
                        3 => TokOp::AddAllow(gen::array(u)),
                        4 => TokOp::RemoveAllow(gen::array(u)),
                        5 => TokOp::AddDeny(gen::array(u)),
                        6 => TokOp::RemoveDeny(gen::array(u)),
                        7 => TokOp::Pause,
                        _ => TokOp::Unpause,
                    })
                    .collect();
                const CH: &[u8] = b"abzAZ09-.%";
                PArgs::TokenUpdate { token_id: (0..n).map(|_| CH[gen::idx(u, CH.len())] as char).collect(), ops }
            }
            15 => {
                let nk = gen::range_usize(u, 1, 4);
                let mut keys = Vec::new();
                let mut used = std::collections::BTreeSet::new();
                for _ in 0..nk {
                    let ki = crate::common::fresh_index(u, &used);
                    used.insert(ki);
                    keys.push((ki, crate::common::pk_bytes(&crate::common::new_key(rng))));
                }
                PArgs::UpdateCredentialKeys {
                    n_existing: gen::boundary_u32(u) as u16,
                    cred: gen::idx(u, 4),
                    keys,
                    threshold: gen::range_u64(u, 1, 255) as u8,
                }
            }
            16 => PArgs::UpdateCredentials {
                n_existing: gen::boundary_u32(u) as u16,
                remove:     (0..gen::range_usize(u, 0, 4)).map(|_| gen::idx(u, 4)).collect(),
                threshold:  gen::range_u64(u, 1, 255) as u8,
            },
            17 => PArgs::EncryptedTransfer { to: gen::array(u), memo: opt(u, |u| gen::short_bytes(u, 256)) },
            18 => PArgs::TransferToPublic,
            19 => PArgs::AddBaker { stake: gen::boundary_u64(u), restake: gen::boolean(u) },
            _ => PArgs::UpdateBakerKeys,
        }
    }

    pub fn kind(&self) -> &'static str {
        match self {
            PArgs::Transfer { .. } => "transfer",
            PArgs::TransferWithMemo { .. } => "transfer_with_memo",
            PArgs::RegisterData { .. } => "register_data",
            PArgs::RemoveBaker => "remove_baker",
            PArgs::UpdateBakerStake { .. } => "update_baker_stake",
            PArgs::UpdateBakerRestake { .. } => "update_baker_restake_earnings",
            PArgs::TransferToEncrypted { .. } => "transfer_to_encrypted",
            PArgs::TransferWithSchedule { .. } => "transfer_with_schedule",
            PArgs::TransferWithScheduleAndMemo { .. } => "transfer_with_schedule_and_memo",
            PArgs::InitContract { .. } => "init_contract",
            PArgs::Update { .. } => "update_contract",
            PArgs::DeployModule { .. } => "deploy_module",
            PArgs::ConfigureDelegation { .. } => "configure_delegation",
            PArgs::ConfigureBaker { keys: false, .. } => "configure_baker",
            PArgs::ConfigureBaker { keys: true, .. } => "configure_baker_with_keys",
            PArgs::TokenUpdate { .. } => "token_update_operations",
            PArgs::UpdateCredentialKeys { .. } => "update_credential_keys",
            PArgs::UpdateCredentials { .. } => "update_credentials",
            PArgs::EncryptedTransfer { memo: None, .. } => "encrypted_transfer",
            PArgs::EncryptedTransfer { memo: Some(_), .. } => "encrypted_transfer_with_memo",
            PArgs::TransferToPublic => "transfer_to_public",
            PArgs::AddBaker { .. } => "add_baker",
            PArgs::UpdateBakerKeys => "update_baker_keys",
        }
    }

    fn memo(m: &[u8]) -> Memo { Memo::try_from(m.to_vec()).expect("memo within limit") }

    fn sched(s: &[(u64, u64)]) -> Vec<(Timestamp, Amount)> {
        s.iter().map(|(t, a)| (Timestamp::from_timestamp_millis(*t), Amount::from_micro_ccd(*a))).collect()
    }

    fn init_payload(&self) -> InitContractPayload {
        let PArgs::InitContract { amount, modref, name, param, .. } = self else { unreachable!() };
        InitContractPayload {
            amount:    Amount::from_micro_ccd(*amount),
            mod_ref:   ModuleReference::from(*modref),
            init_name: OwnedContractName::new(name.clone()).expect("valid contract name"),
            param:     OwnedParameter::new_unchecked(param.clone()),
        }
    }

    fn update_payload(&self) -> UpdateContractPayload {
        let PArgs::Update { amount, index, subindex, name, param, .. } = self else { unreachable!() };
        UpdateContractPayload {
            amount:       Amount::from_micro_ccd(*amount),
            address:      ContractAddress::new(*index, *subindex),
            receive_name: OwnedReceiveName::new(name.clone()).expect("valid receive name"),
            message:      OwnedParameter::new_unchecked(param.clone()),
        }
    }

    fn module(&self) -> WasmModule {
        let PArgs::DeployModule { version, source } = self else { unreachable!() };
        WasmModule { version: if *version == 0 { WasmVersion::V0 } else { WasmVersion::V1 }, source: ModuleSource::from(source.clone()) }
    }

    fn delegation(&self) -> ConfigureDelegationPayload {
        let PArgs::ConfigureDelegation { capital, restake, target } = self else { unreachable!() };
        ConfigureDelegationPayload {
            capital:           capital.map(Amount::from_micro_ccd),
            restake_earnings:  *restake,
            delegation_target: target.map(|t| match t {
                None => DelegationTarget::Passive,
                Some(id) => DelegationTarget::Baker { baker_id: BakerId { id: id.into() } },
            }),
        }
    }

    fn baker(&self) -> ConfigureBakerPayload {
        let PArgs::ConfigureBaker { capital, restake, open, keys, url, tfc, brc, frc, suspend } = self else { unreachable!() };
        ConfigureBakerPayload {
            capital: capital.map(Amount::from_micro_ccd),
            restake_earnings: *restake,
            open_for_delegation: open.map(|o| match o {
                0 => OpenStatus::OpenForAll,
                1 => OpenStatus::ClosedForNew,
                _ => OpenStatus::ClosedForAll,
            }),
            keys_with_proofs: if *keys { Some(fixtures().configure_keys.clone()) } else { None },
            metadata_url: url.clone().map(|s| UrlText::try_from(s).expect("url within limit")),
            transaction_fee_commission: tfc.map(|p| AmountFraction::new(p).expect("<= 100000")),
            baking_reward_commission: brc.map(|p| AmountFraction::new(p).expect("<= 100000")),
            finalization_reward_commission: frc.map(|p| AmountFraction::new(p).expect("<= 100000")),
            suspend: *suspend,
        }
    }

    fn token(&self) -> (TokenId, TokenOperations) {
        let PArgs::TokenUpdate { token_id, ops } = self else { unreachable!() };
        (TokenId::try_from(token_id.clone()).expect("valid token id"), ops.iter().map(|o| o.op()).collect())
    }

    fn cred_keys(&self) -> (CredentialRegistrationID, CredentialPublicKeys) {
        let PArgs::UpdateCredentialKeys { cred, keys, threshold, .. } = self else { unreachable!() };
        (fixtures().cred_ids[*cred], CredentialPublicKeys {
            keys:      keys.iter().map(|(ki, pk)| (KeyIndex(*ki), VerifyKey::Ed25519VerifyKey(crate::common::vk(pk)))).collect(),
            threshold: SignatureThreshold::try_from(*threshold).unwrap(),
        })
    }

    /// The payload value these arguments describe (constructed directly, not through a builder).
    pub fn payload(&self) -> Payload {
        match self {
            PArgs::Transfer { to, amount } => Payload::Transfer { to_address: AccountAddress(*to), amount: Amount::from_micro_ccd(*amount) },
            PArgs::TransferWithMemo { to, amount, memo } => {
                Payload::TransferWithMemo { to_address: AccountAddress(*to), memo: Self::memo(memo), amount: Amount::from_micro_ccd(*amount) }
            }
            PArgs::RegisterData { data } => Payload::RegisterData { data: RegisteredData::try_from(data.clone()).expect("within limit") },
            PArgs::RemoveBaker => Payload::RemoveBaker,
            PArgs::UpdateBakerStake { stake } => Payload::UpdateBakerStake { stake: Amount::from_micro_ccd(*stake) },
            PArgs::UpdateBakerRestake { restake } => Payload::UpdateBakerRestakeEarnings { restake_earnings: *restake },
            PArgs::TransferToEncrypted { amount } => Payload::TransferToEncrypted { amount: Amount::from_micro_ccd(*amount) },
            PArgs::TransferWithSchedule { to, schedule } => Payload::TransferWithSchedule { to: AccountAddress(*to), schedule: Self::sched(schedule) },
            PArgs::TransferWithScheduleAndMemo { to, memo, schedule } => {
                Payload::TransferWithScheduleAndMemo { to: AccountAddress(*to), memo: Self::memo(memo), schedule: Self::sched(schedule) }
            }
            PArgs::InitContract { .. } => Payload::InitContract { payload: self.init_payload() },
            PArgs::Update { .. } => Payload::Update { payload: self.update_payload() },
            PArgs::DeployModule { .. } => Payload::DeployModule { module: self.module() },
            PArgs::ConfigureDelegation { .. } => Payload::ConfigureDelegation { data: self.delegation() },
            PArgs::ConfigureBaker { .. } => Payload::ConfigureBaker { data: Box::new(self.baker()) },
            PArgs::TokenUpdate { .. } => {
                let (token_id, ops) = self.token();
                let operations = concordium_base::protocol_level_tokens::RawCbor::from(
                    concordium_base::common::cbor::cbor_encode(&ops).expect("token operations encode"),
                );
                Payload::TokenUpdate { payload: concordium_base::protocol_level_tokens::TokenOperationsPayload { token_id, operations } }
            }
            PArgs::UpdateCredentialKeys { .. } => {
                let (cred_id, keys) = self.cred_keys();
                Payload::UpdateCredentialKeys { cred_id, keys }
            }
            PArgs::UpdateCredentials { remove, threshold, .. } => Payload::UpdateCredentials {
                new_cred_infos:  Default::default(),
                remove_cred_ids: remove.iter().map(|i| fixtures().cred_ids[*i]).collect(),
                new_threshold:   AccountThreshold::try_from(*threshold).unwrap(),
            },
            PArgs::EncryptedTransfer { to, memo: None } => {
                Payload::EncryptedAmountTransfer { to: AccountAddress(*to), data: Box::new(fixtures().enc_transfer.clone()) }
            }
            PArgs::EncryptedTransfer { to, memo: Some(m) } => Payload::EncryptedAmountTransferWithMemo {
                to:   AccountAddress(*to),
                memo: Self::memo(m),
                data: Box::new(fixtures().enc_transfer.clone()),
            },
            PArgs::TransferToPublic => Payload::TransferToPublic { data: Box::new(fixtures().sec_to_pub.clone()) },
            PArgs::AddBaker { stake, restake } => Payload::AddBaker {
                payload: Box::new(AddBakerPayload {
                    keys:             fixtures().add_keys.clone(),
                    baking_stake:     Amount::from_micro_ccd(*stake),
                    restake_earnings: *restake,
                }),
            },
            PArgs::UpdateBakerKeys => Payload::UpdateBakerKeys { payload: Box::new(fixtures().update_keys.clone()) },
        }
    }

    /// Hand-written encoding of the payload for the kinds whose format is a few fixed-width fields.
    pub fn hand(&self) -> Option<Vec<u8>> {
        fn sched(o: &mut Vec<u8>, s: &[(u64, u64)]) {
            o.push(s.len() as u8);
            for (t, a) in s {
                o.extend_from_slice(&t.to_be_bytes());
                o.extend_from_slice(&a.to_be_bytes());
            }
        }
        fn bytes16(o: &mut Vec<u8>, b: &[u8]) {
            o.extend_from_slice(&(b.len() as u16).to_be_bytes());
            o.extend_from_slice(b);
        }
        let mut o = Vec::new();
        match self {
            PArgs::Transfer { to, amount } => {
                o.push(3);
                o.extend_from_slice(to);
                o.extend_from_slice(&amount.to_be_bytes());
            }
            PArgs::TransferWithMemo { to, amount, memo } => {
                o.push(22);
                o.extend_from_slice(to);
                bytes16(&mut o, memo);
                o.extend_from_slice(&amount.to_be_bytes());
            }
            PArgs::RegisterData { data } => {
                o.push(21);
                bytes16(&mut o, data);
            }
            PArgs::RemoveBaker => o.push(5),
            PArgs::UpdateBakerStake { stake } => {
                o.push(6);
                o.extend_from_slice(&stake.to_be_bytes());
            }
            PArgs::UpdateBakerRestake { restake } => {
                o.push(7);
                o.push(*restake as u8);
            }
            PArgs::TransferToEncrypted { amount } => {
                o.push(17);
                o.extend_from_slice(&amount.to_be_bytes());
            }
            PArgs::TransferWithSchedule { to, schedule } => {
                o.push(19);
                o.extend_from_slice(to);
                sched(&mut o, schedule);
            }
            PArgs::TransferWithScheduleAndMemo { to, memo, schedule } => {
                o.push(24);
                o.extend_from_slice(to);
                bytes16(&mut o, memo);
                sched(&mut o, schedule);
            }
            PArgs::InitContract { amount, modref, name, param, .. } => {
                o.push(1);
                o.extend_from_slice(&amount.to_be_bytes());
                o.extend_from_slice(modref);
                bytes16(&mut o, name.as_bytes());
                bytes16(&mut o, param);
            }
            PArgs::Update { amount, index, subindex, name, param, .. } => {
                o.push(2);
                o.extend_from_slice(&amount.to_be_bytes());
                o.extend_from_slice(&index.to_be_bytes());
                o.extend_from_slice(&subindex.to_be_bytes());
                bytes16(&mut o, name.as_bytes());
                bytes16(&mut o, param);
            }
            PArgs::DeployModule { version, source } => {
                o.push(0);
                o.extend_from_slice(&(*version as u32).to_be_bytes());
                o.extend_from_slice(&(source.len() as u32).to_be_bytes());
                o.extend_from_slice(source);
            }
            PArgs::ConfigureDelegation { capital, restake, target } => {
                o.push(26);
                let bitmap: u16 = (capital.is_some() as u16) | (restake.is_some() as u16) << 1 | (target.is_some() as u16) << 2;
                o.extend_from_slice(&bitmap.to_be_bytes());
                if let Some(c) = capital {
                    o.extend_from_slice(&c.to_be_bytes());
                }
                if let Some(r) = restake {
                    o.push(*r as u8);
                }
                match target {
                    None => {}
                    Some(None) => o.push(0),
                    Some(Some(id)) => {
                        o.push(1);
                        o.extend_from_slice(&id.to_be_bytes());
                    }
                }
            }
            PArgs::ConfigureBaker { capital, restake, open, keys: false, url, tfc, brc, frc, suspend } => {
                o.push(25);
                let bitmap: u16 = (capital.is_some() as u16)
                    | (restake.is_some() as u16) << 1
                    | (open.is_some() as u16) << 2
                    | (url.is_some() as u16) << 4
                    | (tfc.is_some() as u16) << 5
                    | (brc.is_some() as u16) << 6
                    | (frc.is_some() as u16) << 7
                    | (suspend.is_some() as u16) << 8;
                o.extend_from_slice(&bitmap.to_be_bytes());
                if let Some(c) = capital {
                    o.extend_from_slice(&c.to_be_bytes());
                }
                if let Some(r) = restake {
                    o.push(*r as u8);
                }
                if let Some(x) = open {
                    o.push(*x);
                }
                if let Some(s) = url {
                    bytes16(&mut o, s.as_bytes());
                }
                for f in [tfc, brc, frc].into_iter().flatten() {
                    o.extend_from_slice(&f.to_be_bytes());
                }
                if let Some(s) = suspend {
                    o.push(*s as u8);
                }
            }
            _ => return None,
        }
        Some(o)
    }

    /// The documented transaction-specific energy (on top of the base cost), recomputed from the
    /// documented constants and formulas without calling the helper the builder calls.
    pub fn specific_energy(&self) -> u64 {
        match self {
            PArgs::Transfer { .. } | PArgs::TransferWithMemo { .. } => cost::SIMPLE_TRANSFER.energy,
            PArgs::RegisterData { .. } => cost::REGISTER_DATA.energy,
            PArgs::RemoveBaker => cost::REMOVE_BAKER.energy,
            PArgs::UpdateBakerStake { .. } => cost::UPDATE_BAKER_STAKE.energy,
            PArgs::UpdateBakerRestake { .. } => cost::UPDATE_BAKER_RESTAKE.energy,
            PArgs::TransferToEncrypted { .. } => cost::TRANSFER_TO_ENCRYPTED.energy,
            PArgs::TransferWithSchedule { schedule, .. } | PArgs::TransferWithScheduleAndMemo { schedule, .. } => schedule.len() as u64 * (300 + 64),
            PArgs::InitContract { energy, .. } | PArgs::Update { energy, .. } => *energy,
            PArgs::DeployModule { source, .. } => source.len() as u64 / 10,
            PArgs::ConfigureDelegation { .. } => cost::CONFIGURE_DELEGATION.energy,
            PArgs::ConfigureBaker { keys, .. } => {
                if *keys {
                    cost::CONFIGURE_BAKER_WITH_KEYS.energy
                } else {
                    cost::CONFIGURE_BAKER_WITHOUT_KEYS.energy
                }
            }
            PArgs::TokenUpdate { ops, .. } => cost::PLT_OPERATIONS_TRANSACTIONS.energy + ops.iter().map(|o| o.energy()).sum::<u64>(),
            PArgs::UpdateCredentialKeys { n_existing, keys, .. } => 500 * *n_existing as u64 + 100 * keys.len() as u64,
            PArgs::UpdateCredentials { n_existing, .. } => 500 + 500 * *n_existing as u64,
            PArgs::EncryptedTransfer { .. } => cost::ENCRYPTED_TRANSFER.energy,
            PArgs::TransferToPublic => cost::TRANSFER_TO_PUBLIC.energy,
            PArgs::AddBaker { .. } => cost::ADD_BAKER.energy,
            PArgs::UpdateBakerKeys => cost::UPDATE_BAKER_KEYS.energy,
        }
    }

    pub fn construct(&self, n: u32, sender: AccountAddress, nonce: Nonce, expiry: TransactionTime) -> PreAccountTransaction {
        let amt = Amount::from_micro_ccd;
        match self {
            PArgs::Transfer { to, amount } => construct::transfer(n, sender, nonce, expiry, AccountAddress(*to), amt(*amount)),
            PArgs::TransferWithMemo { to, amount, memo } => {
                construct::transfer_with_memo(n, sender, nonce, expiry, AccountAddress(*to), amt(*amount), Self::memo(memo))
            }
            PArgs::RegisterData { data } => construct::register_data(n, sender, nonce, expiry, RegisteredData::try_from(data.clone()).unwrap()),
            PArgs::RemoveBaker => construct::remove_baker(n, sender, nonce, expiry),
            PArgs::UpdateBakerStake { stake } => construct::update_baker_stake(n, sender, nonce, expiry, amt(*stake)),
            PArgs::UpdateBakerRestake { restake } => construct::update_baker_restake_earnings(n, sender, nonce, expiry, *restake),
            PArgs::TransferToEncrypted { amount } => construct::transfer_to_encrypted(n, sender, nonce, expiry, amt(*amount)),
            PArgs::TransferWithSchedule { to, schedule } => {
                construct::transfer_with_schedule(n, sender, nonce, expiry, AccountAddress(*to), Self::sched(schedule))
            }
            PArgs::TransferWithScheduleAndMemo { to, memo, schedule } => {
                construct::transfer_with_schedule_and_memo(n, sender, nonce, expiry, AccountAddress(*to), Self::sched(schedule), Self::memo(memo))
            }
            PArgs::InitContract { energy, .. } => construct::init_contract(n, sender, nonce, expiry, self.init_payload(), Energy::from(*energy)),
            PArgs::Update { energy, .. } => construct::update_contract(n, sender, nonce, expiry, self.update_payload(), Energy::from(*energy)),
            PArgs::DeployModule { .. } => construct::deploy_module(n, sender, nonce, expiry, self.module()),
            PArgs::ConfigureDelegation { .. } => construct::configure_delegation(n, sender, nonce, expiry, self.delegation()),
            PArgs::ConfigureBaker { .. } => construct::configure_baker(n, sender, nonce, expiry, self.baker()),
            PArgs::TokenUpdate { .. } => {
                let (id, ops) = self.token();
                construct::token_update_operations(n, sender, nonce, expiry, id, ops).expect("token operations encode")
            }
            PArgs::UpdateCredentialKeys { n_existing, .. } => {
                let (cred_id, keys) = self.cred_keys();
                construct::update_credential_keys(n, sender, nonce, expiry, *n_existing, cred_id, keys)
            }
            PArgs::UpdateCredentials { n_existing, remove, threshold } => construct::update_credentials(
                n,
                sender,
                nonce,
                expiry,
                *n_existing,
                Default::default(),
                remove.iter().map(|i| fixtures().cred_ids[*i]).collect(),
                AccountThreshold::try_from(*threshold).unwrap(),
            ),
            PArgs::EncryptedTransfer { to, memo: None } => {
                construct::encrypted_transfer(n, sender, nonce, expiry, AccountAddress(*to), fixtures().enc_transfer.clone())
            }
            PArgs::EncryptedTransfer { to, memo: Some(m) } => {
                construct::encrypted_transfer_with_memo(n, sender, nonce, expiry, AccountAddress(*to), fixtures().enc_transfer.clone(), Self::memo(m))
            }
            PArgs::TransferToPublic => construct::transfer_to_public(n, sender, nonce, expiry, fixtures().sec_to_pub.clone()),
            PArgs::AddBaker { stake, restake } => construct::add_baker(n, sender, nonce, expiry, amt(*stake), *restake, fixtures().add_keys.clone()),
            PArgs::UpdateBakerKeys => construct::update_baker_keys(n, sender, nonce, expiry, fixtures().update_keys.clone()),
        }
    }

    pub fn send(
        &self,
        s: &impl ExactSizeTransactionSigner,
        sender: AccountAddress,
        nonce: Nonce,
        expiry: TransactionTime,
    ) -> AccountTransaction<EncodedPayload> {
        let amt = Amount::from_micro_ccd;
        match self {
            PArgs::Transfer { to, amount } => send::transfer(s, sender, nonce, expiry, AccountAddress(*to), amt(*amount)),
            PArgs::TransferWithMemo { to, amount, memo } => {
                send::transfer_with_memo(s, sender, nonce, expiry, AccountAddress(*to), amt(*amount), Self::memo(memo))
            }
            PArgs::RegisterData { data } => send::register_data(s, sender, nonce, expiry, RegisteredData::try_from(data.clone()).unwrap()),
            PArgs::RemoveBaker => send::remove_baker(s, sender, nonce, expiry),
            PArgs::UpdateBakerStake { stake } => send::update_baker_stake(s, sender, nonce, expiry, amt(*stake)),
            PArgs::UpdateBakerRestake { restake } => send::update_baker_restake_earnings(s, sender, nonce, expiry, *restake),
            PArgs::TransferToEncrypted { amount } => send::transfer_to_encrypted(s, sender, nonce, expiry, amt(*amount)),
            PArgs::TransferWithSchedule { to, schedule } => {
                send::transfer_with_schedule(s, sender, nonce, expiry, AccountAddress(*to), Self::sched(schedule))
            }
            PArgs::TransferWithScheduleAndMemo { to, memo, schedule } => {
                send::transfer_with_schedule_and_memo(s, sender, nonce, expiry, AccountAddress(*to), Self::sched(schedule), Self::memo(memo))
            }
            PArgs::InitContract { energy, .. } => send::init_contract(s, sender, nonce, expiry, self.init_payload(), Energy::from(*energy)),
            PArgs::Update { energy, .. } => send::update_contract(s, sender, nonce, expiry, self.update_payload(), Energy::from(*energy)),
            PArgs::DeployModule { .. } => send::deploy_module(s, sender, nonce, expiry, self.module()),
            PArgs::ConfigureDelegation { .. } => send::configure_delegation(s, sender, nonce, expiry, self.delegation()),
            PArgs::ConfigureBaker { .. } => send::configure_baker(s, sender, nonce, expiry, self.baker()),
            PArgs::TokenUpdate { .. } => {
                let (id, ops) = self.token();
                send::token_update_operations(s, sender, nonce, expiry, id, ops).expect("token operations encode")
            }
            PArgs::UpdateCredentialKeys { n_existing, .. } => {
                let (cred_id, keys) = self.cred_keys();
                send::update_credential_keys(s, sender, nonce, expiry, *n_existing, cred_id, keys)
            }
            PArgs::UpdateCredentials { n_existing, remove, threshold } => send::update_credentials(
                s,
                sender,
                nonce,
                expiry,
                *n_existing,
                Default::default(),
                remove.iter().map(|i| fixtures().cred_ids[*i]).collect(),
                AccountThreshold::try_from(*threshold).unwrap(),
            ),
            PArgs::EncryptedTransfer { to, memo: None } => {
                send::encrypted_transfer(s, sender, nonce, expiry, AccountAddress(*to), fixtures().enc_transfer.clone())
            }
            PArgs::EncryptedTransfer { to, memo: Some(m) } => {
                send::encrypted_transfer_with_memo(s, sender, nonce, expiry, AccountAddress(*to), fixtures().enc_transfer.clone(), Self::memo(m))
            }
            PArgs::TransferToPublic => send::transfer_to_public(s, sender, nonce, expiry, fixtures().sec_to_pub.clone()),
            PArgs::AddBaker { stake, restake } => send::add_baker(s, sender, nonce, expiry, amt(*stake), *restake, fixtures().add_keys.clone()),
            PArgs::UpdateBakerKeys => send::update_baker_keys(s, sender, nonce, expiry, fixtures().update_keys.clone()),
        }
    }
}
