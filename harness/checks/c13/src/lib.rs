//! C13: stored artifacts and interrupted executions behave identically when resumed.
use concordium_wasm::artifact::{ArtifactNamedImport, OwnedArtifact};
use concordium_wasm::output::Output;
use concordium_wasm::utils::parse_artifact;
use vcore::{gen as g, vensure, CheckResult, Ctx, Property, Target, Unstructured, Violation};
use wasmgen::ast::*;
use wasmgen::gen::{gen_args, gen_module, GenConfig};
use wasmgen::hostmodel::std_imports;
use wasmrun::{instantiate, to_values, Event, Metering, RealOutcome, RecHost, VCfg, Value};

pub struct Case {
    vcfg:     VCfg,
    metering: Metering,
    module:   Module,
    func:     usize,
    args:     Vec<u64>,
    energy:   u64,
    schedule: u64,
}

fn decode_case(u: &mut Unstructured) -> Case {
    let vcfg = if g::boolean(u) { VCfg::V1 } else { VCfg::V0 };
    let metering = match g::byte(u) % 4 {
        0 => Metering::None,
        1 => Metering::V0,
        _ => Metering::V1,
    };
    let cfg = GenConfig {
        sign_ext: vcfg == VCfg::V1,
        globals_in_offsets: vcfg == VCfg::V0,
        imports: std_imports(),
        max_body: 100,
        host_call_bias: 170,
        extra_call_weight: 40,
        ..GenConfig::default()
    };
    let gen = gen_module(u, &cfg);
    let module = gen.module;
    let func = g::idx(u, module.funcs.len());
    let ty = module.types[module.funcs[func].ty as usize].clone();
    let args = gen_args(u, &ty);
    let energy = match g::byte(u) % 4 {
        0 => g::range_u64(u, 0, 400),
        _ => 10_000_000,
    };
    let schedule = g::u64v(u);
    Case { vcfg, metering, module, func, args, energy, schedule }
}

fn describe(c: &Case) -> String {
    format!(
        "validation {:?}, metering {:?}, export f{}, args {:?}, energy {}, schedule bits {:#x}\n{}",
        c.vcfg,
        c.metering,
        c.func,
        c.args,
        c.energy,
        c.schedule,
        pretty(&c.module)
    )
}

struct Run {
    out:   RealOutcome,
    log:   Vec<(String, Vec<u64>)>,
    events: Vec<Event>,
    ticked: u64,
    remaining: u64,
    steps: u64,
    interrupts: u64,
    host_calls: u64,
}

fn run_on<R: concordium_wasm::artifact::RunnableCode>(
    art: &concordium_wasm::artifact::Artifact<ArtifactNamedImport, R>,
    name: &str,
    args: &[Value],
    energy: u64,
    interrupt_at: Vec<u64>,
) -> Run {
    let mut host = RecHost::new(energy);
    host.interrupt_at = interrupt_at;
    let (out, interrupts) = wasmrun::run(art, name, args, &mut host, 200_000_000);
    Run {
        out,
        log: host.model.log,
        events: host.events,
        ticked: host.ticked,
        remaining: host.remaining,
        steps: wasmrun::steps(),
        interrupts,
        host_calls: host.host_calls,
    }
}

fn same(what: &str, a: &Run, b: &Run, compare_steps: bool) -> CheckResult {
    vensure!(
        a.out == b.out,
        "outcome",
        "{what}: outcomes differ: {} vs {}{}",
        a.out.kind(),
        b.out.kind(),
        match (&a.out, &b.out) {
            (RealOutcome::Done { result: r1, memory: m1 }, RealOutcome::Done { result: r2, memory: m2 }) => format!(
                " (results {:?} / {:?}, memory equal: {}, first difference at {:?})",
                r1,
                r2,
                m1 == m2,
                m1.iter().zip(m2.iter()).position(|(x, y)| x != y)
            ),
            (RealOutcome::Trap(x), RealOutcome::Trap(y)) => format!(" ('{x}' / '{y}')"),
            _ => String::new(),
        }
    );
    vensure!(a.log == b.log, "host-trace", "{what}: host call traces differ: {:?} vs {:?}", a.log, b.log);
    vensure!(a.events == b.events, "host-events", "{what}: host-visible events (energy at each call, memory announcements) differ");
    vensure!(
        a.ticked == b.ticked && a.remaining == b.remaining,
        "energy",
        "{what}: energy differs: ticked {} remaining {} vs ticked {} remaining {}",
        a.ticked,
        a.remaining,
        b.ticked,
        b.remaining
    );
    if compare_steps {
        vensure!(a.steps == b.steps, "steps", "{what}: interpreter steps differ: {} vs {}", a.steps, b.steps);
    }
    Ok(())
}

fn check_case(c: &Case, ctx: &mut Ctx) -> CheckResult {
    ctx.describe(|| describe(c));
    let m = &c.module;
    let bytes = wasmgen::encode::encode(m);
    let art = match instantiate(&bytes, c.vcfg, c.metering) {
        Ok(a) => a,
        Err(e) => return Err(Violation::new("accepts-valid", format!("valid module rejected: {e:#}"))),
    };
    let fty = m.types[m.funcs[c.func].ty as usize].clone();
    let name = format!("f{}", c.func);
    let args = to_values(&fty.params, &c.args);
    let energy = if c.metering == Metering::None { u64::MAX / 2 } else { c.energy };

    // reference run: fresh artifact, every host call answered inline
    let a = run_on(&art, &name, &args, energy, vec![]);
    if a.out == RealOutcome::StepLimit {
        ctx.class("step-limit");
        return Ok(());
    }
    ctx.class(a.out.kind());

    // (3) determinism
    let a2 = run_on(&art, &name, &args, energy, vec![]);
    same("second run of the same artifact", &a, &a2, true)?;

    // (1) artifact round trip
    let mut ser = Vec::new();
    art.output(&mut ser).map_err(|e| Violation::new("serialize", format!("artifact output failed: {e:#}")))?;
    let borrowed = parse_artifact::<ArtifactNamedImport>(&ser)
        .map_err(|e| Violation::new("parse-artifact", format!("the serialized artifact does not parse: {e:#}")))?;
    let mut ser2 = Vec::new();
    borrowed.output(&mut ser2).map_err(|e| Violation::new("serialize", format!("artifact output failed: {e:#}")))?;
    vensure!(ser == ser2, "reserialize", "serializing the parsed (zero-copy) artifact differs from the original serialization ({} vs {} bytes)", ser.len(), ser2.len());
    let b = run_on(&borrowed, &name, &args, energy, vec![]);
    same("zero-copy artifact loaded from bytes vs fresh artifact", &a, &b, true)?;
    let owned: OwnedArtifact<ArtifactNamedImport> = borrowed.into();
    let mut ser3 = Vec::new();
    owned.output(&mut ser3).map_err(|e| Violation::new("serialize", format!("artifact output failed: {e:#}")))?;
    vensure!(ser == ser3, "reserialize", "serializing the owned artifact converted from the parsed one differs from the original");
    let b2 = run_on(&owned, &name, &args, energy, vec![]);
    same("owned artifact converted from the parsed one vs fresh artifact", &a, &b2, true)?;

    // (2) interruption schedules over the dynamic host call occurrences
    let k = a.host_calls;
    let mut max_interrupts = 0;
    if k > 0 {
        ctx.class("has-host-calls");
        let mut schedules: Vec<Vec<u64>> = Vec::new();
        if k <= 4 {
            for mask in 1..(1u64 << k) {
                schedules.push((0..k).filter(|i| mask >> i & 1 == 1).collect());
            }
            ctx.class("all-schedules");
        } else {
            schedules.push((0..k).collect());
            schedules.push((0..k).filter(|i| c.schedule >> (i % 64) & 1 == 1).collect());
            schedules.push((0..k).filter(|i| c.schedule >> ((i + 17) % 64) & 1 == 0).collect());
            schedules.push(vec![k - 1]);
            schedules.push(vec![g::hex(&c.schedule.to_le_bytes()).len() as u64 % k]);
        }
        for (si, sched) in schedules.iter().enumerate() {
            if sched.is_empty() {
                continue;
            }
            // alternate between the fresh and the loaded artifact
            let r = if si % 2 == 0 {
                run_on(&art, &name, &args, energy, sched.clone())
            } else {
                run_on(&owned, &name, &args, energy, sched.clone())
            };
            max_interrupts = max_interrupts.max(r.interrupts);
            same(&format!("execution interrupted at host calls {:?} and resumed vs uninterrupted execution", sched), &a, &r, false)?;
        }
    }
    if max_interrupts >= 2 {
        ctx.class("two-or-more-interrupts");
    }
    let in_nested = a.events.iter().any(|e| matches!(e, Event::HostCall { .. })) && m.funcs.len() > 1;
    if max_interrupts >= 2 && in_nested {
        ctx.nontrivial(&(m.clone(), c.func, c.args.clone(), c.schedule, c.energy));
    }
    ctx.sample(|| {
        format!(
            "{:?}/{:?} f{} args {:?}: {} instrs, outcome {}, {} host calls, up to {} interrupts, artifact {} bytes",
            c.vcfg,
            c.metering,
            c.func,
            c.args,
            m.instruction_count(),
            a.out.kind(),
            k,
            max_interrupts,
            ser.len()
        )
    });
    Ok(())
}

fn t_resume(data: &[u8], ctx: &mut Ctx) -> CheckResult {
    let mut u = Unstructured::new(data);
    let c = decode_case(&mut u);
    check_case(&c, ctx)
}

pub fn property() -> Property {
    Property {
        id: "C13",
        rule: "wasmgen modules with host imports called at many sites (inside loops, nested calls, call_indirect), compiled under V0/V1 with no / V0 / V1 metering and run with small or ample energy. (1) The artifact is serialized, parsed zero-copy (parse_artifact) and converted to the owned form; both must re-serialize byte-identically and run identically to the fresh artifact: outcome (result, trap, final memory), host call trace, energy at every host-visible event, total energy, interpreter steps. (2) The same execution is run with the host interrupting at chosen dynamic host-call occurrences (all non-empty subsets when there are <= 4 calls, otherwise all / two pseudo-random subsets / last only / one), the harness pushes the stashed response and resumes with run_config; outcome, memory, energy and host trace must equal the uninterrupted run. (3) Running twice is identical. Non-trivial = a schedule with >= 2 interrupts in a module with more than one function; distinct by (module, export, args, schedule, energy).",
        assumptions: &[
            "parse_artifact is only applied to bytes produced by the engine's own serializer (documented: trusted sources only)",
            "the harness host answers an interrupted call with the same deterministic response it would have given inline",
            "end-to-end resumption through the v1 receive interface is exercised with the host functions (C14)",
        ],
        targets: vec![Target::new("resume", t_resume)
            .len(64, 2048)
            .cases(40_000, 3_000_000)
            .floors(&[("has-host-calls", 0.15), ("two-or-more-interrupts", 0.06)])],
    }
}
