//! Phase 1: `StatementWithContext::{prove, verify}` (id_prover / id_verifier) over account
//! credentials, i.e. per-attribute Pedersen commitments under the on-chain commitment key.
use crate::model::*;
use concordium_base::{
    common::{from_bytes, to_bytes},
    curve_arithmetic::Curve,
    id::{
        constants::{ArCurve, AttributeKind},
        id_proof_types::{AtomicProof, Proof, ProofVersion, Statement, StatementWithContext},
        types::{AttributeTag, CredentialDeploymentCommitments, GlobalContext},
    },
    pedersen_commitment::{Commitment, Randomness, Value},
};
use std::collections::BTreeMap;
use std::sync::OnceLock;
use vcore::{gen, vensure, CheckResult, Ctx, Unstructured, Violation};

pub fn global() -> &'static GlobalContext<ArCurve> {
    static G: OnceLock<GlobalContext<ArCurve>> = OnceLock::new();
    G.get_or_init(|| GlobalContext::generate("c18-genesis".to_string()))
}

pub fn commit(m: &MAttr, r: &Randomness<ArCurve>) -> Commitment<ArCurve> {
    // the commitment is computed from the *model* embedding, not from `to_field_element`
    let scalar: Scalar = from_bytes(&mut std::io::Cursor::new(m.field())).expect("embedding is below the group order");
    global().on_chain_commitment_key.hide(&Value::<ArCurve>::new(scalar), r)
}

pub fn point(k: u64) -> ArCurve {
    global().on_chain_commitment_key.g.mul_by_scalar(&ArCurve::scalar_from_u64(k.wrapping_add(2)))
}

pub fn mutate_challenge(u: &mut Unstructured, ch: &[u8]) -> (Vec<u8>, &'static str) {
    let mut c = ch.to_vec();
    match gen::idx(u, 4) {
        0 if !c.is_empty() => {
            let i = gen::idx(u, c.len());
            c[i] ^= 1 << (gen::byte(u) % 8);
            (c, "challenge:bitflip")
        }
        1 if !c.is_empty() => {
            c.pop();
            (c, "challenge:truncate")
        }
        2 if !c.is_empty() => (Vec::new(), "challenge:empty"),
        _ => {
            c.push(gen::byte(u));
            (c, "challenge:extend")
        }
    }
}

struct Inst {
    version:     ProofVersion,
    global:      GlobalContext<ArCurve>,
    challenge:   Vec<u8>,
    credential:  ArCurve,
    stmts:       Vec<MStmt>,
    commitments: CredentialDeploymentCommitments<ArCurve>,
}

impl Inst {
    fn statement(&self) -> StatementWithContext<ArCurve, AttributeKind> {
        StatementWithContext {
            credential: self.credential,
            statement:  Statement { statements: self.stmts.iter().map(to_atomic::<AttributeKind, AttributeTag>).collect() },
        }
    }

    fn verify(&self, proof: &Proof<ArCurve, AttributeKind>) -> bool {
        self.statement().verify(self.version, &self.challenge, &self.global, &self.commitments, proof)
    }
}

fn show_case(version: ProofVersion, claimed: &[(u8, MAttr)], committed: &[(u8, MAttr)], stmts: &[MStmt], ch: &[u8]) -> String {
    let mut s = format!("{:?} challenge={} attrs: ", version, gen::hex(ch));
    for ((t, c), (_, k)) in claimed.iter().zip(committed) {
        if c == k {
            s.push_str(&format!("[{}]={} ", t, c.show()));
        } else {
            s.push_str(&format!("[{}]={} (prover claims {}) ", t, k.show(), c.show()));
        }
    }
    s.push_str("| statements: ");
    for st in stmts {
        let v = lookup(committed, st.tag);
        s.push_str(&format!("{} => {:?}; ", show_stmt(st), truth(v, &st.kind)));
    }
    s
}

pub fn t_account_statement(data: &[u8], ctx: &mut Ctx) -> CheckResult {
    let mut u = Unstructured::new(data);
    let u = &mut u;
    let version = if gen::idx(u, 4) == 3 { ProofVersion::Version1 } else { ProofVersion::Version2 };
    let committed = gen_attr_list(u, Flavor::Kind);
    // A lying prover: claims another value for one attribute than the one committed to.
    let mut claimed = committed.clone();
    let lie = if gen::idx(u, 8) == 7 {
        let i = gen::idx(u, claimed.len());
        let n = other_value(u, &committed[i].1.clone(), &committed[i].1.clone(), Flavor::Kind);
        if n.field() != committed[i].1.field() {
            claimed[i].1 = n;
            Some(committed[i].0)
        } else {
            None
        }
    } else {
        None
    };
    // statements are generated against what the prover claims (so that the prover goes through)
    let stmts = gen_stmt_set(u, &claimed, Flavor::Kind, 4);
    let challenge = match gen::idx(u, 4) {
        0 => gen::bytes(u, 32),
        1 => gen::short_bytes(u, 70),
        2 => Vec::new(),
        _ => gen::bytes(u, 32),
    };
    let credential = point(gen::u16v(u) as u64);
    let mut rng = gen::rng(u);

    let g = global();
    let mut values = BTreeMap::new();
    let mut randomness = BTreeMap::new();
    let mut cmm_attributes = BTreeMap::new();
    for ((tag, cl), (_, co)) in claimed.iter().zip(&committed) {
        let a = AttributeKind::from_model(cl);
        vensure!(a.field_of() == cl.field(), "model-embedding", "to_field_element({}) differs from the documented embedding", cl.show());
        let r = Randomness::<ArCurve>::generate(&mut rng);
        cmm_attributes.insert(AttributeTag(*tag), commit(co, &r));
        values.insert(AttributeTag(*tag), a);
        randomness.insert(AttributeTag(*tag), r);
    }
    let dummy = Commitment(point(1));
    let inst = Inst {
        version,
        global: g.clone(),
        challenge: challenge.clone(),
        credential,
        stmts: stmts.clone(),
        commitments: CredentialDeploymentCommitments {
            cmm_prf: dummy,
            cmm_cred_counter: dummy,
            cmm_max_accounts: dummy,
            cmm_attributes,
            cmm_id_cred_sec_sharing_coeff: vec![],
        },
    };

    if exclude_f1(ctx, &stmts, &committed) {
        return Ok(());
    }
    // ---- classification (truth w.r.t. the committed values) --------------------------------
    let truths: Vec<Truth> = stmts.iter().map(|s| truth(lookup(&committed, s.tag), &s.kind)).collect();
    let touches_lie = lie.map(|t| stmts.iter().any(|s| s.tag == t)).unwrap_or(false);
    let any_false = truths.iter().any(|t| *t == Truth::False);
    let any_ood = truths.iter().any(|t| *t == Truth::TrueOutOfDomain);
    ctx.class(if version == ProofVersion::Version1 { "version1" } else { "version2" });
    let mut boundary = false;
    for s in &stmts {
        ctx.class_n(
            match s.kind {
                MKind::Reveal => "stmt:reveal",
                MKind::Equals(_) => "stmt:equals",
                MKind::Range { .. } => "stmt:range",
                MKind::InSet(_) => "stmt:in-set",
                MKind::NotInSet(_) => "stmt:not-in-set",
            },
            1,
        );
        if let Some(b) = boundary_class(lookup(&committed, s.tag), &s.kind) {
            ctx.class_n(b, 1);
            boundary = true;
        }
    }
    let expect = if touches_lie {
        "lying-prover"
    } else if any_false {
        "some-false"
    } else if any_ood {
        "true-out-of-domain"
    } else {
        "all-true"
    };
    ctx.class(expect);
    if boundary {
        ctx.class("boundary-statement");
        ctx.nontrivial(&(version == ProofVersion::Version1, &claimed, &committed, &stmts, &challenge));
    }
    ctx.sample(|| show_case(version, &claimed, &committed, &stmts, &challenge));
    ctx.describe(|| show_case(version, &claimed, &committed, &stmts, &challenge));

    // ---- prove ---------------------------------------------------------------------------
    let proof = inst.statement().prove(version, g, &challenge, &values, &randomness);
    let accepted = match &proof {
        None => false,
        Some(p) => inst.verify(p),
    };
    match expect {
        "all-true" => {
            if proof.is_none() {
                let sig = if has_f1(&stmts, &committed) { F1_SIGNATURE } else { "completeness-prove" };
                return Err(Violation::new("completeness-prove", format!("no proof produced for an all-true statement set: {}", show_case(version, &claimed, &committed, &stmts, &challenge)))
                    .with_signature(sig));
            }
            vensure!(accepted, "completeness-verify", "honest proof of an all-true statement set rejected: {}", show_case(version, &claimed, &committed, &stmts, &challenge));
        }
        "some-false" => {
            ctx.class(if proof.is_none() { "false:prover-refuses" } else { "false:proof-produced" });
            if accepted {
                let bad: Vec<String> = stmts.iter().zip(&truths).filter(|(_, t)| **t == Truth::False).map(|(s, _)| show_stmt(s)).collect();
                let kind = stmts.iter().zip(&truths).find(|(_, t)| **t == Truth::False).map(|(s, _)| match s.kind {
                    MKind::Reveal => "reveal",
                    MKind::Equals(_) => "equals",
                    MKind::Range { .. } => "range",
                    MKind::InSet(_) => "in-set",
                    MKind::NotInSet(_) => "not-in-set",
                });
                return Err(Violation::new(
                    "soundness-false-statement",
                    format!("a proof for a statement set with false statements {:?} verifies: {}", bad, show_case(version, &claimed, &committed, &stmts, &challenge)),
                )
                .with_signature(format!("soundness-false-statement:{}", kind.unwrap_or("?"))));
            }
        }
        "lying-prover" => {
            vensure!(!accepted, "soundness-wrong-value", "a proof made with a value different from the committed one verifies: {}", show_case(version, &claimed, &committed, &stmts, &challenge));
        }
        _ => {
            ctx.class(if accepted { "out-of-domain:accepted" } else { "out-of-domain:rejected" });
        }
    }
    if !accepted {
        return Ok(());
    }
    let proof = proof.unwrap();

    // ---- revealed values are the committed ones ---------------------------------------------
    vensure!(proof.proofs.len() == stmts.len(), "proof-shape", "number of atomic proofs differs from number of statements");
    for (s, p) in stmts.iter().zip(&proof.proofs) {
        if let MKind::Reveal = s.kind {
            let want = lookup(&committed, s.tag).expect("accepted reveal of an existing attribute");
            match p {
                AtomicProof::RevealAttribute { attribute, .. } => {
                    vensure!(
                        attribute.field_of() == want.field() && *attribute == AttributeKind::from_model(want),
                        "reveal-value",
                        "revealed value {:?} is not the committed attribute {}",
                        attribute,
                        want.show()
                    );
                    ctx.class("revealed-value-checked");
                }
                _ => vcore::vfail!("proof-shape", "reveal statement answered by another kind of proof"),
            }
        }
    }

    // ---- single-field perturbations ------------------------------------------------------------
    let only_ranges = stmts.iter().all(|s| matches!(s.kind, MKind::Range { .. }));
    // the kinds of perturbation are visited round-robin from a drawn start, so that every kind is
    // exercised in most accepted cases; the details within a kind are drawn
    let n_pert = 5 + gen::idx(u, 8);
    let start = gen::idx(u, 9);
    for j in 0..n_pert {
        let mut alt = Inst {
            version,
            global: inst.global.clone(),
            challenge: inst.challenge.clone(),
            credential: inst.credential,
            stmts: inst.stmts.clone(),
            commitments: inst.commitments.clone(),
        };
        let mut alt_proof: Option<Proof<ArCurve, AttributeKind>> = None;
        // context-only perturbations are not bound by version-1 range proofs (they use a fresh
        // transcript): documented legacy behaviour, superseded by version 2 => no claim there.
        let mut context_only = false;
        let name: &'static str = match (start + j) % 9 {
            0 => {
                let (c, n) = mutate_challenge(u, &alt.challenge);
                alt.challenge = c;
                context_only = true;
                n
            }
            1 => {
                let p = point(gen::u16v(u) as u64 + 70_000);
                if p == alt.credential {
                    ctx.class("perturb:noop");
                    continue;
                }
                alt.credential = p;
                context_only = true;
                "credential-id"
            }
            2 => {
                alt.global.genesis_string.push('x');
                context_only = true;
                "global-context:genesis-string"
            }
            3 | 4 => match perturb_stmt_field(u, &alt.stmts, &committed, Flavor::Kind) {
                Some((s, n)) => {
                    alt.stmts = s;
                    n
                }
                None => {
                    ctx.class("perturb:noop");
                    continue;
                }
            },
            5 => {
                // the commitment of an attribute some statement is about
                let i = gen::idx(u, stmts.len());
                let tag = AttributeTag(stmts[i].tag);
                let v = lookup(&committed, stmts[i].tag).expect("accepted => attribute exists");
                let r = randomness.get(&tag).unwrap();
                match gen::idx(u, 4) {
                    0 => {
                        let o = other_value(u, v, v, Flavor::Kind);
                        if o.field() == v.field() {
                            ctx.class("perturb:noop");
                            continue;
                        }
                        alt.commitments.cmm_attributes.insert(tag, commit(&o, r));
                        "commitment:other-value"
                    }
                    1 => {
                        let r2 = Randomness::<ArCurve>::generate(&mut rng);
                        alt.commitments.cmm_attributes.insert(tag, commit(v, &r2));
                        "commitment:other-randomness"
                    }
                    2 => {
                        let others: Vec<AttributeTag> = alt.commitments.cmm_attributes.keys().filter(|t| **t != tag).cloned().collect();
                        if others.is_empty() {
                            ctx.class("perturb:noop");
                            continue;
                        }
                        let o = *gen::choose(u, &others);
                        let c = alt.commitments.cmm_attributes[&o];
                        alt.commitments.cmm_attributes.insert(tag, c);
                        "commitment:of-another-attribute"
                    }
                    _ => {
                        alt.commitments.cmm_attributes.remove(&tag);
                        "commitment:removed"
                    }
                }
            }
            6 => {
                // the revealed value inside the proof
                let reveals: Vec<usize> = (0..stmts.len()).filter(|i| matches!(stmts[*i].kind, MKind::Reveal)).collect();
                if reveals.is_empty() {
                    ctx.class("perturb:noop");
                    continue;
                }
                let i = *gen::choose(u, &reveals);
                let v = lookup(&committed, stmts[i].tag).unwrap();
                let o = other_value(u, v, v, Flavor::Kind);
                if o.field() == v.field() {
                    ctx.class("perturb:noop");
                    continue;
                }
                let mut p = proof.clone();
                if let AtomicProof::RevealAttribute { attribute, .. } = &mut p.proofs[i] {
                    *attribute = AttributeKind::from_model(&o);
                }
                alt_proof = Some(p);
                "proof:revealed-value"
            }
            7 => {
                let orig = to_bytes(&proof);
                let mut found = None;
                for _ in 0..4 {
                    let mut b = orig.clone();
                    let i = gen::idx(u, b.len());
                    b[i] ^= 1 << (gen::byte(u) % 8);
                    match from_bytes::<Proof<ArCurve, AttributeKind>, _>(&mut std::io::Cursor::new(&b)) {
                        Ok(p) if to_bytes(&p) == b => {
                            found = Some(p);
                            break;
                        }
                        _ => ctx.class("perturb:proof-bitflip-unparseable"),
                    }
                }
                match found {
                    Some(p) => {
                        alt_proof = Some(p);
                        "proof:bitflip"
                    }
                    None => continue,
                }
            }
            _ => {
                let mut p = proof.clone();
                match gen::idx(u, 2) {
                    0 => {
                        p.proofs.pop();
                        alt_proof = Some(p);
                        "proof:drop-last"
                    }
                    _ => {
                        let i = gen::idx(u, p.proofs.len());
                        let j = gen::idx(u, p.proofs.len());
                        if i == j || (stmts[i] == stmts[j] && version == ProofVersion::Version1) {
                            ctx.class("perturb:noop");
                            continue;
                        }
                        p.proofs.swap(i, j);
                        alt_proof = Some(p);
                        "proof:swap"
                    }
                }
            }
        };
        if context_only && version == ProofVersion::Version1 && only_ranges {
            ctx.class("perturb:v1-range-only-context(no claim)");
            continue;
        }
        let ok = alt.verify(alt_proof.as_ref().unwrap_or(&proof));
        ctx.class_n(&format!("perturb:{}", name), 1);
        ctx.class_n("perturbations-verified", 1);
        if ok {
            return Err(Violation::new(
                "binding",
                format!(
                    "verification still succeeds after perturbation `{}`; original case: {}; perturbed statements: {:?} challenge {}",
                    name,
                    show_case(version, &claimed, &committed, &stmts, &challenge),
                    alt.stmts.iter().map(show_stmt).collect::<Vec<_>>(),
                    gen::hex(&alt.challenge)
                ),
            )
            .with_signature(format!("binding:{}:{:?}", name, version)));
        }
    }
    Ok(())
}
