//! Attribute / statement model shared by all C18 targets.
//!
//! The model is independent of the code under test: an attribute is mapped to the 256-bit integer
//! it is embedded as (documented in `AttributeKind::to_field_element` / `Web3IdAttribute`), and the
//! truth of a statement is decided on those integers.
use concordium_base::{
    common::to_bytes,
    contracts_common::Timestamp,
    id::{
        constants::{ArCurve, AttributeKind},
        id_proof_types::{
            AtomicStatement, AttributeInRangeStatement, AttributeInSetStatement,
            AttributeNotInSetStatement, RevealAttributeStatement,
        },
        types::{Attribute, AttributeTag},
    },
    web3id::Web3IdAttribute,
};
use num_bigint::BigUint;
use std::{collections::BTreeSet, fmt::Debug, marker::PhantomData};
use vcore::{gen, Unstructured};

pub type Scalar = <ArCurve as concordium_base::curve_arithmetic::Curve>::Scalar;
pub type F32 = [u8; 32];

/// Model attribute. The derived `Ord` mirrors the derived `Ord` of `Web3IdAttribute`
/// (variant order String < Numeric < Timestamp, strings bytewise) and of `AttributeKind`.
#[derive(Clone, Debug, PartialEq, Eq, Hash, PartialOrd, Ord)]
pub enum MAttr {
    Str(String),
    Num(u64),
    Ts(u64),
}

impl MAttr {
    /// The 32-byte big-endian integer the attribute is embedded as.
    pub fn field(&self) -> F32 {
        let mut b = [0u8; 32];
        match self {
            MAttr::Str(s) => {
                let n = s.len();
                assert!(n <= 31);
                b[0] = n as u8;
                b[32 - n..].copy_from_slice(s.as_bytes());
            }
            MAttr::Num(n) | MAttr::Ts(n) => b[24..].copy_from_slice(&n.to_be_bytes()),
        }
        b
    }

    pub fn big(&self) -> BigUint { BigUint::from_bytes_be(&self.field()) }

    pub fn show(&self) -> String {
        match self {
            MAttr::Str(s) => format!("{:?}", s),
            MAttr::Num(n) => format!("#{}", n),
            MAttr::Ts(n) => format!("@{}", n),
        }
    }
}

#[derive(Clone, Copy, Debug, PartialEq, Eq)]
pub enum Flavor {
    /// `AttributeKind` (strings only) — account credentials through id_prover / id_verifier.
    Kind,
    /// `Web3IdAttribute` (strings, numbers, timestamps).
    Web3,
}

pub trait AttrT: Attribute<Scalar> + Clone + Ord + Debug + PartialEq {
    fn from_model(m: &MAttr) -> Self;
    fn field_of(&self) -> F32 {
        let v = to_bytes(&self.to_field_element());
        let mut b = [0u8; 32];
        b.copy_from_slice(&v);
        b
    }
}

impl AttrT for AttributeKind {
    fn from_model(m: &MAttr) -> Self {
        match m {
            MAttr::Str(s) => AttributeKind::try_new(s.clone()).expect("<= 31 bytes"),
            MAttr::Num(n) | MAttr::Ts(n) => AttributeKind::from(*n),
        }
    }
}

impl AttrT for Web3IdAttribute {
    fn from_model(m: &MAttr) -> Self {
        match m {
            MAttr::Str(s) => Web3IdAttribute::String(AttributeKind::try_new(s.clone()).expect("<= 31 bytes")),
            MAttr::Num(n) => Web3IdAttribute::Numeric(*n),
            MAttr::Ts(n) => Web3IdAttribute::Timestamp(Timestamp::from_timestamp_millis(*n)),
        }
    }
}

pub trait TagT: concordium_base::common::Serialize + Ord + Clone + Debug {
    fn from_id(id: u8) -> Self;
}

impl TagT for AttributeTag {
    fn from_id(id: u8) -> Self { AttributeTag(id) }
}

pub const TAG_NAMES: [&str; 20] = [
    "0", "1", "dob", "degreeType", "graduationDate", "", "a", "A", "ä", "name with space", "10", "11", "x12",
    "countryOfResidence", "14", "15", "0016", "17", "18", "🙂",
];

impl TagT for String {
    fn from_id(id: u8) -> Self { TAG_NAMES[id as usize % TAG_NAMES.len()].to_string() }
}

pub const N_TAGS: usize = 18;
/// Timestamps below 366 days (in ms) have no JSON representation (`Web3IdAttribute::serialize` fails).
pub const TS_JSON_MIN: u64 = 366 * 86_400_000;

// ------------------------------------------------------------------------------------------
// Attribute generation

const ASCII_LO: u8 = 0x20;
const ASCII_HI: u8 = 0x7e;

fn ascii_char(u: &mut Unstructured) -> u8 { ASCII_LO + (gen::byte(u) % (ASCII_HI - ASCII_LO + 1)) }

fn gen_string(u: &mut Unstructured) -> String {
    match gen::idx(u, 7) {
        0 => {
            // date-like YYYYMMDD
            let y = 1800 + gen::range_u64(u, 0, 400);
            let m = 1 + gen::range_u64(u, 0, 11);
            let d = 1 + gen::range_u64(u, 0, 30);
            format!("{:04}{:02}{:02}", y, m, d)
        }
        1 => {
            // decimal number
            match gen::idx(u, 3) {
                0 => gen::range_u64(u, 0, 200).to_string(),
                1 => gen::boundary_u64(u).to_string(),
                _ => gen::u32v(u).to_string(),
            }
        }
        2 => {
            // country-code like
            let a = b'A' + gen::byte(u) % 26;
            let b = b'A' + gen::byte(u) % 26;
            String::from_utf8(vec![a, b]).unwrap()
        }
        3 => {
            // printable ascii, short
            let n = gen::range_usize(u, 0, 12);
            String::from_utf8((0..n).map(|_| ascii_char(u)).collect()).unwrap()
        }
        4 => {
            // printable ascii, any length up to 31
            let n = gen::range_usize(u, 0, 31);
            String::from_utf8((0..n).map(|_| ascii_char(u)).collect()).unwrap()
        }
        5 => {
            // exactly the maximal length
            String::from_utf8((0..31).map(|_| ascii_char(u)).collect()).unwrap()
        }
        _ => {
            // unicode / control characters
            const CH: [char; 12] = ['a', 'Z', '0', 'é', 'ß', '中', '€', '\u{7f}', '\0', ' ', '🙂', '\u{1}'];
            let n = gen::range_usize(u, 0, 12);
            let mut s = String::new();
            for _ in 0..n {
                let c = *gen::choose(u, &CH);
                if s.len() + c.len_utf8() > 31 {
                    break;
                }
                s.push(c);
            }
            s
        }
    }
}

pub fn gen_attr(u: &mut Unstructured, flavor: Flavor) -> MAttr {
    match flavor {
        Flavor::Kind => MAttr::Str(gen_string(u)),
        Flavor::Web3 => match gen::idx(u, 5) {
            0 | 1 => MAttr::Str(gen_string(u)),
            2 => MAttr::Num(gen::boundary_u64(u)),
            3 => MAttr::Num(gen::range_u64(u, 0, 1000)),
            _ => MAttr::Ts(match gen::idx(u, 6) {
                // inside the window that has a JSON (ISO 8601) representation
                0 | 1 => 1_600_000_000_000 + gen::range_u64(u, 0, 200_000_000_000),
                2 => TS_JSON_MIN + gen::range_u64(u, 0, 1000),
                3 => gen::range_u64(u, TS_JSON_MIN, 16_000_000_000_000_000),
                4 => gen::boundary_u64(u),
                _ => gen::u64v(u),
            }),
        },
    }
}

/// The attribute list of a credential: distinct tag ids (0..N_TAGS) with values.
pub fn gen_attr_list(u: &mut Unstructured, flavor: Flavor) -> Vec<(u8, MAttr)> {
    let n = 1 + gen::idx(u, 5);
    let mut used = [false; N_TAGS];
    let mut out = Vec::new();
    for _ in 0..n {
        let mut t = gen::idx(u, N_TAGS);
        while used[t] {
            t = (t + 1) % N_TAGS;
        }
        used[t] = true;
        out.push((t as u8, gen_attr(u, flavor)));
    }
    out
}

pub fn missing_tag(attrs: &[(u8, MAttr)]) -> u8 {
    (0..N_TAGS as u8).rev().find(|t| attrs.iter().all(|(x, _)| x != t)).expect("fewer attributes than tags")
}

// ------------------------------------------------------------------------------------------
// Neighbours of a value in the embedding

fn with_num(v: &MAttr, n: u64) -> MAttr {
    match v {
        MAttr::Ts(_) => MAttr::Ts(n),
        _ => MAttr::Num(n),
    }
}

/// The attribute of the same type embedded as `field(v) + 1`, if there is one.
pub fn succ(v: &MAttr) -> Option<MAttr> {
    match v {
        MAttr::Str(s) => {
            let mut b = s.as_bytes().to_vec();
            let last = b.last_mut()?;
            *last = last.checked_add(1)?;
            String::from_utf8(b).ok().map(MAttr::Str)
        }
        MAttr::Num(n) | MAttr::Ts(n) => n.checked_add(1).map(|m| with_num(v, m)),
    }
}

/// An attribute of the same type embedded at or below `v` (at most 2^64 below).
pub fn below(u: &mut Unstructured, v: &MAttr) -> MAttr {
    match v {
        MAttr::Str(s) => {
            let mut b = s.as_bytes().to_vec();
            let len = b.len();
            if len == 0 {
                return v.clone();
            }
            let k = len.min(8);
            let p = if gen::boolean(u) { len - 1 } else { len - k + gen::idx(u, k) };
            let c = b[p];
            if c == 0 {
                return v.clone();
            }
            let hi = (c - 1).min(0x7f);
            b[p] = if gen::boolean(u) { hi } else { gen::range_u64(u, 0, hi as u64) as u8 };
            for x in b[p + 1..].iter_mut() {
                *x = ascii_char(u);
            }
            String::from_utf8(b).map(MAttr::Str).unwrap_or_else(|_| v.clone())
        }
        MAttr::Num(n) | MAttr::Ts(n) => {
            let m = match gen::idx(u, 4) {
                0 => n.saturating_sub(1),
                1 => gen::range_u64(u, 0, *n),
                2 => 0,
                _ => n.saturating_sub(gen::range_u64(u, 0, 1000)),
            };
            with_num(v, m)
        }
    }
}

/// An attribute of the same type embedded strictly above `v` (at most 2^64 above), if the
/// construction finds one.
pub fn above(u: &mut Unstructured, v: &MAttr) -> Option<MAttr> {
    match v {
        MAttr::Str(s) => {
            let mut b = s.as_bytes().to_vec();
            let len = b.len();
            if len == 0 {
                return None;
            }
            let k = len.min(8);
            let p = if gen::boolean(u) { len - 1 } else { len - k + gen::idx(u, k) };
            let c = b[p];
            if c >= 0x7f {
                return None;
            }
            b[p] = if gen::boolean(u) { c + 1 } else { gen::range_u64(u, c as u64 + 1, 0x7f) as u8 };
            for x in b[p + 1..].iter_mut() {
                *x = ascii_char(u);
            }
            String::from_utf8(b).ok().map(MAttr::Str)
        }
        MAttr::Num(n) | MAttr::Ts(n) => {
            if *n == u64::MAX {
                return None;
            }
            let m = match gen::idx(u, 4) {
                0 => n + 1,
                1 => gen::range_u64(u, n + 1, u64::MAX),
                2 => u64::MAX,
                _ => n.saturating_add(1 + gen::range_u64(u, 0, 1000)),
            };
            Some(with_num(v, m))
        }
    }
}

/// A value whose embedding is far (more than 2^64) away from `v`'s, or at least different.
pub fn far(u: &mut Unstructured, v: &MAttr, flavor: Flavor) -> MAttr {
    match v {
        MAttr::Str(s) => {
            let mut t = s.clone();
            if t.len() < 31 && gen::boolean(u) {
                t.push(ascii_char(u) as char);
            } else if !t.is_empty() {
                t.pop();
            } else {
                t.push('0');
            }
            if gen::boolean(u) && t.len() >= 10 {
                // change a byte far from the tail
                let mut b = t.into_bytes();
                b[0] = if b[0] == b'a' { b'b' } else { b'a' };
                t = String::from_utf8(b).unwrap_or_else(|_| "a".into());
            }
            MAttr::Str(t)
        }
        MAttr::Num(n) | MAttr::Ts(n) => {
            if flavor == Flavor::Web3 && gen::boolean(u) {
                MAttr::Str(n.to_string())
            } else {
                with_num(v, n ^ (1u64 << 63))
            }
        }
    }
}

// ------------------------------------------------------------------------------------------
// Statements

#[derive(Clone, Debug, PartialEq, Eq, Hash)]
pub enum MKind {
    Reveal,
    /// web3id::v1 only: the attribute equals a public value (`AttributeValueStatement`).
    Equals(MAttr),
    Range { lo: MAttr, hi: MAttr },
    InSet(Vec<MAttr>),
    NotInSet(Vec<MAttr>),
}

#[derive(Clone, Debug, PartialEq, Eq, Hash)]
pub struct MStmt {
    /// Tag id the statement is about (may be a tag the credential does not have).
    pub tag:  u8,
    pub kind: MKind,
}

#[derive(Clone, Copy, Debug, PartialEq, Eq)]
pub enum Truth {
    /// True and inside the documented domain of the proof system.
    True,
    /// True as a statement about integers, but outside what the range proof can express
    /// (a bound more than 2^64 away from the value) or the set has more elements than there are
    /// generators: no claim either way.
    TrueOutOfDomain,
    False,
}

pub fn two64() -> BigUint { BigUint::from(1u8) << 64 }

pub fn truth(v: Option<&MAttr>, k: &MKind) -> Truth {
    let Some(v) = v else { return Truth::False };
    let fv = v.field();
    match k {
        MKind::Reveal => Truth::True,
        MKind::Equals(x) => {
            if x.field() == fv {
                Truth::True
            } else {
                Truth::False
            }
        }
        MKind::Range { lo, hi } => {
            let (a, b, x) = (lo.big(), hi.big(), v.big());
            if a <= x && x < b {
                if &x - &a < two64() && &b - &x <= two64() {
                    Truth::True
                } else {
                    Truth::TrueOutOfDomain
                }
            } else {
                Truth::False
            }
        }
        MKind::InSet(s) => {
            if s.iter().any(|e| e.field() == fv) {
                if s.len() <= 256 {
                    Truth::True
                } else {
                    Truth::TrueOutOfDomain
                }
            } else {
                Truth::False
            }
        }
        MKind::NotInSet(s) => {
            if s.iter().all(|e| e.field() != fv) {
                if s.len() <= 256 {
                    Truth::True
                } else {
                    Truth::TrueOutOfDomain
                }
            } else {
                Truth::False
            }
        }
    }
}

/// Is the statement "at a boundary" (the non-triviality rule of the design)?
pub fn boundary_class(v: Option<&MAttr>, k: &MKind) -> Option<&'static str> {
    let v = v?;
    let x = v.big();
    let one = BigUint::from(1u8);
    match k {
        MKind::Reveal | MKind::Equals(_) => None,
        MKind::Range { lo, hi } => {
            let (a, b) = (lo.big(), hi.big());
            if a == x && b == x {
                Some("range:empty-at-value(false)")
            } else if a == x && b == &x + &one {
                Some("range:lower=value,upper=value+1")
            } else if a == x && b > x {
                Some("range:lower=value")
            } else if b == &x + &one && a <= x {
                Some("range:upper=value+1")
            } else if b == x {
                Some("range:upper=value(false)")
            } else if a == &x + &one {
                Some("range:lower=value+1(false)")
            } else {
                None
            }
        }
        MKind::InSet(s) | MKind::NotInSet(s) => {
            let is_in = matches!(k, MKind::InSet(_));
            let mut sorted: Vec<&MAttr> = s.iter().collect();
            sorted.sort();
            sorted.dedup();
            let present = sorted.iter().position(|e| e.field() == v.field());
            match (sorted.len(), present, is_in) {
                (0, _, true) => Some("set:in-empty(false)"),
                (0, _, false) => Some("set:notin-empty"),
                (1, Some(_), true) => Some("set:in-singleton"),
                (1, Some(_), false) => Some("set:notin-singleton-present(false)"),
                (1, None, true) => Some("set:in-singleton-absent(false)"),
                (1, None, false) => Some("set:notin-singleton-absent"),
                (_, Some(0), true) => Some("set:in-value-first"),
                (n, Some(p), true) if p == n - 1 => Some("set:in-value-last"),
                (_, Some(_), false) => Some("set:notin-value-present(false)"),
                (_, None, true) => Some("set:in-absent(false)"),
                _ => None,
            }
        }
    }
}

#[derive(Clone, Copy, PartialEq, Eq)]
enum SetMode {
    Random,
    ValueFirst,
    ValueLast,
}

fn gen_set(u: &mut Unstructured, v: &MAttr, flavor: Flavor, include: bool, singleton: bool) -> Vec<MAttr> {
    if singleton {
        return if include {
            vec![v.clone()]
        } else {
            vec![succ(v).unwrap_or_else(|| far(u, v, flavor))]
        };
    }
    const SIZES: [usize; 12] = [2, 3, 4, 5, 1, 7, 8, 9, 16, 17, 2, 33];
    let n = *gen::choose(u, &SIZES);
    let mode = match gen::idx(u, 3) {
        0 => SetMode::Random,
        1 => SetMode::ValueFirst,
        _ => SetMode::ValueLast,
    };
    let mut s: Vec<MAttr> = Vec::new();
    for _ in 0..n {
        let e = match gen::idx(u, 6) {
            0 | 1 => gen_attr(u, flavor),
            2 => succ(v).unwrap_or_else(|| gen_attr(u, flavor)),
            3 => below(u, v),
            4 => above(u, v).unwrap_or_else(|| gen_attr(u, flavor)),
            _ => far(u, v, flavor),
        };
        s.push(e);
    }
    let fv = v.field();
    s.retain(|e| e.field() != fv);
    if include {
        match mode {
            SetMode::Random => {}
            SetMode::ValueFirst => s.retain(|e| e > v),
            SetMode::ValueLast => s.retain(|e| e < v),
        }
        let at = gen::idx(u, s.len() + 1);
        s.insert(at, v.clone());
    }
    s
}

fn gen_range_true(u: &mut Unstructured, v: &MAttr, variant: usize) -> MKind {
    let lo = if variant & 1 == 0 { v.clone() } else { below(u, v) };
    let hi = if variant & 2 == 0 { succ(v) } else { above(u, v) };
    // when no upper neighbour exists the statement degenerates to the empty range (false)
    let hi = hi.unwrap_or_else(|| v.clone());
    MKind::Range { lo, hi }
}

fn gen_range_false(u: &mut Unstructured, v: &MAttr, flavor: Flavor, variant: usize) -> MKind {
    match variant {
        0 => MKind::Range { lo: below(u, v), hi: v.clone() },
        1 => MKind::Range {
            lo: succ(v).unwrap_or_else(|| far(u, v, flavor)),
            hi: above(u, v).unwrap_or_else(|| v.clone()),
        },
        2 => MKind::Range { lo: v.clone(), hi: v.clone() },
        3 => MKind::Range { lo: above(u, v).unwrap_or_else(|| far(u, v, flavor)), hi: below(u, v) },
        _ => {
            let f = far(u, v, flavor);
            if f.big() > v.big() {
                MKind::Range { lo: f.clone(), hi: succ(&f).unwrap_or(f) }
            } else {
                MKind::Range { lo: below(u, &f), hi: f }
            }
        }
    }
}

fn gen_range_wide(v: &MAttr) -> MKind {
    // true but (usually) out of the range proof's domain: bounds of another length
    match v {
        MAttr::Str(_) => MKind::Range { lo: MAttr::Str(String::new()), hi: MAttr::Str("~".repeat(31)) },
        _ => MKind::Range { lo: with_num(v, 0), hi: with_num(v, u64::MAX) },
    }
}

/// A range statement about `v` (intent true / false; truth is recomputed by the oracle).
pub fn gen_range_kind(u: &mut Unstructured, v: &MAttr, flavor: Flavor, want_true: bool) -> MKind {
    if want_true {
        match gen::idx(u, 9) {
            k @ 0..=3 => gen_range_true(u, v, k),
            k @ 4..=7 => gen_range_true(u, v, k - 4),
            _ => gen_range_wide(v),
        }
    } else {
        let k = gen::idx(u, 5);
        gen_range_false(u, v, flavor, k)
    }
}

/// Generate one statement about the attribute list. `want_true` is the *intent*; the truth used by
/// the oracle is always recomputed from the model.
pub fn gen_stmt(u: &mut Unstructured, attrs: &[(u8, MAttr)], flavor: Flavor, want_true: bool) -> MStmt {
    let i = gen::idx(u, attrs.len());
    let (tag, v) = (&attrs[i].0, &attrs[i].1);
    let kind = if want_true {
        match gen::idx(u, 16) {
            0 => MKind::Reveal,
            1 => gen_range_true(u, v, 0),
            2 => gen_range_true(u, v, 1),
            3 => gen_range_true(u, v, 2),
            4 => gen_range_true(u, v, 3),
            5 => MKind::InSet(gen_set(u, v, flavor, true, true)),
            6 | 7 => MKind::InSet(gen_set(u, v, flavor, true, false)),
            8 => MKind::NotInSet(gen_set(u, v, flavor, false, false)),
            9 => MKind::NotInSet(gen_set(u, v, flavor, false, true)),
            10 | 11 => MKind::Reveal,
            12 => gen_range_true(u, v, 0),
            13 => MKind::InSet(gen_set(u, v, flavor, true, false)),
            14 => {
                if gen::idx(u, 3) == 2 {
                    MKind::NotInSet(vec![])
                } else {
                    MKind::Reveal
                }
            }
            _ => gen_range_wide(v),
        }
    } else {
        match gen::idx(u, 11) {
            k @ 0..=4 => gen_range_false(u, v, flavor, k),
            5 => MKind::InSet(gen_set(u, v, flavor, false, false)),
            6 => MKind::InSet(gen_set(u, v, flavor, false, true)),
            7 => MKind::InSet(vec![]),
            8 => MKind::NotInSet(gen_set(u, v, flavor, true, false)),
            9 => MKind::NotInSet(gen_set(u, v, flavor, true, true)),
            _ => {
                // statement about an attribute the credential does not have
                let kind = match gen::idx(u, 3) {
                    0 => MKind::Reveal,
                    1 => gen_range_true(u, v, 0),
                    _ => MKind::InSet(vec![v.clone()]),
                };
                return MStmt { tag: missing_tag(attrs), kind };
            }
        }
    };
    MStmt { tag: *tag, kind: retag_range(kind, flavor, *tag) }
}

/// Range statements are about embedded values: a numeric attribute and a timestamp with the same
/// number are the same field element, so bounds of the other numeric variant state the same thing.
/// 3 of 8 numeric range statements get a bound (or both) of the other variant; the selector is derived
/// from the bounds, no further choice bytes are consumed.
pub fn retag_range(kind: MKind, flavor: Flavor, tag: u8) -> MKind {
    fn flip(a: &MAttr) -> MAttr {
        match a {
            MAttr::Num(n) => MAttr::Ts(*n),
            MAttr::Ts(n) => MAttr::Num(*n),
            other => other.clone(),
        }
    }
    match (&kind, flavor) {
        (MKind::Range { lo: lo @ (MAttr::Num(a) | MAttr::Ts(a)), hi: hi @ (MAttr::Num(b) | MAttr::Ts(b)) }, Flavor::Web3) => {
            match (a ^ b ^ (a >> 7) ^ tag as u64) % 8 {
                0 => MKind::Range { lo: flip(lo), hi: hi.clone() },
                1 => MKind::Range { lo: lo.clone(), hi: flip(hi) },
                2 => MKind::Range { lo: flip(lo), hi: flip(hi) },
                _ => kind,
            }
        }
        _ => kind,
    }
}

pub fn to_set<A: AttrT>(s: &[MAttr]) -> BTreeSet<A> { s.iter().map(A::from_model).collect() }

pub fn to_atomic<A: AttrT, T: TagT>(s: &MStmt) -> AtomicStatement<ArCurve, T, A> {
    let attribute_tag = T::from_id(s.tag);
    match &s.kind {
        MKind::Reveal => AtomicStatement::RevealAttribute { statement: RevealAttributeStatement { attribute_tag } },
        MKind::Equals(_) => unreachable!("v0 statements have no equals"),
        MKind::Range { lo, hi } => AtomicStatement::AttributeInRange {
            statement: AttributeInRangeStatement {
                attribute_tag,
                lower: A::from_model(lo),
                upper: A::from_model(hi),
                _phantom: PhantomData,
            },
        },
        MKind::InSet(s) => AtomicStatement::AttributeInSet {
            statement: AttributeInSetStatement { attribute_tag, set: to_set(s), _phantom: PhantomData },
        },
        MKind::NotInSet(s) => AtomicStatement::AttributeNotInSet {
            statement: AttributeNotInSetStatement { attribute_tag, set: to_set(s), _phantom: PhantomData },
        },
    }
}

pub fn to_atomic_v1<A: AttrT>(s: &MStmt) -> concordium_base::web3id::v1::AtomicStatementV1<ArCurve, AttributeTag, A> {
    use concordium_base::id::id_proof_types::AttributeValueStatement;
    use concordium_base::web3id::v1::AtomicStatementV1 as S;
    let attribute_tag = AttributeTag(s.tag);
    match &s.kind {
        MKind::Reveal => unreachable!("v1 statements have no reveal"),
        MKind::Equals(x) => S::AttributeValue(AttributeValueStatement { attribute_tag, attribute_value: A::from_model(x), _phantom: PhantomData }),
        MKind::Range { lo, hi } => S::AttributeInRange(AttributeInRangeStatement {
            attribute_tag,
            lower: A::from_model(lo),
            upper: A::from_model(hi),
            _phantom: PhantomData,
        }),
        MKind::InSet(s) => S::AttributeInSet(AttributeInSetStatement { attribute_tag, set: to_set(s), _phantom: PhantomData }),
        MKind::NotInSet(s) => S::AttributeNotInSet(AttributeNotInSetStatement { attribute_tag, set: to_set(s), _phantom: PhantomData }),
    }
}

/// web3id::v1 has "equals a public value" instead of "reveal": replace each reveal statement by an
/// equals statement, mostly with the prover's value (true), sometimes with another one (false).
pub fn reveal_to_equals(u: &mut Unstructured, stmts: &mut [MStmt], attrs: &[(u8, MAttr)], flavor: Flavor) {
    for s in stmts.iter_mut() {
        if let MKind::Reveal = s.kind {
            let v = lookup(attrs, s.tag).cloned().unwrap_or(MAttr::Str("x".into()));
            let x = if gen::idx(u, 6) == 5 {
                let o = other_value(u, &v, &v, flavor);
                if o.field() == v.field() {
                    v
                } else {
                    o
                }
            } else {
                v
            };
            s.kind = MKind::Equals(x);
        }
    }
}

pub fn show_stmt(s: &MStmt) -> String {
    let set = |v: &Vec<MAttr>| v.iter().map(|e| e.show()).collect::<Vec<_>>().join(",");
    match &s.kind {
        MKind::Reveal => format!("reveal(tag {})", s.tag),
        MKind::Equals(x) => format!("tag {} == {}", s.tag, x.show()),
        MKind::Range { lo, hi } => format!("tag {} in [{}, {})", s.tag, lo.show(), hi.show()),
        MKind::InSet(v) => format!("tag {} in {{{}}}", s.tag, set(v)),
        MKind::NotInSet(v) => format!("tag {} not in {{{}}}", s.tag, set(v)),
    }
}

pub fn lookup<'a>(attrs: &'a [(u8, MAttr)], tag: u8) -> Option<&'a MAttr> {
    attrs.iter().find(|(t, _)| *t == tag).map(|(_, v)| v)
}

/// Statement sets: 1..=4 statements; `all_true` intent for the whole set, otherwise exactly one
/// statement (at a chosen position) is generated from the false variants.
pub fn gen_stmt_set(u: &mut Unstructured, attrs: &[(u8, MAttr)], flavor: Flavor, max: usize) -> Vec<MStmt> {
    let n = 1 + gen::idx(u, max);
    let all_true = gen::ratio(u, 160, 255) || false;
    let bad = if all_true { usize::MAX } else { gen::idx(u, n) };
    (0..n).map(|i| gen_stmt(u, attrs, flavor, i != bad)).collect()
}

/// A replacement value for a statement field that differs from `old` in the embedding.
pub fn other_value(u: &mut Unstructured, old: &MAttr, v: &MAttr, flavor: Flavor) -> MAttr {
    let c = match gen::idx(u, 6) {
        0 => succ(old),
        1 => Some(below(u, old)),
        2 => above(u, old),
        3 => Some(below(u, v)),
        4 => above(u, v),
        _ => Some(far(u, old, flavor)),
    };
    c.unwrap_or_else(|| far(u, old, flavor))
}

// ------------------------------------------------------------------------------------------
// Single-field perturbations of a statement list (shared by the targets)

fn padded_fields(s: &[MAttr]) -> Vec<F32> {
    // what the set proofs put into the transcript: the field elements in the order of the real
    // BTreeSet (= model order, deduplicated by model equality), padded to a power of two with the last one
    let mut sorted: Vec<&MAttr> = s.iter().collect();
    sorted.sort();
    sorted.dedup();
    let mut f: Vec<F32> = sorted.iter().map(|e| e.field()).collect();
    if let Some(last) = f.last().cloned() {
        let k = f.len().next_power_of_two();
        while f.len() < k {
            f.push(last);
        }
    }
    f
}

/// Apply one single-field perturbation to statement `i`. Returns the new list and the name of the
/// perturbation, or `None` when the drawn perturbation does not apply or would not change what the
/// statement means to the verifier (same embedded values).
pub fn perturb_stmt_field(
    u: &mut Unstructured,
    stmts: &[MStmt],
    attrs: &[(u8, MAttr)],
    flavor: Flavor,
) -> Option<(Vec<MStmt>, &'static str)> {
    let i = gen::idx(u, stmts.len());
    let mut out = stmts.to_vec();
    let s = &mut out[i];
    let v = lookup(attrs, s.tag).cloned().unwrap_or(MAttr::Str(String::new()));
    let which = match s.kind {
        MKind::Reveal => *gen::choose(u, &[0usize, 4, 5, 0]),
        MKind::Equals(_) => *gen::choose(u, &[0usize, 1, 4, 5, 1]),
        MKind::Range { .. } => *gen::choose(u, &[0usize, 1, 2, 3, 4, 5, 1, 2]),
        _ => *gen::choose(u, &[0usize, 1, 2, 3, 4, 5, 1, 3]),
    };
    let name = match (which, &mut s.kind) {
        (0, _) => {
            // attribute tag: another attribute of the credential, or one it does not have
            let old = s.tag;
            let mut cands: Vec<u8> = attrs.iter().map(|(t, _)| *t).filter(|t| *t != old).collect();
            cands.push(missing_tag(attrs));
            s.tag = *gen::choose(u, &cands);
            if s.tag == old {
                return None;
            }
            "stmt:tag"
        }
        (1, MKind::Equals(x)) => {
            let n = other_value(u, x, &v, flavor);
            if n.field() == x.field() {
                return None;
            }
            *x = n;
            "stmt:equals-value"
        }
        (4, MKind::Equals(x)) => {
            let x = x.clone();
            s.kind = MKind::InSet(vec![x]);
            "stmt:kind"
        }
        (1, MKind::Range { lo, .. }) => {
            let n = other_value(u, lo, &v, flavor);
            if n.field() == lo.field() {
                return None;
            }
            *lo = n;
            "stmt:range-lower"
        }
        (2, MKind::Range { hi, .. }) => {
            let n = other_value(u, hi, &v, flavor);
            if n.field() == hi.field() {
                return None;
            }
            *hi = n;
            "stmt:range-upper"
        }
        (3, MKind::Range { lo, hi }) => {
            // shift both bounds by the same neighbour step
            let (a, b) = (succ(lo)?, succ(hi)?);
            *lo = a;
            *hi = b;
            "stmt:range-shift"
        }
        (1..=3, MKind::InSet(set)) | (1..=3, MKind::NotInSet(set)) => {
            let before = padded_fields(set);
            let name = match which {
                1 => {
                    let e = match gen::idx(u, 3) {
                        0 => gen_attr(u, flavor),
                        1 => succ(&v).unwrap_or_else(|| far(u, &v, flavor)),
                        _ => far(u, &v, flavor),
                    };
                    set.push(e);
                    "stmt:set-add"
                }
                2 => {
                    if set.is_empty() {
                        return None;
                    }
                    let k = gen::idx(u, set.len());
                    set.remove(k);
                    "stmt:set-remove"
                }
                _ => {
                    if set.is_empty() {
                        return None;
                    }
                    let k = gen::idx(u, set.len());
                    let e = other_value(u, &set[k].clone(), &v, flavor);
                    set[k] = e;
                    "stmt:set-replace"
                }
            };
            if padded_fields(set) == before {
                return None;
            }
            name
        }
        (4, MKind::InSet(set)) => {
            let set = std::mem::take(set);
            s.kind = MKind::NotInSet(set);
            "stmt:kind"
        }
        (4, MKind::NotInSet(set)) => {
            let set = std::mem::take(set);
            s.kind = MKind::InSet(set);
            "stmt:kind"
        }
        (4, MKind::Reveal) => {
            s.kind = MKind::InSet(vec![v.clone()]);
            "stmt:kind"
        }
        (4, MKind::Range { lo, .. }) => {
            let lo = lo.clone();
            s.kind = MKind::InSet(vec![lo]);
            "stmt:kind"
        }
        (5, _) => {
            // structure of the list: drop / duplicate / swap two different statements
            match gen::idx(u, 3) {
                0 => {
                    out.remove(i);
                    "stmt:drop"
                }
                1 => {
                    let d = out[i].clone();
                    out.insert(i, d);
                    "stmt:dup"
                }
                _ => {
                    let j = gen::idx(u, out.len());
                    if out[i] == out[j] {
                        return None;
                    }
                    out.swap(i, j);
                    "stmt:swap"
                }
            }
        }
        _ => return None,
    };
    Some((out, name))
}

// ------------------------------------------------------------------------------------------
// Known finding F-C18-1: "attribute not in {}" (empty set) is true, but no proof can be produced
// (set_non_membership_proof::prove hands an empty vector to the inner-product argument, which
// refuses lengths that are not a power of two). The unchanged oracle reports such cases with the
// signature `completeness-prove:not-in-empty-set`, which is listed as an open finding in
// /verif/known_findings.jsonl (the engine prints KNOWN-FINDING, counts the hits and continues).
// C18_INCLUDE_KNOWN=0 excludes these cases by construction instead (counted).

pub const F1_SIGNATURE: &str = "completeness-prove:not-in-empty-set";

pub fn has_f1(stmts: &[MStmt], attrs: &[(u8, MAttr)]) -> bool {
    stmts.iter().any(|s| matches!(&s.kind, MKind::NotInSet(v) if v.is_empty()) && lookup(attrs, s.tag).is_some())
}

pub fn include_known() -> bool {
    static V: std::sync::OnceLock<bool> = std::sync::OnceLock::new();
    *V.get_or_init(|| std::env::var("C18_INCLUDE_KNOWN").map(|v| v != "0").unwrap_or(true))
}

/// Returns true when the case has to be skipped because of F-C18-1.
pub fn exclude_f1(ctx: &mut vcore::Ctx, stmts: &[MStmt], attrs: &[(u8, MAttr)]) -> bool {
    if has_f1(stmts, attrs) {
        ctx.class("excluded:F-C18-1(not-in-empty-set)");
        !include_known()
    } else {
        false
    }
}
