//! Phase 1b: `prove_attribute_in_range` / `verify_attribute_range` called directly, with the RNG
//! of the case (fully deterministic), over `Web3IdAttribute` values including the u64 extremes.
use crate::model::*;
use crate::t_stmt::{commit, global};
use concordium_base::{
    id::{
        constants::ArCurve,
        id_proof_types::ProofVersion,
        id_prover::prove_attribute_in_range,
        id_verifier::{verify_attribute, verify_attribute_range},
    },
    pedersen_commitment::Randomness,
    random_oracle::RandomOracle,
    web3id::Web3IdAttribute,
};
use vcore::{gen, vensure, CheckResult, Ctx, Unstructured, Violation};

#[allow(deprecated)]
fn transcript(ctx_bytes: &[u8]) -> RandomOracle {
    let mut t = RandomOracle::domain("c18-range");
    t.add_bytes(ctx_bytes);
    t
}

pub fn t_range_direct(data: &[u8], ctx: &mut Ctx) -> CheckResult {
    let mut u = Unstructured::new(data);
    let u = &mut u;
    let version = if gen::idx(u, 3) == 2 { ProofVersion::Version1 } else { ProofVersion::Version2 };
    let v = gen_attr(u, Flavor::Web3);
    let want_true = gen::idx(u, 3) != 2;
    let kind = retag_range(gen_range_kind(u, &v, Flavor::Web3, want_true), Flavor::Web3, 0);
    let MKind::Range { lo, hi } = kind.clone() else { unreachable!() };
    let tctx = gen::short_bytes(u, 16);
    let mut rng = gen::rng(u);
    let g = global();
    let keys = &g.on_chain_commitment_key;
    let gens = g.bulletproof_generators();
    let r = Randomness::<ArCurve>::generate(&mut rng);
    let c = commit(&v, &r);
    let (a, l, h) = (Web3IdAttribute::from_model(&v), Web3IdAttribute::from_model(&lo), Web3IdAttribute::from_model(&hi));
    for (m, x) in [(&v, &a), (&lo, &l), (&hi, &h)] {
        vensure!(x.field_of() == m.field(), "model-embedding", "to_field_element({}) differs from the documented embedding", m.show());
    }
    vensure!(verify_attribute(keys, &a, &r, &c), "verify-attribute", "commitment to {} does not open with verify_attribute", v.show());

    let t = truth(Some(&v), &kind);
    let desc = format!("{:?} value {} in [{}, {}) => {:?}", version, v.show(), lo.show(), hi.show(), t);
    ctx.class(match t {
        Truth::True => "true",
        Truth::TrueOutOfDomain => "true-out-of-domain",
        Truth::False => "false",
    });
    ctx.class(if version == ProofVersion::Version1 { "version1" } else { "version2" });
    ctx.class(match v {
        MAttr::Str(_) => "value:string",
        MAttr::Num(_) => "value:numeric",
        MAttr::Ts(_) => "value:timestamp",
    });
    if let Some(b) = boundary_class(Some(&v), &kind) {
        ctx.class(b);
        ctx.class("boundary-statement");
        ctx.nontrivial(&(version == ProofVersion::Version1, &v, &lo, &hi));
    }
    ctx.sample(|| desc.clone());
    ctx.describe(|| desc.clone());

    let proof = prove_attribute_in_range(version, &mut transcript(&tctx), &mut rng, gens, keys, &a, &l, &h, &r);
    let ok = match &proof {
        Some(p) => verify_attribute_range(version, &mut transcript(&tctx), keys, gens, &l, &h, &c, p).is_ok(),
        None => false,
    };
    match t {
        Truth::True => {
            vensure!(proof.is_some(), "completeness-prove", "no range proof for a true statement: {}", desc);
            vensure!(ok, "completeness-verify", "honest range proof rejected: {}", desc);
        }
        Truth::False => {
            if ok {
                return Err(Violation::new("soundness-false-statement", format!("range proof for a false statement verifies: {}", desc))
                    .with_signature("soundness-false-statement:range"));
            }
        }
        Truth::TrueOutOfDomain => ctx.class(if ok { "out-of-domain:accepted" } else { "out-of-domain:rejected" }),
    }
    if !ok {
        return Ok(());
    }
    let proof = proof.unwrap();
    // perturbations: bounds, commitment, transcript context (version 2 only)
    let n = 3 + gen::idx(u, 4);
    for _ in 0..n {
        let (mut l2, mut h2, mut c2, mut t2) = (lo.clone(), hi.clone(), c, tctx.clone());
        let name = match gen::idx(u, 6) {
            0 => {
                l2 = other_value(u, &lo, &v, Flavor::Web3);
                "lower"
            }
            1 => {
                h2 = other_value(u, &hi, &v, Flavor::Web3);
                "upper"
            }
            2 => match (succ(&lo), succ(&hi)) {
                (Some(x), Some(y)) => {
                    l2 = x;
                    h2 = y;
                    "shift"
                }
                _ => continue,
            },
            3 => {
                let o = other_value(u, &v, &v, Flavor::Web3);
                c2 = commit(&o, &r);
                if o.field() == v.field() {
                    continue;
                }
                "commitment:other-value"
            }
            4 => {
                c2 = commit(&v, &Randomness::<ArCurve>::generate(&mut rng));
                "commitment:other-randomness"
            }
            _ => {
                if version == ProofVersion::Version1 {
                    ctx.class("perturb:v1-context(no claim)");
                    continue;
                }
                t2.push(1);
                "transcript-context"
            }
        };
        if l2.field() == lo.field() && h2.field() == hi.field() && c2 == c && t2 == tctx {
            ctx.class("perturb:noop");
            continue;
        }
        let (l2a, h2a) = (Web3IdAttribute::from_model(&l2), Web3IdAttribute::from_model(&h2));
        let still = verify_attribute_range(version, &mut transcript(&t2), keys, gens, &l2a, &h2a, &c2, &proof).is_ok();
        ctx.class_n(&format!("perturb:{}", name), 1);
        ctx.class_n("perturbations-verified", 1);
        if still {
            return Err(Violation::new(
                "binding",
                format!("range proof still verifies after perturbation `{}` -> [{}, {}): {}", name, l2.show(), h2.show(), desc),
            )
            .with_signature(format!("binding:range-direct:{}:{:?}", name, version)));
        }
    }
    Ok(())
}
