//! Phase 3: web3id::v1 `RequestV1::prove_with_rng` / `PresentationV1::verify` over account based and
//! identity based credentials, and `verify_presentation_with_request_anchor`.
use crate::model::*;
use crate::t_stmt::{commit, global};
use crate::t_web3::{classify_stmts, cred_id, expectation, gen_cred, network, show_cred, Expect, MCred};
use concordium_base::{
    common::{from_bytes, to_bytes},
    hashes,
    id::{
        constants::{ArCurve, IpPairing},
        identity_provider::sign_identity_object_v1_with_rng,
        test as idtest,
        types::{
            ArIdentity, ArInfo, ArInfos, AttributeList, AttributeTag, CredentialValidity, GlobalContext, IdObjectUseData,
            IdentityAttribute, IdentityObjectV1, IpData, IpIdentity, IpInfo, PreIdentityObjectV1, YearMonth,
        },
    },
    pedersen_commitment::{Commitment, Randomness},
    web3id::{
        did::Network,
        v1::{
            anchor::{
                verify_presentation_with_request_anchor, ContextLabel, CredentialValidityType, IdentityCredentialType,
                IdentityProviderDid, LabeledContextProperty, Nonce, PresentationVerificationResult, RequestedIdentitySubjectClaims,
                RequestedStatement, RequestedSubjectClaims, UnfilledContextInformation, VerificationContext,
                VerificationMaterialWithValidity, VerificationRequest, VerificationRequestAnchorAndBlockHash, VerificationRequestData,
            },
            AccountBasedSubjectClaims, AccountCredentialProofPrivateInputs, AccountCredentialVerificationMaterial, AtomicProofV1,
            AtomicStatementV1, ContextInformation, ContextProperty, CredentialProofPrivateInputs, CredentialV1,
            CredentialVerificationMaterial, IdentityBasedSubjectClaims, IdentityCredentialProofPrivateInputs,
            IdentityCredentialVerificationMaterial, PresentationV1, RequestV1, SubjectClaims,
        },
        Web3IdAttribute,
    },
};
use rand::SeedableRng;
use std::collections::BTreeMap;
use vcore::{gen, vensure, CheckResult, Ctx, Unstructured, Violation};

type Pres = PresentationV1<IpPairing, ArCurve, Web3IdAttribute>;
type Req = RequestV1<ArCurve, Web3IdAttribute>;
type Material = CredentialVerificationMaterial<IpPairing, ArCurve>;

/// The part of the identity pipeline that does not depend on the attribute list: identity
/// provider keys, anonymity revokers, the holder's secrets and the pre-identity object.
pub struct IdFixture {
    pub ip_info:      IpInfo<IpPairing>,
    pub ip_secret:    concordium_base::ps_sig::SecretKey<IpPairing>,
    pub ars:          BTreeMap<ArIdentity, ArInfo<ArCurve>>,
    pub use_data:     IdObjectUseData<IpPairing, ArCurve>,
    pub pio:          PreIdentityObjectV1<IpPairing, ArCurve>,
    /// A second identity provider / anonymity revoker set (for perturbing the verification material).
    pub other_ip:     IpInfo<IpPairing>,
    pub other_ars:    BTreeMap<ArIdentity, ArInfo<ArCurve>>,
}

const CONFIGS: [(u8, u32); 2] = [(1, 0), (3, 7)];

pub fn id_fixture(cfg: usize) -> &'static IdFixture {
    // The holder's secrets are `Rc` based (not `Sync`): one deterministic copy per shard thread.
    thread_local! {
        static F: [std::cell::OnceCell<&'static IdFixture>; 2] = const { [std::cell::OnceCell::new(), std::cell::OnceCell::new()] };
    }
    F.with(|f| *f[cfg].get_or_init(|| Box::leak(Box::new(make_fixture(cfg)))))
}

fn make_fixture(cfg: usize) -> IdFixture {
    let (num_ars, ip_identity) = CONFIGS[cfg];
    let g = global();
    let mut rng = rand_chacha::ChaCha20Rng::seed_from_u64(0xC18 + cfg as u64);
    let IpData { public_ip_info: mut ip_info, ip_secret_key, .. } = idtest::test_create_ip_info(&mut rng, num_ars, 10);
    ip_info.ip_identity = IpIdentity(ip_identity);
    let (ars, _) = idtest::test_create_ars(&g.on_chain_commitment_key.g, num_ars, &mut rng);
    let use_data = idtest::test_create_id_use_data(&mut rng);
    let (_, pio, _) = idtest::test_create_pio_v1(&use_data, &ip_info, &ars, g, num_ars, &mut rng);
    let IpData { public_ip_info: mut other_ip, .. } = idtest::test_create_ip_info(&mut rng, num_ars, 10);
    other_ip.ip_identity = IpIdentity(ip_identity);
    let (other_ars, _) = idtest::test_create_ars(&g.on_chain_commitment_key.g, num_ars, &mut rng);
    IdFixture { ip_info, ip_secret: ip_secret_key, ars, use_data, pio, other_ip, other_ars }
}

#[derive(Clone, Debug, Hash)]
struct V1Cred {
    identity: bool,
    cfg:      usize,
    /// validity of the identity credential: (created year, month), (valid-to year, month)
    created:  (u16, u8),
    valid_to: (u16, u8),
    m:        MCred,
}

fn ym(p: (u16, u8)) -> YearMonth { YearMonth::new(p.0, p.1).expect("valid year/month") }

fn gen_v1_cred(u: &mut Unstructured) -> V1Cred {
    let identity = gen::boolean(u);
    let cfg = gen::idx(u, 2);
    let mut m = gen_cred(u, false, Flavor::Web3);
    if m.stmts.is_empty() {
        // an account based credential without statements carries no proof at all
        m.stmts = vec![MStmt { tag: m.claimed[0].0, kind: MKind::Reveal }];
    }
    reveal_to_equals(u, &mut m.stmts, &m.claimed, Flavor::Web3);
    if identity {
        m.issuer = CONFIGS[cfg].1;
    }
    let cy = 2000 + gen::range_u64(u, 0, 30) as u16;
    let cm = 1 + gen::idx(u, 12) as u8;
    let vy = cy + gen::range_u64(u, 0, 10) as u16;
    let vm = if vy == cy { cm + gen::idx(u, (13 - cm) as usize) as u8 } else { 1 + gen::idx(u, 12) as u8 };
    V1Cred { identity, cfg, created: (cy, cm), valid_to: (vy, vm), m }
}

struct Built {
    claims:   SubjectClaims<ArCurve, Web3IdAttribute>,
    material: Material,
    // account
    values:   BTreeMap<AttributeTag, Web3IdAttribute>,
    rand:     BTreeMap<AttributeTag, Randomness<ArCurve>>,
    // identity
    id_obj:   Option<IdentityObjectV1<IpPairing, ArCurve, Web3IdAttribute>>,
}

fn alist(c: &V1Cred, attrs: &[(u8, MAttr)]) -> AttributeList<Scalar, Web3IdAttribute> {
    AttributeList {
        valid_to:     ym(c.valid_to),
        created_at:   ym(c.created),
        max_accounts: 237,
        alist:        attrs.iter().map(|(t, m)| (AttributeTag(*t), Web3IdAttribute::from_model(m))).collect(),
        _phantom:     Default::default(),
    }
}

fn build(c: &V1Cred, rng: &mut rand_chacha::ChaCha20Rng) -> Result<Built, Violation> {
    for (_, m) in c.m.claimed.iter().chain(&c.m.committed) {
        let a = Web3IdAttribute::from_model(m);
        vensure!(a.field_of() == m.field(), "model-embedding", "to_field_element({}) differs from the documented embedding", m.show());
    }
    let statements: Vec<AtomicStatementV1<ArCurve, AttributeTag, Web3IdAttribute>> = c.m.stmts.iter().map(to_atomic_v1::<Web3IdAttribute>).collect();
    if !c.identity {
        let mut values = BTreeMap::new();
        let mut rand = BTreeMap::new();
        let mut commitments = BTreeMap::new();
        for ((tag, cl), (_, co)) in c.m.claimed.iter().zip(&c.m.committed) {
            let r = Randomness::<ArCurve>::generate(rng);
            commitments.insert(AttributeTag(*tag), commit(co, &r));
            values.insert(AttributeTag(*tag), Web3IdAttribute::from_model(cl));
            rand.insert(AttributeTag(*tag), r);
        }
        Ok(Built {
            claims: SubjectClaims::Account(AccountBasedSubjectClaims {
                network: network(c.m.mainnet),
                issuer: IpIdentity(c.m.issuer),
                cred_id: cred_id(c.m.cred_exp),
                statements,
            }),
            material: CredentialVerificationMaterial::Account(AccountCredentialVerificationMaterial {
                issuer: IpIdentity(c.m.issuer),
                attribute_commitments: commitments,
            }),
            values,
            rand,
            id_obj: None,
        })
    } else {
        let f = id_fixture(c.cfg);
        // the identity provider signs the attribute list it issued (`committed`); a lying holder
        // then presents an identity object with other values (`claimed`)
        let signature = sign_identity_object_v1_with_rng(&f.pio, &f.ip_info, &alist(c, &c.m.committed), &f.ip_secret, rng)
            .map_err(|e| Violation::new("harness-sign-identity-object", format!("identity provider refuses to sign: {:?}", e)))?;
        let id_obj = IdentityObjectV1 { pre_identity_object: f.pio.clone(), alist: alist(c, &c.m.claimed), signature };
        Ok(Built {
            claims: SubjectClaims::Identity(IdentityBasedSubjectClaims { network: network(c.m.mainnet), issuer: f.ip_info.ip_identity, statements }),
            material: CredentialVerificationMaterial::Identity(IdentityCredentialVerificationMaterial {
                ip_info:   f.ip_info.clone(),
                ars_infos: ArInfos { anonymity_revokers: f.ars.clone() },
            }),
            values: BTreeMap::new(),
            rand: BTreeMap::new(),
            id_obj: Some(id_obj),
        })
    }
}

fn private<'a>(c: &V1Cred, b: &'a Built) -> CredentialProofPrivateInputs<'a, IpPairing, ArCurve, Web3IdAttribute> {
    match &b.id_obj {
        None => CredentialProofPrivateInputs::Account(AccountCredentialProofPrivateInputs {
            issuer:               IpIdentity(c.m.issuer),
            attribute_values:     &b.values,
            attribute_randomness: &b.rand,
        }),
        Some(o) => {
            let f = id_fixture(c.cfg);
            CredentialProofPrivateInputs::Identity(IdentityCredentialProofPrivateInputs {
                ip_context:         concordium_base::id::types::IpContextOnly { ip_info: &f.ip_info, ars_infos: &f.ars },
                id_object:          o,
                id_object_use_data: &f.use_data,
            })
        }
    }
}

// ---- context ---------------------------------------------------------------------------------

#[derive(Clone, Debug, Hash)]
struct MContext {
    nonce:      [u8; 32],
    connection: Option<String>,
    resource:   Option<String>,
    ctx_string: Option<String>,
    payment:    Option<[u8; 32]>,
    block_hash: [u8; 32],
    /// extra requested properties besides the block hash
    req_extra:  Option<String>,
}

fn gen_text(u: &mut Unstructured) -> String {
    const T: [&str; 6] = ["", "wc:topic:1", "https://example.com/a?b=c", "ä 🙂", "0", "a much longer piece of context text, with punctuation."];
    T[gen::idx(u, 6)].to_string()
}

fn gen_context(u: &mut Unstructured) -> MContext {
    MContext {
        nonce:      gen::array(u),
        connection: if gen::boolean(u) { Some(gen_text(u)) } else { None },
        resource:   if gen::boolean(u) { Some(gen_text(u)) } else { None },
        ctx_string: if gen::idx(u, 4) == 3 { Some(gen_text(u)) } else { None },
        payment:    if gen::idx(u, 4) == 3 { Some(gen::array(u)) } else { None },
        block_hash: gen::array(u),
        req_extra:  if gen::idx(u, 4) == 3 { Some(gen_text(u)) } else { None },
    }
}

fn unfilled(c: &MContext) -> UnfilledContextInformation {
    let mut given = vec![LabeledContextProperty::Nonce(Nonce(c.nonce))];
    if let Some(p) = c.payment {
        given.push(LabeledContextProperty::PaymentHash(hashes::HashBytes::new(p)));
    }
    if let Some(s) = &c.connection {
        given.push(LabeledContextProperty::ConnectionId(s.clone()));
    }
    if let Some(s) = &c.resource {
        given.push(LabeledContextProperty::ResourceId(s.clone()));
    }
    if let Some(s) = &c.ctx_string {
        given.push(LabeledContextProperty::ContextString(s.clone()));
    }
    let mut requested = vec![ContextLabel::BlockHash];
    if c.req_extra.is_some() {
        requested.push(ContextLabel::ResourceId);
    }
    UnfilledContextInformation { given, requested }
}

fn filled(c: &MContext) -> ContextInformation {
    let un = unfilled(c);
    let mut requested = vec![LabeledContextProperty::BlockHash(hashes::HashBytes::new(c.block_hash)).to_context_property()];
    if let Some(s) = &c.req_extra {
        requested.push(LabeledContextProperty::ResourceId(s.clone()).to_context_property());
    }
    ContextInformation { given: un.given.iter().map(|p| p.to_context_property()).collect(), requested }
}

fn requested_statement(s: &AtomicStatementV1<ArCurve, AttributeTag, Web3IdAttribute>) -> RequestedStatement<AttributeTag> {
    use concordium_base::id::id_proof_types::RevealAttributeStatement;
    match s {
        AtomicStatementV1::AttributeValue(x) => RequestedStatement::RevealAttribute(RevealAttributeStatement { attribute_tag: x.attribute_tag }),
        AtomicStatementV1::AttributeInRange(x) => RequestedStatement::AttributeInRange(x.clone()),
        AtomicStatementV1::AttributeInSet(x) => RequestedStatement::AttributeInSet(x.clone()),
        AtomicStatementV1::AttributeNotInSet(x) => RequestedStatement::AttributeNotInSet(x.clone()),
    }
}

fn claims_parts(c: &SubjectClaims<ArCurve, Web3IdAttribute>) -> (Network, IpIdentity, &Vec<AtomicStatementV1<ArCurve, AttributeTag, Web3IdAttribute>>, bool) {
    match c {
        SubjectClaims::Account(a) => (a.network, a.issuer, &a.statements, false),
        SubjectClaims::Identity(i) => (i.network, i.issuer, &i.statements, true),
    }
}

fn statements_mut(c: &mut CredentialV1<IpPairing, ArCurve, Web3IdAttribute>) -> &mut Vec<AtomicStatementV1<ArCurve, AttributeTag, Web3IdAttribute>> {
    match c {
        CredentialV1::Account(a) => &mut a.subject.statements,
        CredentialV1::Identity(i) => &mut i.subject.statements,
    }
}

fn proofs_mut(c: &mut CredentialV1<IpPairing, ArCurve, Web3IdAttribute>) -> &mut Vec<AtomicProofV1<ArCurve>> {
    match c {
        CredentialV1::Account(a) => &mut a.proof.proof_value.statement_proofs,
        CredentialV1::Identity(i) => &mut i.proof.proof_value.statement_proofs,
    }
}

fn rejected(r: &Result<Req, concordium_base::web3id::v1::VerifyError>, original: &Req, must_err: bool) -> bool {
    match r {
        Err(_) => true,
        Ok(q) => !must_err && q != original,
    }
}

pub fn t_v1_presentation(data: &[u8], ctx: &mut Ctx) -> CheckResult {
    let mut u = Unstructured::new(data);
    let u = &mut u;
    let n = 1 + gen::idx(u, 2);
    let creds: Vec<V1Cred> = (0..n).map(|_| gen_v1_cred(u)).collect();
    let mctx = gen_context(u);
    let now_ms: i64 = 1_600_000_000_000 + gen::range_u64(u, 0, 200_000_000_000) as i64;
    let now = chrono::DateTime::<chrono::Utc>::from_timestamp_millis(now_ms).expect("in range");
    let mut rng = gen::rng(u);
    let g = global();

    let mut f1 = false;
    for c in &creds {
        f1 |= exclude_f1(ctx, &c.m.stmts, &c.m.committed);
    }
    if f1 {
        return Ok(());
    }
    let has_f1_stmt = creds.iter().any(|c| has_f1(&c.m.stmts, &c.m.committed));

    let built: Vec<Built> = creds.iter().map(|c| build(c, &mut rng)).collect::<Result<_, _>>()?;
    let request = Req { context: filled(&mctx), subject_claims: built.iter().map(|b| b.claims.clone()).collect() };
    let materials: Vec<Material> = built.iter().map(|b| b.material.clone()).collect();

    // ---- classification ------------------------------------------------------------------------
    // an identity credential with a wrong attribute list never verifies (the signature of the
    // identity provider does not fit), whatever the statements are about
    let exps: Vec<Expect> = creds
        .iter()
        .map(|c| if c.identity && c.m.lie.is_some() { Expect::MustReject } else { expectation(&c.m, false) })
        .collect();
    let expect = if exps.iter().any(|e| *e == Expect::MustReject) {
        Expect::MustReject
    } else if exps.iter().any(|e| *e == Expect::NoClaim) {
        Expect::NoClaim
    } else {
        Expect::AllTrue
    };
    let mut boundary = false;
    for c in &creds {
        ctx.class(if c.identity { "credential:identity" } else { "credential:account" });
        boundary |= classify_stmts(ctx, &c.m);
        for s in &c.m.stmts {
            if let MKind::Equals(x) = &s.kind {
                let t = lookup(&c.m.committed, s.tag).map(|v| v.field() == x.field()).unwrap_or(false);
                ctx.class_n(if t { "equals:true" } else { "equals:false" }, 1);
            }
        }
    }
    ctx.class(match expect {
        Expect::AllTrue => "all-true",
        Expect::MustReject => "some-false-or-lying",
        Expect::NoClaim => "true-out-of-domain",
    });
    if boundary {
        ctx.class("boundary-statement");
        ctx.nontrivial(&(&creds, &mctx, now_ms));
    }
    let show = || {
        let mut s = format!("context={:?} now={} ", mctx, now_ms);
        for (i, c) in creds.iter().enumerate() {
            s.push_str(&format!(
                "| #{} {} {}",
                i,
                if c.identity { format!("IDENTITY based (config {}, validity {:?}..{:?})", c.cfg, c.created, c.valid_to) } else { "ACCOUNT based".to_string() },
                show_cred(&c.m)
            ));
        }
        s
    };
    ctx.sample(show);
    ctx.describe(show);

    // ---- prove / verify ------------------------------------------------------------------------
    let privs: Vec<_> = creds.iter().zip(&built).map(|(c, b)| private(c, b)).collect();
    let proved = request.clone().prove_with_rng(g, privs.into_iter(), &mut rng, now);
    let verified = proved.as_ref().ok().map(|p| p.verify(g, materials.iter()));
    let accepted = matches!(&verified, Some(Ok(_)));
    match expect {
        Expect::AllTrue => {
            if let Err(e) = &proved {
                return Err(Violation::new("completeness-prove", format!("prove failed ({}) for all-true statements: {}", e, show()))
                    .with_signature(if has_f1_stmt { F1_SIGNATURE } else { "completeness-prove" }));
            }
            match verified.as_ref().unwrap() {
                Ok(r) => vensure!(*r == request, "verify-returns-request", "verify returned a request different from the proved one: {}", show()),
                Err(e) => vcore::vfail!("completeness-verify", "honest presentation rejected ({}): {}", e, show()),
            }
        }
        Expect::MustReject => {
            ctx.class(if proved.is_err() { "false:prover-refuses" } else { "false:presentation-produced" });
            if accepted {
                return Err(Violation::new("soundness-false-statement", format!("presentation with a false statement / wrong value verifies: {}", show()))
                    .with_signature("soundness-false-statement:web3id-v1"));
            }
        }
        Expect::NoClaim => ctx.class(if accepted { "out-of-domain:accepted" } else { "out-of-domain:rejected" }),
    }
    if !accepted {
        return Ok(());
    }
    let pres: Pres = proved.unwrap();

    // ---- revealed identity attributes are the issued ones ------------------------------------------
    for (c, cr) in creds.iter().zip(&pres.verifiable_credentials) {
        if let CredentialV1::Identity(i) = cr {
            for (tag, a) in &i.proof.proof_value.identity_attributes {
                if let IdentityAttribute::Revealed(x) = a {
                    let want = lookup(&c.m.committed, tag.0);
                    vensure!(want.map(Web3IdAttribute::from_model).as_ref() == Some(x), "reveal-value", "revealed identity attribute {:?}={:?} is not the issued one ({:?})", tag, x, want);
                    ctx.class("revealed-value-checked");
                }
            }
            vensure!(
                i.validity == CredentialValidity { created_at: ym(c.created), valid_to: ym(c.valid_to) },
                "reveal-value",
                "validity in the credential is not the validity of the identity object"
            );
        }
    }

    // ---- serialization round trip of the presentation (needed for the bit flips) -------------------
    let bytes = to_bytes(&pres);
    let back: Option<Pres> = from_bytes(&mut std::io::Cursor::new(&bytes)).ok();
    let binary_ok = back.as_ref() == Some(&pres);
    ctx.class(if binary_ok { "binary-roundtrip-ok" } else { "binary-roundtrip-unavailable" });

    // ---- anchored verification (happy path) ---------------------------------------------------------
    let net = network(creds[0].m.mainnet);
    let same_network = creds.iter().all(|c| c.m.mainnet == creds[0].m.mainnet);
    let vreq_of = |req: &Req, un: &UnfilledContextInformation| -> VerificationRequest {
        let subject_claims = req
            .subject_claims
            .iter()
            .enumerate()
            .map(|(ci, c)| {
                let (nw, issuer, stmts, identity) = claims_parts(c);
                // allowed issuers: the credential's (identity provider, network) pair among decoys that share
                // only the provider or only the network with it (selector: a nonce byte, so that no further
                // choice bytes are consumed)
                let sel = mctx.nonce[ci % 32];
                let other = match nw {
                    Network::Mainnet => Network::Testnet,
                    Network::Testnet => Network::Mainnet,
                };
                let mut issuers = Vec::new();
                if sel & 1 != 0 {
                    issuers.push(IdentityProviderDid::new(issuer.0, other));
                }
                if sel & 2 != 0 {
                    issuers.push(IdentityProviderDid::new(issuer.0.wrapping_add(1), nw));
                }
                if sel & 4 != 0 {
                    issuers.push(IdentityProviderDid::new(issuer.0.wrapping_add(1), other));
                }
                let at = (sel >> 3) as usize % (issuers.len() + 1);
                issuers.insert(at, IdentityProviderDid::new(issuer.0, nw));
                RequestedSubjectClaims::Identity(RequestedIdentitySubjectClaims {
                    statements: stmts.iter().map(requested_statement).collect(),
                    issuers,
                    source:     vec![if identity { IdentityCredentialType::IdentityCredential } else { IdentityCredentialType::AccountCredential }],
                })
            })
            .collect();
        VerificationRequest { context: un.clone(), subject_claims, anchor_transaction_hash: hashes::HashBytes::new([9u8; 32]) }
    };
    let anchor_of = |vr: &VerificationRequest, block: [u8; 32]| VerificationRequestAnchorAndBlockHash {
        verification_request_anchor: VerificationRequestData { context: vr.context.clone(), subject_claims: vr.subject_claims.clone() }.to_anchor(None),
        block_hash:                  hashes::HashBytes::new(block),
    };
    // every credential is valid at `vtime`: the latest creation month and the earliest expiry
    let validity_of = |c: &V1Cred| CredentialValidity { created_at: ym(c.created), valid_to: ym(c.valid_to) };
    let lower = creds.iter().map(|c| ym(c.created).lower().unwrap()).max().unwrap();
    let upper = creds.iter().map(|c| ym(c.valid_to).upper().unwrap()).min().unwrap();
    let mats_v: Vec<VerificationMaterialWithValidity> = creds
        .iter()
        .zip(&materials)
        .map(|(c, m)| VerificationMaterialWithValidity { verification_material: m.clone(), validity: CredentialValidityType::ValidityPeriod(validity_of(c)) })
        .collect();
    let vreq = vreq_of(&request, &unfilled(&mctx));
    let anchor = anchor_of(&vreq, mctx.block_hash);
    let anchored_applicable = same_network && lower < upper;
    // first or last instant at which every credential is valid
    let vtime = if gen::boolean(u) { lower } else { upper - chrono::Duration::try_milliseconds(1).unwrap() };
    if anchored_applicable {
        let vctx = VerificationContext { network: net, validity_time: vtime };
        let r = verify_presentation_with_request_anchor(g, &vctx, &vreq, &pres, &anchor, &mats_v);
        vensure!(r.is_success(), "anchored-completeness", "anchored verification of an honest presentation failed with {:?}: {}", r, show());
        ctx.class("anchored:verified");
    } else {
        ctx.class("anchored:not-applicable(mixed networks or disjoint validity)");
    }

    // ---- perturbations --------------------------------------------------------------------------
    // kinds of perturbation are visited round-robin from a drawn start (see t_stmt.rs)
    let n_pert = 8 + gen::idx(u, 9);
    let start = gen::idx(u, 16);
    for j in 0..n_pert {
        let mut alt = pres.clone();
        let mut alt_mats = materials.clone();
        let mut alt_global: Option<GlobalContext<ArCurve>> = None;
        let k = gen::idx(u, creds.len());
        let c = &creds[k];
        let mut must_err = true;
        let name: &'static str = match (start + j) % 16 {
            0 => {
                // context
                let ci = &mut alt.presentation_context;
                match gen::idx(u, 6) {
                    0 => {
                        let mut b = mctx.nonce;
                        b[gen::idx(u, 32)] ^= 1 << (gen::byte(u) % 8);
                        ci.given[0] = LabeledContextProperty::Nonce(Nonce(b)).to_context_property();
                        "context:nonce"
                    }
                    1 => {
                        let mut b = mctx.block_hash;
                        b[gen::idx(u, 32)] ^= 1 << (gen::byte(u) % 8);
                        ci.requested[0] = LabeledContextProperty::BlockHash(hashes::HashBytes::new(b)).to_context_property();
                        "context:block-hash"
                    }
                    2 => {
                        let i = gen::idx(u, ci.given.len());
                        ci.given[i].label.push('x');
                        "context:label"
                    }
                    3 => {
                        ci.given.push(ContextProperty { label: "ContextString".into(), context: "extra".into() });
                        "context:extra-property"
                    }
                    4 => {
                        let p = ci.given.pop().unwrap();
                        ci.requested.push(p);
                        "context:given-moved-to-requested"
                    }
                    _ => {
                        let i = gen::idx(u, ci.given.len());
                        ci.given[i].context.push('0');
                        "context:value"
                    }
                }
            }
            1 => {
                let mut g2 = g.clone();
                g2.genesis_string.push('x');
                alt_global = Some(g2);
                "global-context:genesis-string"
            }
            2 | 3 | 4 => {
                let Some((ns, name)) = perturb_stmt_field(u, &c.m.stmts, &c.m.committed, Flavor::Web3) else {
                    ctx.class("perturb:noop");
                    continue;
                };
                if ns.iter().any(|s| matches!(s.kind, MKind::Reveal)) {
                    ctx.class("perturb:noop");
                    continue;
                }
                *statements_mut(&mut alt.verifiable_credentials[k]) = ns.iter().map(to_atomic_v1::<Web3IdAttribute>).collect();
                name
            }
            5 => {
                match &mut alt.verifiable_credentials[k] {
                    CredentialV1::Account(a) => a.subject.network = network(!c.m.mainnet),
                    CredentialV1::Identity(i) => i.subject.network = network(!c.m.mainnet),
                }
                "metadata:network"
            }
            6 => match &mut alt.verifiable_credentials[k] {
                CredentialV1::Account(a) => match gen::idx(u, 3) {
                    0 => {
                        a.issuer = IpIdentity(a.issuer.0 ^ 1);
                        "metadata:account-issuer"
                    }
                    1 => {
                        // issuer changed consistently in credential and verification material
                        a.issuer = IpIdentity(a.issuer.0 ^ 1);
                        if let CredentialVerificationMaterial::Account(m) = &mut alt_mats[k] {
                            m.issuer = a.issuer;
                        }
                        "metadata:account-issuer(also in material)"
                    }
                    _ => {
                        a.subject.cred_id = cred_id(c.m.cred_exp + 100_000);
                        "metadata:account-cred-id"
                    }
                },
                CredentialV1::Identity(i) => match gen::idx(u, 4) {
                    0 => {
                        i.issuer = IpIdentity(i.issuer.0 ^ 1);
                        "metadata:identity-issuer"
                    }
                    1 => {
                        i.validity.valid_to = YearMonth::new(i.validity.valid_to.year + 1, i.validity.valid_to.month).unwrap();
                        "metadata:identity-valid-to"
                    }
                    2 => {
                        i.validity.created_at = YearMonth::new(i.validity.created_at.year - 1, i.validity.created_at.month).unwrap();
                        "metadata:identity-created-at"
                    }
                    _ => {
                        let b = &mut i.subject.cred_id.0;
                        let j = gen::idx(u, b.len());
                        b[j] ^= 1 << (gen::byte(u) % 8);
                        "metadata:identity-ephemeral-id"
                    }
                },
            },
            7 => {
                let d = chrono::Duration::try_milliseconds(1 + gen::range_u64(u, 0, 5000) as i64).unwrap();
                match &mut alt.verifiable_credentials[k] {
                    CredentialV1::Account(a) => a.proof.created_at += d,
                    CredentialV1::Identity(i) => i.proof.created_at += d,
                }
                "metadata:proof-created"
            }
            8 => {
                // the statement proofs
                let p = proofs_mut(&mut alt.verifiable_credentials[k]);
                match gen::idx(u, 3) {
                    0 => {
                        p.pop();
                        "proof:drop-last"
                    }
                    1 => {
                        let (i, j) = (gen::idx(u, p.len()), gen::idx(u, p.len()));
                        if p[i] == p[j] {
                            ctx.class("perturb:noop");
                            continue;
                        }
                        p.swap(i, j);
                        "proof:swap"
                    }
                    _ => {
                        let i = gen::idx(u, p.len());
                        if p[i] == AtomicProofV1::AttributeValueAlreadyRevealed {
                            ctx.class("perturb:noop");
                            continue;
                        }
                        p[i] = AtomicProofV1::AttributeValueAlreadyRevealed;
                        "proof:replaced-by-already-revealed"
                    }
                }
            }
            9 => {
                if !binary_ok {
                    ctx.class("perturb:noop");
                    continue;
                }
                let mut found = None;
                for _ in 0..4 {
                    let mut b = bytes.clone();
                    let i = gen::idx(u, b.len());
                    b[i] ^= 1 << (gen::byte(u) % 8);
                    match from_bytes::<Pres, _>(&mut std::io::Cursor::new(&b)) {
                        Ok(p) if to_bytes(&p) == b && p != pres => {
                            found = Some(p);
                            break;
                        }
                        _ => ctx.class("perturb:bitflip-unparseable"),
                    }
                }
                let Some(p) = found else { continue };
                // which part was hit decides whether the request changes or the proof breaks
                let only_linking = p.presentation_context == pres.presentation_context && p.verifiable_credentials == pres.verifiable_credentials;
                if only_linking {
                    ctx.class("perturb:bitflip-in-unused-linking-proof(no claim)");
                    continue;
                }
                alt = p;
                "presentation:bitflip"
            }
            10 => match &mut alt.verifiable_credentials[k] {
                CredentialV1::Identity(i) => {
                    // identity attributes: a revealed value / a commitment
                    let keys: Vec<AttributeTag> = i.proof.proof_value.identity_attributes.keys().cloned().collect();
                    if keys.is_empty() {
                        ctx.class("perturb:noop");
                        continue;
                    }
                    let t = *gen::choose(u, &keys);
                    let v = lookup(&c.m.committed, t.0).unwrap();
                    match i.proof.proof_value.identity_attributes.get_mut(&t).unwrap() {
                        IdentityAttribute::Revealed(x) => {
                            let o = other_value(u, v, v, Flavor::Web3);
                            if o.field() == v.field() {
                                ctx.class("perturb:noop");
                                continue;
                            }
                            *x = Web3IdAttribute::from_model(&o);
                            "identity-attributes:revealed-value"
                        }
                        IdentityAttribute::Committed(cm) => {
                            *cm = Commitment(crate::t_stmt::point(gen::u16v(u) as u64 + 3));
                            "identity-attributes:commitment"
                        }
                        a @ IdentityAttribute::Known => {
                            *a = IdentityAttribute::Revealed(Web3IdAttribute::from_model(v));
                            "identity-attributes:known-to-revealed"
                        }
                    }
                }
                CredentialV1::Account(_) => {
                    ctx.class("perturb:noop");
                    continue;
                }
            },
            11 | 12 => match &mut alt_mats[k] {
                CredentialVerificationMaterial::Account(m) => {
                    let s = &c.m.stmts[gen::idx(u, c.m.stmts.len())];
                    let tag = AttributeTag(s.tag);
                    let v = lookup(&c.m.committed, s.tag).unwrap();
                    let r = &built[k].rand[&tag];
                    match gen::idx(u, 4) {
                        0 => {
                            let o = other_value(u, v, v, Flavor::Web3);
                            if o.field() == v.field() {
                                ctx.class("perturb:noop");
                                continue;
                            }
                            m.attribute_commitments.insert(tag, commit(&o, r));
                            "material:commitment-other-value"
                        }
                        1 => {
                            m.attribute_commitments.insert(tag, commit(v, &Randomness::<ArCurve>::generate(&mut rng)));
                            "material:commitment-other-randomness"
                        }
                        2 => {
                            m.attribute_commitments.remove(&tag);
                            "material:commitment-removed"
                        }
                        _ => {
                            m.issuer = IpIdentity(m.issuer.0 ^ 1);
                            "material:issuer"
                        }
                    }
                }
                CredentialVerificationMaterial::Identity(m) => {
                    let f = id_fixture(c.cfg);
                    match gen::idx(u, 3) {
                        0 => {
                            m.ip_info = f.other_ip.clone();
                            "material:identity-provider-keys"
                        }
                        1 => {
                            m.ars_infos = ArInfos { anonymity_revokers: f.other_ars.clone() };
                            "material:anonymity-revoker-keys"
                        }
                        _ => {
                            m.ars_infos.anonymity_revokers.clear();
                            "material:anonymity-revokers-missing"
                        }
                    }
                }
            },
            13 => match gen::idx(u, 3) {
                0 => {
                    alt_mats.pop();
                    "material:one-fewer"
                }
                1 => {
                    alt_mats.push(alt_mats[0].clone());
                    "material:one-more"
                }
                _ => {
                    let other = creds.iter().zip(&materials).find(|(o, _)| o.identity != c.identity).map(|(_, m)| m.clone());
                    alt_mats[k] = match other {
                        Some(m) => m,
                        None => {
                            if c.identity {
                                CredentialVerificationMaterial::Account(AccountCredentialVerificationMaterial { issuer: IpIdentity(c.m.issuer), attribute_commitments: BTreeMap::new() })
                            } else {
                                let f = id_fixture(0);
                                CredentialVerificationMaterial::Identity(IdentityCredentialVerificationMaterial {
                                    ip_info:   f.ip_info.clone(),
                                    ars_infos: ArInfos { anonymity_revokers: f.ars.clone() },
                                })
                            }
                        }
                    };
                    "material:kind-mismatch"
                }
            },
            14 => {
                // swap two credentials with their material: each credential has its own
                // transcript, so this verifies - for another request (order of the claims)
                if creds.len() < 2 || request.subject_claims[0] == request.subject_claims[1] {
                    ctx.class("perturb:noop");
                    continue;
                }
                alt.verifiable_credentials.swap(0, 1);
                alt_mats.swap(0, 1);
                must_err = false;
                "credentials:swapped"
            }
            _ => {
                // move a credential into another presentation context is covered by `context:*`;
                // here: duplicate a credential (request changes)
                let d = alt.verifiable_credentials[k].clone();
                alt.verifiable_credentials.push(d);
                alt_mats.push(alt_mats[k].clone());
                must_err = false;
                "credentials:duplicated"
            }
        };
        let r = alt.verify(alt_global.as_ref().unwrap_or(g), alt_mats.iter());
        ctx.class_n(&format!("perturb:{}", name), 1);
        ctx.class_n("perturbations-verified", 1);
        if !rejected(&r, &request, must_err) {
            return Err(Violation::new(
                "binding",
                format!("presentation still verifies{} after perturbation `{}` of credential #{}; original case: {}", if must_err { "" } else { " for the original request" }, name, k, show()),
            )
            .with_signature(format!("binding:web3id-v1:{}", name)));
        }
    }

    // ---- perturbations of the anchored verification ------------------------------------------------
    if anchored_applicable {
        let n_anch = 4 + gen::idx(u, 5);
        let start = gen::idx(u, 12);
        for j in 0..n_anch {
            let mut vctx = VerificationContext { network: net, validity_time: vtime };
            let mut vr = vreq.clone();
            let mut an = anchor.clone();
            let mut alt = pres.clone();
            let mut reanchor = true;
            let k = gen::idx(u, creds.len());
            let name: &'static str = match (start + j) % 12 {
                0 => {
                    vctx.network = network(!creds[0].m.mainnet);
                    "anchored:network"
                }
                1 => {
                    let d = if gen::boolean(u) { 1 } else { 1 + gen::range_u64(u, 0, 100_000_000) as i64 };
                    vctx.validity_time = lower - chrono::Duration::try_milliseconds(d).unwrap();
                    "anchored:before-validity"
                }
                2 => {
                    let d = if gen::boolean(u) { 0 } else { gen::range_u64(u, 0, 100_000_000) as i64 };
                    vctx.validity_time = upper + chrono::Duration::try_milliseconds(d).unwrap();
                    "anchored:at-or-after-expiry"
                }
                3 => {
                    let mut h: [u8; 32] = an.verification_request_anchor.hash.bytes;
                    h[gen::idx(u, 32)] ^= 1 << (gen::byte(u) % 8);
                    an.verification_request_anchor.hash = hashes::HashBytes::new(h);
                    reanchor = false;
                    "anchored:anchor-hash"
                }
                4 => {
                    let mut h = mctx.block_hash;
                    h[gen::idx(u, 32)] ^= 1 << (gen::byte(u) % 8);
                    an.block_hash = hashes::HashBytes::new(h);
                    reanchor = false;
                    "anchored:anchor-block-hash"
                }
                5 => {
                    // the request (and its anchor) asks for another nonce
                    let mut b = mctx.nonce;
                    b[gen::idx(u, 32)] ^= 1 << (gen::byte(u) % 8);
                    vr.context.given[0] = LabeledContextProperty::Nonce(Nonce(b));
                    "anchored:request-nonce"
                }
                6 => {
                    vr.context.requested.push(ContextLabel::ContextString);
                    "anchored:request-requested-label"
                }
                7 => {
                    // the credential's own (identity provider, network) pair is no longer allowed; entries that
                    // share only the provider or only the network remain
                    let (nw, issuer, _, _) = claims_parts(&request.subject_claims[k]);
                    let RequestedSubjectClaims::Identity(c) = &mut vr.subject_claims[k];
                    let before = c.issuers.len();
                    c.issuers.retain(|i| !(i.identity_provider == issuer && i.network == nw));
                    assert_eq!(c.issuers.len() + 1, before);
                    if c.issuers.iter().any(|i| i.identity_provider == issuer) && c.issuers.iter().any(|i| i.network == nw) {
                        ctx.class("anchored:issuer-and-network-allowed-separately");
                    }
                    "anchored:issuer-not-allowed"
                }
                8 => {
                    let RequestedSubjectClaims::Identity(c) = &mut vr.subject_claims[k];
                    c.source = vec![if creds[k].identity { IdentityCredentialType::AccountCredential } else { IdentityCredentialType::IdentityCredential }];
                    "anchored:credential-type-not-allowed"
                }
                9 => {
                    let Some((ns, _)) = perturb_stmt_field(u, &creds[k].m.stmts, &creds[k].m.committed, Flavor::Web3) else {
                        ctx.class("perturb:noop");
                        continue;
                    };
                    if ns.iter().any(|s| matches!(s.kind, MKind::Reveal)) {
                        ctx.class("perturb:noop");
                        continue;
                    }
                    let new: Vec<RequestedStatement<AttributeTag>> = ns.iter().map(|s| requested_statement(&to_atomic_v1::<Web3IdAttribute>(s))).collect();
                    let RequestedSubjectClaims::Identity(c) = &mut vr.subject_claims[k];
                    if c.statements == new {
                        // e.g. only the value of an equals statement changed: the request only names the attribute
                        ctx.class("perturb:noop");
                        continue;
                    }
                    c.statements = new;
                    "anchored:request-statements"
                }
                10 => {
                    vr.subject_claims.push(vr.subject_claims[k].clone());
                    "anchored:request-extra-claims"
                }
                _ => {
                    // the presentation is for another (otherwise fine) context value
                    alt.presentation_context.given[0] = LabeledContextProperty::Nonce(Nonce([0xAB; 32])).to_context_property();
                    if alt.presentation_context == pres.presentation_context {
                        ctx.class("perturb:noop");
                        continue;
                    }
                    "anchored:presentation-context"
                }
            };
            if reanchor {
                an = anchor_of(&vr, mctx.block_hash);
            }
            let r = verify_presentation_with_request_anchor(g, &vctx, &vr, &alt, &an, &mats_v);
            ctx.class_n(&format!("perturb:{}", name), 1);
            ctx.class_n("anchored-perturbations-verified", 1);
            if let PresentationVerificationResult::Verified = r {
                return Err(Violation::new("anchored-binding", format!("anchored verification still succeeds after `{}`: {}", name, show()))
                    .with_signature(format!("anchored-binding:{}", name)));
            }
        }
    }
    Ok(())
}
