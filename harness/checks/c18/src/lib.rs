//! C18: attribute statement proofs and presentations verify exactly true statements.
//!
//! Targets (see NOTES.md):
//! * `account_statement`  id_prover / id_verifier `StatementWithContext::{prove, verify}` (versions 1 and 2)
//! * `range_direct`       `prove_attribute_in_range` / `verify_attribute_range` with the RNG of the case
//! * `web3_presentation`  web3id v0 `Request::prove_with_rng` / `Presentation::verify`, account + web3 credentials, linking proof
//! * `v1_presentation`    web3id::v1 `RequestV1::prove_with_rng` / `PresentationV1::verify`, account + identity based
//!                        credentials, and `verify_presentation_with_request_anchor`
pub mod model;
pub mod t_range;
pub mod t_stmt;
pub mod t_v1;
pub mod t_web3;

use vcore::{Property, Target};

pub fn property() -> Property {
    Property {
        id: "C18",
        rule: "A case is decoded from the choice sequence: an attribute list (1-5 attributes with distinct tags; date-like, \
               decimal, country-code, printable, maximal-length (31 byte) and multi-byte UTF-8 strings; for web3id also u64 \
               numbers and timestamps from a boundary table), the commitment randomness (case RNG), and a set of 1-4 statements \
               per credential drawn from explicit variants relative to the attribute's value v in the field embedding: reveal / \
               equals; range [v,v+1), [v,above), [below,v+1), [below,above), [below,v) (false), [v+1,above) (false), [v,v) \
               (false), reversed and far-away ranges (false), too-wide ranges (true but outside the 2^64 window: no claim); \
               in-set with singleton / v first / v last / v absent (false) / empty (false); not-in-set with v absent / v \
               present (false) / singleton; statements about a missing attribute (false); and a prover that claims a value \
               different from the committed / signed one. Truth is decided by an independent model on 256-bit integers. \
               After an accepted proof 5-12 (statements) or 8-16 (presentations) single-field perturbations are applied, their kinds visited round-robin from a drawn start (statement tag, bounds, set elements, kind, \
               order; challenge / context; credential id, issuer, network, validity, creation time, contract, holder key, \
               credential type; commitments and public verification material; issuer and linking signatures with and without \
               re-signing by the holder; revealed values; proof bytes) and each must be rejected. A case is non-trivial when \
               at least one range or set statement sits at a boundary (lower=v, upper=v+1, upper=v, lower=v+1, empty range at \
               v; singleton, empty set, v first / last in the set, v present in a not-in-set); distinct non-trivial cases are \
               counted by the hash of the whole decoded case.",
        assumptions: &[
            "Soundness is only attacked with concrete strategies: the honest prover run on false statements or on a value other than the committed one, and single-field perturbations of an accepted proof; this is not a soundness proof.",
            "The truth model is the documented embedding of attributes into the scalar field (string: length byte followed by the right-aligned bytes; number/timestamp: the integer); the check asserts that to_field_element agrees with it. Set membership is decided on embedded values (Numeric(5) and Timestamp(5) are the same element).",
            "Range statements are only claimed provable when both bounds are within 2^64 of the value (documented construction of prove_in_range with n = 64); sets have at most 256 elements (number of bulletproof generators).",
            "Version 1 range proofs use a fresh transcript by design and are therefore not bound to challenge / credential / global context; perturbations of those are not asserted for version-1 proofs consisting only of range statements (version 2 is what web3id uses).",
            "web3id v0 does not bind issuer / creation time of an account credential unless a web3 credential (linking signature) is present, and `verify` returns the request it verified for: for metadata that is part of the returned request (network, credential id, credential type, order) 'rejected' means error OR a returned request different from the original one.",
            "StatementWithContext::prove draws its blinding randomness from thread_rng inside the code under test (no RNG parameter); verdicts do not depend on it. All other provers use the case RNG.",
            "Open finding F-C18-1 (not-in-set with the empty set is true but no proof can be produced) is listed in known_findings.jsonl; cases hitting it (about 3%) are counted under known_findings_hit and do not run the remaining oracles of that case.",
            "Identity based credentials reuse a cached identity provider / anonymity revoker / pre-identity-object fixture (two configurations: 1 AR threshold 1, 3 ARs threshold 2); the attribute list is signed per case.",
        ],
        targets: vec![
            Target::new("account_statement", t_stmt::t_account_statement)
                .len(0, 1024)
                .cases(1000, 40_000)
                .shrink_iters(40)
                .floors(&[("boundary-statement", 0.5), ("all-true", 0.15), ("some-false", 0.1)]),
            Target::new("range_direct", t_range::t_range_direct)
                .len(0, 256)
                .cases(700, 30_000)
                .shrink_iters(40)
                .floors(&[("boundary-statement", 0.5), ("true", 0.2), ("false", 0.1)]),
            Target::new("web3_presentation", t_web3::t_web3_presentation)
                .len(0, 2048)
                .cases(800, 30_000)
                .shrink_iters(40)
                .floors(&[("boundary-statement", 0.5), ("all-true", 0.1), ("some-false-or-lying", 0.15)]),
            Target::new("v1_presentation", t_v1::t_v1_presentation)
                .len(0, 2048)
                .cases(500, 20_000)
                .shrink_iters(40)
                .floors(&[("boundary-statement", 0.5), ("all-true", 0.12), ("some-false-or-lying", 0.15)]),
        ],
    }
}
