//! Phase 2: web3id (v0) `Request::prove_with_rng` / `Presentation::verify` over account and web3
//! credentials, including the holder's linking signatures.
use crate::model::*;
use crate::t_stmt::{commit, global, point};
use concordium_base::{
    base::CredentialRegistrationID,
    common::to_bytes,
    contracts_common::ContractAddress,
    id::{
        constants::ArCurve,
        id_proof_types::{AtomicProof, AtomicStatement},
        types::{AttributeTag, GlobalContext, IpIdentity},
    },
    pedersen_commitment::{Commitment, Randomness},
    web3id::{
        did::Network, Challenge, CommitmentInputs, CredentialHolderId, CredentialProof, CredentialStatement,
        CredentialsInputs, Presentation, Request, SignedCommitments, Web3IdAttribute, Web3IdSigner, LINKING_DOMAIN_STRING,
    },
};
use ed25519_dalek::SigningKey;
use rand::RngCore;
use std::collections::{BTreeMap, BTreeSet};
use vcore::{gen, vensure, CheckResult, Ctx, Unstructured, Violation};

type Pres = Presentation<ArCurve, Web3IdAttribute>;
type Req = Request<ArCurve, Web3IdAttribute>;
type Cred = CredentialProof<ArCurve, Web3IdAttribute>;

#[derive(Clone, Debug, Hash)]
pub struct MCred {
    pub web3:      bool,
    pub mainnet:   bool,
    pub committed: Vec<(u8, MAttr)>,
    pub claimed:   Vec<(u8, MAttr)>,
    pub lie:       Option<u8>,
    pub stmts:     Vec<MStmt>,
    // account
    pub cred_exp:  u64,
    pub issuer:    u32,
    // web3
    pub contract:  (u64, u64),
    pub ty_extra:  Vec<String>,
}

pub fn network(mainnet: bool) -> Network {
    if mainnet {
        Network::Mainnet
    } else {
        Network::Testnet
    }
}

pub fn gen_cred(u: &mut Unstructured, allow_web3: bool, flavor: Flavor) -> MCred {
    let web3 = allow_web3 && gen::boolean(u);
    let mainnet = gen::idx(u, 3) == 2;
    let committed = gen_attr_list(u, flavor);
    let mut claimed = committed.clone();
    let lie = if gen::idx(u, 10) == 9 {
        let i = gen::idx(u, claimed.len());
        let n = other_value(u, &committed[i].1.clone(), &committed[i].1.clone(), flavor);
        if n.field() != committed[i].1.field() {
            claimed[i].1 = n;
            Some(committed[i].0)
        } else {
            None
        }
    } else {
        None
    };
    let stmts = if gen::idx(u, 10) == 9 { vec![] } else { gen_stmt_set(u, &claimed, flavor, 3) };
    const TY: [&str; 4] = ["TestCredential", "UniversityDegreeCredential", "", "ä b"];
    let ty_extra = match gen::idx(u, 3) {
        0 => vec![],
        1 => vec![TY[gen::idx(u, 4)].to_string()],
        _ => vec![TY[0].to_string(), TY[1 + gen::idx(u, 3)].to_string()],
    };
    MCred {
        web3,
        mainnet,
        committed,
        claimed,
        lie,
        stmts,
        cred_exp: gen::u16v(u) as u64,
        issuer: match gen::idx(u, 3) {
            0 => 0,
            1 => gen::byte(u) as u32,
            _ => gen::boundary_u32(u),
        },
        contract: (
            match gen::idx(u, 3) {
                0 => 1337,
                1 => gen::byte(u) as u64,
                _ => gen::boundary_u64(u),
            },
            if gen::boolean(u) { 0 } else { gen::boundary_u64(u) },
        ),
        ty_extra,
    }
}

pub fn show_cred(c: &MCred) -> String {
    let mut s = if c.web3 {
        format!("web3 credential (contract <{},{}>, types {:?}, {}) attrs: ", c.contract.0, c.contract.1, c.ty_extra, if c.mainnet { "mainnet" } else { "testnet" })
    } else {
        format!("account credential (issuer {}, cred {}, {}) attrs: ", c.issuer, c.cred_exp, if c.mainnet { "mainnet" } else { "testnet" })
    };
    for ((t, cl), (_, co)) in c.claimed.iter().zip(&c.committed) {
        if cl == co {
            s.push_str(&format!("[{}]={} ", t, cl.show()));
        } else {
            s.push_str(&format!("[{}]={} (prover claims {}) ", t, co.show(), cl.show()));
        }
    }
    s.push_str("statements: ");
    for st in &c.stmts {
        s.push_str(&format!("{} => {:?}; ", show_stmt(st), truth(lookup(&c.committed, st.tag), &st.kind)));
    }
    s
}

/// What the oracle expects of a credential's statement list.
#[derive(Clone, Copy, PartialEq, Eq, Debug)]
pub enum Expect {
    AllTrue,
    MustReject,
    NoClaim,
}

pub fn expectation(c: &MCred, web3_lie_always: bool) -> Expect {
    // An equals statement (v1) is proved from the statement's own value and the commitment
    // randomness; what the prover claims as attribute value plays no role there, so only its
    // truth w.r.t. the committed value counts.
    let touches = c.lie.map(|t| c.stmts.iter().any(|s| s.tag == t && !matches!(s.kind, MKind::Equals(_)))).unwrap_or(false);
    if touches || (web3_lie_always && c.web3 && c.lie.is_some()) {
        return Expect::MustReject;
    }
    let truths: Vec<Truth> = c.stmts.iter().map(|s| truth(lookup(&c.committed, s.tag), &s.kind)).collect();
    if truths.iter().any(|t| *t == Truth::False) {
        Expect::MustReject
    } else if truths.iter().any(|t| *t == Truth::TrueOutOfDomain) {
        Expect::NoClaim
    } else {
        Expect::AllTrue
    }
}

pub fn classify_stmts(ctx: &mut Ctx, c: &MCred) -> bool {
    let mut boundary = false;
    for s in &c.stmts {
        ctx.class_n(
            match s.kind {
                MKind::Reveal => "stmt:reveal",
                MKind::Equals(_) => "stmt:equals",
                MKind::Range { .. } => "stmt:range",
                MKind::InSet(_) => "stmt:in-set",
                MKind::NotInSet(_) => "stmt:not-in-set",
            },
            1,
        );
        if let Some(b) = boundary_class(lookup(&c.committed, s.tag), &s.kind) {
            ctx.class_n(b, 1);
            boundary = true;
        }
    }
    boundary
}

struct Built {
    statement:  CredentialStatement<ArCurve, Web3IdAttribute>,
    public:     CredentialsInputs<ArCurve>,
    // account inputs
    acc_values: BTreeMap<AttributeTag, Web3IdAttribute>,
    acc_rand:   BTreeMap<AttributeTag, Randomness<ArCurve>>,
    // web3 inputs
    w_values:   BTreeMap<String, Web3IdAttribute>,
    w_rand:     BTreeMap<String, Randomness<ArCurve>>,
    signer:     Option<SigningKey>,
    issuer_key: Option<SigningKey>,
    signature:  Option<ed25519_dalek::Signature>,
}

fn keygen(rng: &mut impl RngCore) -> SigningKey {
    let mut sk = [0u8; 32];
    rng.fill_bytes(&mut sk);
    SigningKey::from_bytes(&sk)
}

pub fn cred_id(exp: u64) -> CredentialRegistrationID { CredentialRegistrationID::new(point(exp)) }

fn build(c: &MCred, rng: &mut (impl RngCore + rand::CryptoRng)) -> Result<Built, Violation> {
    let g = global();
    let mut b = Built {
        statement:  CredentialStatement::Account { network: Network::Testnet, cred_id: cred_id(0), statement: vec![] },
        public:     CredentialsInputs::Account { commitments: BTreeMap::new() },
        acc_values: BTreeMap::new(),
        acc_rand:   BTreeMap::new(),
        w_values:   BTreeMap::new(),
        w_rand:     BTreeMap::new(),
        signer:     None,
        issuer_key: None,
        signature:  None,
    };
    for (_, m) in c.claimed.iter().chain(&c.committed) {
        let a = Web3IdAttribute::from_model(m);
        vensure!(a.field_of() == m.field(), "model-embedding", "to_field_element({}) differs from the documented embedding", m.show());
    }
    if !c.web3 {
        let mut commitments = BTreeMap::new();
        for ((tag, cl), (_, co)) in c.claimed.iter().zip(&c.committed) {
            let r = Randomness::<ArCurve>::generate(rng);
            commitments.insert(AttributeTag(*tag), commit(co, &r));
            b.acc_values.insert(AttributeTag(*tag), Web3IdAttribute::from_model(cl));
            b.acc_rand.insert(AttributeTag(*tag), r);
        }
        b.public = CredentialsInputs::Account { commitments };
        b.statement = CredentialStatement::Account {
            network:   network(c.mainnet),
            cred_id:   cred_id(c.cred_exp),
            statement: c.stmts.iter().map(to_atomic::<Web3IdAttribute, AttributeTag>).collect(),
        };
    } else {
        let signer = keygen(rng);
        let issuer_key = keygen(rng);
        let holder = CredentialHolderId::new(signer.verifying_key());
        let contract = ContractAddress::new(c.contract.0, c.contract.1);
        let mut committed_values = BTreeMap::new();
        for ((tag, cl), (_, co)) in c.claimed.iter().zip(&c.committed) {
            let name = <String as TagT>::from_id(*tag);
            b.w_rand.insert(name.clone(), Randomness::<ArCurve>::generate(rng));
            b.w_values.insert(name.clone(), Web3IdAttribute::from_model(cl));
            committed_values.insert(name, Web3IdAttribute::from_model(co));
        }
        // the issuer signs the commitments to the values it issued
        let signed = SignedCommitments::from_secrets(g, &committed_values, &b.w_rand, &holder, &issuer_key, contract)
            .ok_or_else(|| Violation::new("from-secrets", "SignedCommitments::from_secrets returned None for consistent values/randomness"))?;
        // cross-check the commitments against the model embedding
        for ((tag, _), (_, co)) in c.claimed.iter().zip(&c.committed) {
            let name = <String as TagT>::from_id(*tag);
            vensure!(
                signed.commitments.get(&name) == Some(&commit(co, &b.w_rand[&name])),
                "from-secrets",
                "commitment of attribute {:?} is not the Pedersen commitment to its documented embedding",
                name
            );
        }
        vensure!(
            signed.verify_signature(&holder, &issuer_key.verifying_key().into(), contract),
            "from-secrets",
            "issuer signature produced by from_secrets does not verify"
        );
        b.signature = Some(signed.signature);
        let mut ty: BTreeSet<String> = ["VerifiableCredential".to_string(), "ConcordiumVerifiableCredential".to_string()].into_iter().collect();
        ty.extend(c.ty_extra.iter().cloned());
        b.statement = CredentialStatement::Web3Id {
            ty,
            network: network(c.mainnet),
            contract,
            credential: holder,
            statement: c.stmts.iter().map(to_atomic::<Web3IdAttribute, String>).collect(),
        };
        b.public = CredentialsInputs::Web3 { issuer_pk: issuer_key.verifying_key().into() };
        b.signer = Some(signer);
        b.issuer_key = Some(issuer_key);
    }
    Ok(b)
}

fn inputs(b: &Built) -> CommitmentInputs<'_, ArCurve, Web3IdAttribute, SigningKey> {
    match &b.signer {
        None => CommitmentInputs::Account { issuer: IpIdentity(0), values: &b.acc_values, randomness: &b.acc_rand },
        Some(s) => CommitmentInputs::Web3Issuer { signature: b.signature.unwrap(), signer: s, values: &b.w_values, randomness: &b.w_rand },
    }
}

fn linking_message(p: &Pres) -> Vec<u8> {
    use sha2::Digest;
    let mut h = sha2::Sha512::new();
    h.update(to_bytes(&p.presentation_context));
    h.update(to_bytes(&p.verifiable_credential));
    let mut msg = LINKING_DOMAIN_STRING.to_vec();
    msg.extend_from_slice(&h.finalize());
    msg
}

fn to_json(p: &Pres) -> Option<serde_json::Value> {
    // `Serialize for CredentialProof` goes through `serde_json::json!`, which panics when an
    // attribute has no JSON representation (timestamps outside the ISO 8601 window): treat that as
    // "no JSON form" (observation O-C18-a in NOTES.md), the prove/verify oracles above still ran.
    vcore::catch(|| serde_json::to_value(p).ok()).ok().flatten()
}
fn from_json(v: serde_json::Value) -> Option<Pres> { serde_json::from_value(v).ok() }

fn clone_pres(p: &Pres, json: &Option<serde_json::Value>) -> Option<Pres> {
    // `Presentation` is not `Clone` (the linking proof is private): go through JSON
    json.clone().and_then(from_json).filter(|q| q == p)
}

/// Replace the linking signatures by fresh ones over the (possibly altered) presentation.
fn resign(p: &Pres, signers: &[&SigningKey]) -> Option<Pres> {
    let msg = linking_message(p);
    let mut v = to_json(p)?;
    let sigs: Vec<serde_json::Value> = signers.iter().map(|s| serde_json::Value::String(hex(&Web3IdSigner::sign(*s, &msg).to_bytes()))).collect();
    *v.get_mut("proof")?.get_mut("proofValue")? = serde_json::Value::Array(sigs);
    from_json(v)
}

fn hex(b: &[u8]) -> String { gen::hex(b) }

fn rejected(r: &Result<Req, concordium_base::web3id::PresentationVerificationError>, original: &Req, must_err: bool) -> bool {
    match r {
        Err(_) => true,
        Ok(q) => !must_err && q != original,
    }
}

fn stmts_of(c: &mut Cred) -> StmtsMut<'_> {
    match c {
        CredentialProof::Account { proofs, .. } => StmtsMut::Acc(proofs),
        CredentialProof::Web3Id { proofs, .. } => StmtsMut::W3(proofs),
    }
}

enum StmtsMut<'a> {
    Acc(&'a mut Vec<(AtomicStatement<ArCurve, AttributeTag, Web3IdAttribute>, AtomicProof<ArCurve, Web3IdAttribute>)>),
    W3(&'a mut Vec<(AtomicStatement<ArCurve, String, Web3IdAttribute>, AtomicProof<ArCurve, Web3IdAttribute>)>),
}

pub fn t_web3_presentation(data: &[u8], ctx: &mut Ctx) -> CheckResult {
    let mut u = Unstructured::new(data);
    let u = &mut u;
    let n = 1 + gen::idx(u, 3);
    let creds: Vec<MCred> = (0..n).map(|_| gen_cred(u, true, Flavor::Web3)).collect();
    let challenge_bytes: [u8; 32] = gen::array(u);
    let now_ms: i64 = 1_600_000_000_000 + gen::range_u64(u, 0, 200_000_000_000) as i64;
    let now = chrono::DateTime::<chrono::Utc>::from_timestamp_millis(now_ms).expect("in range");
    let mut rng = gen::rng(u);
    let g = global();

    let built: Vec<Built> = creds.iter().map(|c| build(c, &mut rng)).collect::<Result<_, _>>()?;
    // issuer of account credentials is part of the private inputs
    let request = Req {
        challenge:             Challenge::new(challenge_bytes),
        credential_statements: built.iter().map(|b| b.statement.clone()).collect(),
    };
    let ins: Vec<CommitmentInputs<'_, ArCurve, Web3IdAttribute, SigningKey>> = built
        .iter()
        .zip(&creds)
        .map(|(b, c)| match inputs(b) {
            CommitmentInputs::Account { values, randomness, .. } => CommitmentInputs::Account { issuer: IpIdentity(c.issuer), values, randomness },
            w => w,
        })
        .collect();
    let publics: Vec<CredentialsInputs<ArCurve>> = built
        .iter()
        .map(|b| match &b.public {
            CredentialsInputs::Account { commitments } => CredentialsInputs::Account { commitments: commitments.clone() },
            CredentialsInputs::Web3 { issuer_pk } => CredentialsInputs::Web3 { issuer_pk: *issuer_pk },
        })
        .collect();

    let mut f1 = false;
    for c in &creds {
        f1 |= exclude_f1(ctx, &c.stmts, &c.committed);
    }
    if f1 {
        return Ok(());
    }
    let has_f1_stmt = creds.iter().any(|c| has_f1(&c.stmts, &c.committed));
    // ---- classification ------------------------------------------------------------------------
    let exps: Vec<Expect> = creds.iter().map(|c| expectation(c, true)).collect();
    let expect = if exps.iter().any(|e| *e == Expect::MustReject) {
        Expect::MustReject
    } else if exps.iter().any(|e| *e == Expect::NoClaim) {
        Expect::NoClaim
    } else {
        Expect::AllTrue
    };
    let has_web3 = creds.iter().any(|c| c.web3);
    let n_stmts: usize = creds.iter().map(|c| c.stmts.len()).sum();
    let mut boundary = false;
    for c in &creds {
        ctx.class(if c.web3 { "credential:web3" } else { "credential:account" });
        boundary |= classify_stmts(ctx, c);
    }
    ctx.class(match expect {
        Expect::AllTrue => "all-true",
        Expect::MustReject => "some-false-or-lying",
        Expect::NoClaim => "true-out-of-domain",
    });
    ctx.class(match (has_web3, creds.iter().any(|c| !c.web3)) {
        (true, true) => "mix:account+web3",
        (true, false) => "mix:web3-only",
        _ => "mix:account-only",
    });
    if boundary {
        ctx.class("boundary-statement");
        ctx.nontrivial(&(&creds, &challenge_bytes, now_ms));
    }
    let show = || {
        let mut s = format!("challenge={} now={} ", hex(&challenge_bytes), now_ms);
        for (i, c) in creds.iter().enumerate() {
            s.push_str(&format!("| #{} {}", i, show_cred(c)));
        }
        s
    };
    ctx.sample(show);
    ctx.describe(show);

    // ---- prove / verify ------------------------------------------------------------------------
    let proved = request.clone().prove_with_rng(g, ins.into_iter(), &mut rng, now);
    let verified = proved.as_ref().ok().map(|p| p.verify(g, publics.iter()));
    let accepted = matches!(&verified, Some(Ok(_)));
    match expect {
        Expect::AllTrue => {
            if let Err(e) = &proved {
                return Err(Violation::new("completeness-prove", format!("prove failed ({}) for all-true statements: {}", e, show()))
                    .with_signature(if has_f1_stmt { F1_SIGNATURE } else { "completeness-prove" }));
            }
            match verified.as_ref().unwrap() {
                Ok(r) => vensure!(*r == request, "verify-returns-request", "verify returned a request different from the proved one: {}", show()),
                Err(e) => vcore::vfail!("completeness-verify", "honest presentation rejected ({}): {}", e, show()),
            }
        }
        Expect::MustReject => {
            ctx.class(if proved.is_err() { "false:prover-refuses" } else { "false:presentation-produced" });
            if accepted {
                return Err(Violation::new("soundness-false-statement", format!("presentation with a false statement / wrong value verifies: {}", show()))
                    .with_signature("soundness-false-statement:web3id-v0"));
            }
        }
        Expect::NoClaim => ctx.class(if accepted { "out-of-domain:accepted" } else { "out-of-domain:rejected" }),
    }
    if !accepted {
        return Ok(());
    }
    let pres = proved.unwrap();

    // ---- revealed values -----------------------------------------------------------------------
    for (c, p) in creds.iter().zip(&pres.verifiable_credential) {
        let reveals: Vec<Option<&Web3IdAttribute>> = match p {
            CredentialProof::Account { proofs, .. } => proofs.iter().map(|(_, p)| if let AtomicProof::RevealAttribute { attribute, .. } = p { Some(attribute) } else { None }).collect(),
            CredentialProof::Web3Id { proofs, .. } => proofs.iter().map(|(_, p)| if let AtomicProof::RevealAttribute { attribute, .. } = p { Some(attribute) } else { None }).collect(),
        };
        vensure!(reveals.len() == c.stmts.len(), "proof-shape", "number of proofs differs from number of statements");
        for (s, r) in c.stmts.iter().zip(reveals) {
            if let MKind::Reveal = s.kind {
                let want = lookup(&c.committed, s.tag).expect("accepted reveal of an existing attribute");
                let Some(got) = r else { vcore::vfail!("proof-shape", "reveal statement answered by another kind of proof") };
                vensure!(*got == Web3IdAttribute::from_model(want), "reveal-value", "revealed value {:?} is not the committed attribute {}", got, want.show());
                ctx.class("revealed-value-checked");
            }
        }
    }

    // ---- perturbations -------------------------------------------------------------------------
    let json = to_json(&pres);
    let json_ok = clone_pres(&pres, &json).is_some();
    ctx.class(if json_ok { "json-roundtrip-ok" } else { "json-roundtrip-unavailable" });
    if !json_ok {
        // without a way to copy the presentation no perturbation can be applied
        return Ok(());
    }
    let signers: Vec<&SigningKey> = built.iter().filter_map(|b| b.signer.as_ref()).collect();
    // replica of the linking message: the honest signatures must verify under it
    let replica_ok = {
        let msg = linking_message(&pres);
        let sigs = json.as_ref().and_then(|j| j.get("proof")).and_then(|p| p.get("proofValue")).and_then(|v| v.as_array()).cloned().unwrap_or_default();
        sigs.len() == signers.len()
            && sigs.iter().zip(&signers).all(|(s, k)| {
                let Some(h) = s.as_str() else { return false };
                let bytes: Vec<u8> = (0..h.len() / 2).filter_map(|i| u8::from_str_radix(&h[2 * i..2 * i + 2], 16).ok()).collect();
                let Ok(arr) = <[u8; 64]>::try_from(bytes.as_slice()) else { return false };
                ed25519_dalek::Verifier::verify(&k.verifying_key(), &msg, &ed25519_dalek::Signature::from_bytes(&arr)).is_ok()
            })
    };
    if has_web3 {
        ctx.class(if replica_ok { "linking-message-replica-ok" } else { "linking-message-replica-MISMATCH" });
    }

    // kinds of perturbation are visited round-robin from a drawn start (see t_stmt.rs)
    let n_pert = 8 + gen::idx(u, 9);
    let start = gen::idx(u, 16);
    for j in 0..n_pert {
        let mut alt = clone_pres(&pres, &json).unwrap();
        let mut alt_publics: Vec<CredentialsInputs<ArCurve>> = publics
            .iter()
            .map(|b| match b {
                CredentialsInputs::Account { commitments } => CredentialsInputs::Account { commitments: commitments.clone() },
                CredentialsInputs::Web3 { issuer_pk } => CredentialsInputs::Web3 { issuer_pk: *issuer_pk },
            })
            .collect();
        let mut alt_global: Option<GlobalContext<ArCurve>> = None;
        let k = gen::idx(u, creds.len());
        let c = &creds[k];
        // `must_err`: verification has to fail outright; otherwise it is enough that the request
        // returned by `verify` differs from the original one (which the verifier compares).
        let mut must_err = true;
        let mut do_resign = false;
        let which = (start + j) % 16;
        let name: &'static str = match which {
            0 => {
                let i = gen::idx(u, 32);
                let mut b = challenge_bytes;
                b[i] ^= 1 << (gen::byte(u) % 8);
                alt.presentation_context = Challenge::new(b);
                must_err = has_web3 || n_stmts > 0;
                "challenge:bitflip"
            }
            1 => {
                if n_stmts == 0 {
                    ctx.class("perturb:noop");
                    continue;
                }
                let mut g2 = g.clone();
                g2.genesis_string.push('x');
                alt_global = Some(g2);
                "global-context:genesis-string"
            }
            2 | 3 | 14 => {
                // a statement field of credential k (proof kept)
                if c.stmts.is_empty() {
                    ctx.class("perturb:noop");
                    continue;
                }
                let Some((ns, name)) = perturb_stmt_field(u, &c.stmts, &c.committed, Flavor::Web3) else {
                    ctx.class("perturb:noop");
                    continue;
                };
                if ns.len() != c.stmts.len() || name == "stmt:swap" {
                    // structural: drop the last (statement, proof) pair instead
                    match stmts_of(&mut alt.verifiable_credential[k]) {
                        StmtsMut::Acc(p) => {
                            p.pop();
                        }
                        StmtsMut::W3(p) => {
                            p.pop();
                        }
                    }
                    must_err = has_web3;
                    do_resign = false;
                    "stmt:drop-last-pair"
                } else {
                    match stmts_of(&mut alt.verifiable_credential[k]) {
                        StmtsMut::Acc(p) => {
                            for (i, s) in ns.iter().enumerate() {
                                p[i].0 = to_atomic::<Web3IdAttribute, AttributeTag>(s);
                            }
                        }
                        StmtsMut::W3(p) => {
                            for (i, s) in ns.iter().enumerate() {
                                p[i].0 = to_atomic::<Web3IdAttribute, String>(s);
                            }
                        }
                    }
                    do_resign = which == 14;
                    name
                }
            }
            4 => {
                // network of credential k
                match &mut alt.verifiable_credential[k] {
                    CredentialProof::Account { network: nw, .. } | CredentialProof::Web3Id { network: nw, .. } => *nw = network(!c.mainnet),
                }
                do_resign = gen::boolean(u);
                must_err = has_web3 && !do_resign;
                "metadata:network"
            }
            5 => match &mut alt.verifiable_credential[k] {
                CredentialProof::Account { cred_id: id, .. } => {
                    *id = cred_id(c.cred_exp + 100_000);
                    do_resign = gen::boolean(u);
                    must_err = has_web3 && !do_resign;
                    "metadata:account-cred-id"
                }
                CredentialProof::Web3Id { contract, .. } => {
                    if gen::boolean(u) {
                        contract.index ^= 1;
                    } else {
                        contract.subindex ^= 1;
                    }
                    do_resign = gen::boolean(u);
                    "metadata:web3-contract"
                }
            },
            6 => match &mut alt.verifiable_credential[k] {
                CredentialProof::Account { issuer, created, .. } => {
                    // issuer and creation time of an account credential are only covered by the
                    // linking signatures of web3 credentials in the same presentation
                    if !has_web3 {
                        ctx.class("perturb:account-issuer/created-without-web3(no claim)");
                        continue;
                    }
                    if gen::boolean(u) {
                        *issuer = IpIdentity(issuer.0 ^ 1);
                        "metadata:account-issuer"
                    } else {
                        *created += chrono::Duration::try_seconds(1).unwrap();
                        "metadata:account-created"
                    }
                }
                CredentialProof::Web3Id { created, ty, .. } => {
                    if gen::boolean(u) {
                        *created += chrono::Duration::try_seconds(1).unwrap();
                        "metadata:web3-created"
                    } else {
                        if !ty.insert("Extra".to_string()) {
                            ty.remove("Extra");
                        }
                        do_resign = gen::boolean(u);
                        must_err = !do_resign;
                        "metadata:web3-type"
                    }
                }
            },
            7 => match &mut alt.verifiable_credential[k] {
                CredentialProof::Web3Id { holder, .. } => {
                    // another holder key; with `resign` the attacker signs the linking proof with it
                    let attacker = keygen(&mut rng);
                    *holder = CredentialHolderId::new(attacker.verifying_key());
                    if gen::boolean(u) && replica_ok {
                        let mut keys: Vec<&SigningKey> = Vec::new();
                        for (j, b) in built.iter().enumerate() {
                            if let Some(s) = &b.signer {
                                keys.push(if j == k { &attacker } else { s });
                            }
                        }
                        match resign(&alt, &keys) {
                            Some(p) => alt = p,
                            None => {
                                ctx.class("perturb:noop");
                                continue;
                            }
                        }
                        "web3:holder-key+attacker-resigns"
                    } else {
                        "web3:holder-key"
                    }
                }
                _ => {
                    ctx.class("perturb:noop");
                    continue;
                }
            },
            8 => match &mut alt.verifiable_credential[k] {
                CredentialProof::Web3Id { commitments, .. } => {
                    do_resign = gen::boolean(u);
                    match gen::idx(u, 3) {
                        0 => {
                            let mut b = commitments.signature.to_bytes();
                            b[gen::idx(u, 64)] ^= 1 << (gen::byte(u) % 8);
                            commitments.signature = ed25519_dalek::Signature::from_bytes(&b);
                            "web3:issuer-signature"
                        }
                        1 => {
                            let Some(key) = commitments.commitments.keys().next().cloned() else {
                                ctx.class("perturb:noop");
                                continue;
                            };
                            commitments.commitments.insert(key, Commitment(point(gen::u16v(u) as u64 + 5)));
                            "web3:commitment-replaced"
                        }
                        _ => {
                            commitments.commitments.insert("extra-attribute".to_string(), Commitment(point(7)));
                            "web3:commitment-added"
                        }
                    }
                }
                _ => {
                    ctx.class("perturb:noop");
                    continue;
                }
            },
            9 => {
                // linking proof
                if !has_web3 {
                    // an extra signature where none is expected
                    let mut v = json.clone().unwrap();
                    v["proof"]["proofValue"] = serde_json::json!([hex(&[7u8; 64])]);
                    match from_json(v) {
                        Some(p) => alt = p,
                        None => {
                            ctx.class("perturb:noop");
                            continue;
                        }
                    }
                    "linking:extra-signature"
                } else {
                    let mut v = json.clone().unwrap();
                    let arr = v["proof"]["proofValue"].as_array_mut().unwrap();
                    let name = match gen::idx(u, 4) {
                        0 => {
                            arr.pop();
                            "linking:missing-signature"
                        }
                        1 => {
                            let d = arr[0].clone();
                            arr.push(d);
                            "linking:extra-signature"
                        }
                        2 if arr.len() >= 2 => {
                            arr.swap(0, 1);
                            "linking:swapped-signatures"
                        }
                        _ => {
                            let i = gen::idx(u, arr.len());
                            let mut s = arr[i].as_str().unwrap().to_string().into_bytes();
                            let j = gen::idx(u, s.len());
                            s[j] = if s[j] == b'0' { b'1' } else { b'0' };
                            arr[i] = serde_json::Value::String(String::from_utf8(s).unwrap());
                            "linking:signature-altered"
                        }
                    };
                    match from_json(v) {
                        Some(p) => alt = p,
                        None => {
                            ctx.class("perturb:noop");
                            continue;
                        }
                    }
                    name
                }
            }
            10 => match &mut alt_publics[k] {
                CredentialsInputs::Account { commitments } => {
                    if c.stmts.is_empty() {
                        ctx.class("perturb:noop");
                        continue;
                    }
                    let s = &c.stmts[gen::idx(u, c.stmts.len())];
                    let tag = AttributeTag(s.tag);
                    let v = lookup(&c.committed, s.tag).unwrap();
                    let r = &built[k].acc_rand[&tag];
                    match gen::idx(u, 3) {
                        0 => {
                            let o = other_value(u, v, v, Flavor::Web3);
                            if o.field() == v.field() {
                                ctx.class("perturb:noop");
                                continue;
                            }
                            commitments.insert(tag, commit(&o, r));
                            "public:commitment-other-value"
                        }
                        1 => {
                            commitments.insert(tag, commit(v, &Randomness::<ArCurve>::generate(&mut rng)));
                            "public:commitment-other-randomness"
                        }
                        _ => {
                            commitments.remove(&tag);
                            "public:commitment-removed"
                        }
                    }
                }
                CredentialsInputs::Web3 { issuer_pk } => {
                    *issuer_pk = keygen(&mut rng).verifying_key().into();
                    "public:issuer-key"
                }
            },
            11 => {
                match gen::idx(u, 3) {
                    0 => {
                        alt_publics.pop();
                        "public:one-fewer"
                    }
                    1 => {
                        alt_publics.push(CredentialsInputs::Account { commitments: BTreeMap::new() });
                        "public:one-more"
                    }
                    _ => {
                        alt_publics[k] = match &alt_publics[k] {
                            CredentialsInputs::Account { .. } => CredentialsInputs::Web3 { issuer_pk: keygen(&mut rng).verifying_key().into() },
                            CredentialsInputs::Web3 { .. } => CredentialsInputs::Account { commitments: BTreeMap::new() },
                        };
                        "public:kind-mismatch"
                    }
                }
            }
            12 => {
                // a hex digit of one statement proof
                let mut v = json.clone().unwrap();
                let Some(arr) = v["verifiableCredential"][k]["credentialSubject"]["proof"]["proofValue"].as_array_mut() else {
                    ctx.class("perturb:noop");
                    continue;
                };
                if arr.is_empty() {
                    ctx.class("perturb:noop");
                    continue;
                }
                let i = gen::idx(u, arr.len());
                let Some(pv) = arr[i].get_mut("proof") else {
                    ctx.class("perturb:noop");
                    continue;
                };
                let mut s = pv.as_str().unwrap_or("").to_string().into_bytes();
                if s.is_empty() {
                    ctx.class("perturb:noop");
                    continue;
                }
                let j = gen::idx(u, s.len());
                s[j] = match s[j] {
                    b'0' => b'1',
                    b'f' => b'e',
                    x if x.is_ascii_digit() && x < b'9' => x + 1,
                    b'9' => b'8',
                    x => x + 1,
                };
                *pv = serde_json::Value::String(String::from_utf8(s).unwrap());
                match from_json(v) {
                    Some(p) => alt = p,
                    None => {
                        ctx.class("perturb:proof-hexflip-unparseable");
                        continue;
                    }
                }
                "proof:hex-digit"
            }
            13 => {
                // swap two credentials together with their public inputs
                if creds.len() < 2 {
                    ctx.class("perturb:noop");
                    continue;
                }
                let j = (k + 1) % creds.len();
                if request.credential_statements[k] == request.credential_statements[j] {
                    ctx.class("perturb:noop");
                    continue;
                }
                alt.verifiable_credential.swap(k, j);
                alt_publics.swap(k, j);
                must_err = has_web3;
                "credentials:swapped"
            }
            _ => {
                // revealed value inside a proof
                let mut done = false;
                let target = |p: &mut AtomicProof<ArCurve, Web3IdAttribute>, v: &MAttr, u: &mut Unstructured| {
                    if let AtomicProof::RevealAttribute { attribute, .. } = p {
                        let o = other_value(u, v, v, Flavor::Web3);
                        if o.field() != v.field() {
                            *attribute = Web3IdAttribute::from_model(&o);
                            return true;
                        }
                    }
                    false
                };
                match stmts_of(&mut alt.verifiable_credential[k]) {
                    StmtsMut::Acc(p) => {
                        for (i, (_, pr)) in p.iter_mut().enumerate() {
                            if let Some(v) = lookup(&c.committed, c.stmts[i].tag) {
                                if !done && target(pr, v, u) {
                                    done = true;
                                }
                            }
                        }
                    }
                    StmtsMut::W3(p) => {
                        for (i, (_, pr)) in p.iter_mut().enumerate() {
                            if let Some(v) = lookup(&c.committed, c.stmts[i].tag) {
                                if !done && target(pr, v, u) {
                                    done = true;
                                }
                            }
                        }
                    }
                }
                if !done {
                    ctx.class("perturb:noop");
                    continue;
                }
                do_resign = gen::boolean(u);
                "proof:revealed-value"
            }
        };
        let mut label = name.to_string();
        if do_resign && has_web3 {
            if !replica_ok {
                ctx.class("perturb:noop");
                continue;
            }
            match resign(&alt, &signers) {
                Some(p) => {
                    alt = p;
                    label.push_str("+holder-resigns");
                }
                None => {
                    ctx.class("perturb:noop");
                    continue;
                }
            }
        }
        let r = alt.verify(alt_global.as_ref().unwrap_or(g), alt_publics.iter());
        ctx.class_n(&format!("perturb:{}", label), 1);
        ctx.class_n("perturbations-verified", 1);
        if !rejected(&r, &request, must_err) {
            return Err(Violation::new(
                "binding",
                format!(
                    "presentation still verifies{} after perturbation `{}` of credential #{}; original case: {}",
                    if must_err { "" } else { " for the original request" },
                    label,
                    k,
                    show()
                ),
            )
            .with_signature(format!("binding:web3id-v0:{}", label)));
        }
    }
    Ok(())
}
