fn main() { vcore::main(c15::property()) }
