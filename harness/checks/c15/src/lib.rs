//! C15: iterator locks and entry handles protect contract state invariants (trie level).
use triecheck::{decode_history, run_history, Oracles, W_LOCKS};
use vcore::{CheckResult, Ctx, Property, Target, Unstructured};

fn t_locks(data: &[u8], ctx: &mut Ctx) -> CheckResult {
    let mut u = Unstructured::new(data);
    let ops = decode_history(&mut u, 80, W_LOCKS);
    let ex = run_history(&ops, Oracles { contents: true, hash: true, locks: true }, ctx)?;
    if ex.f_max_live_iters >= 2 {
        ctx.class("two-live-iterators");
    }
    if ex.f_nested_or_equal_iters {
        ctx.class("nested-or-equal-iterators");
    }
    if ex.f_refused > 0 {
        ctx.class("modification-refused");
    }
    if ex.f_allowed_while_locked > 0 {
        ctx.class("modification-allowed-while-locked");
    }
    if ex.f_stale_handle > 0 {
        ctx.class("stale-handle-used");
    }
    if ex.f_iter_after_rollback {
        ctx.class("iterator-used-after-rollback");
    }
    let nt = ex.f_max_live_iters >= 2 && ex.f_nested_or_equal_iters && ex.f_refused > 0 && ex.f_allowed_while_locked > 0;
    let (r, a) = (ex.f_refused, ex.f_allowed_while_locked);
    ex.finish()?;
    if nt {
        ctx.nontrivial(&ops);
    }
    ctx.sample(|| format!("{} operations, {} refused, {} allowed while locked:\n{}", ops.len(), r, a, triecheck::describe(&ops[..ops.len().min(25)])));
    Ok(())
}

pub fn property() -> Property {
    Property {
        id: "C15",
        rule: "Histories of 1-80 operations biased towards iterators: iter(prefix) with up to 6 live iterators on equal, nested and disjoint prefixes, next, delete_iter, insert/delete/delete_prefix of keys equal to / under / above / beside the locked prefixes, value writes through entries, handles kept across deletions, new_generation/normalize with iterators and handles reused after a rollback. Model: a multiset of locked prefixes per generation. A modification of a key that has a locked prefix as prefix, or a delete_prefix(p) where p is a prefix of or extended by a lock, must be refused and leave contents and hash unchanged (contents are compared by full scans, the hash at every freeze); every other modification must succeed; each iterator yields exactly its creation-time snapshot in order; delete_iter releases exactly one count of its prefix; handles to deleted entries expose no data and accept no writes. Non-trivial = >= 2 simultaneously live iterators of which two are nested or equal, with >= 1 refused and >= 1 allowed modification while iterators live.",
        assumptions: &[
            "trie-level part of the property; host-level invalidation of handles and iterators across interrupts is exercised through the host functions (C14 scripts)",
            "each iterator is deleted at most once (the host's iterator table guarantees this)",
        ],
        targets: vec![Target::new("locks", t_locks).len(64, 1500).cases(150_000, 6_000_000).floors(&[
            ("two-live-iterators", 0.15),
            ("nested-or-equal-iterators", 0.1),
            ("modification-refused", 0.15),
            ("stale-handle-used", 0.008),
        ])],
    }
}
