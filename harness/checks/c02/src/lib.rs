//! C02: energy metering is exact, never undercharges, and bounds execution.
use vcore::{gen as g, vensure, CheckResult, Ctx, Property, Target, Unstructured, Violation};
use wasmgen::ast::*;
use wasmgen::cost::{static_costs, CostTable, StaticCosts};
use wasmgen::gen::{gen_args, gen_module, GenConfig};
use wasmgen::hostmodel::std_imports;
use wasmgen::interp::{prepare, Instance, Outcome, Prepared, Trap};
use wasmgen::util::ModelHost;
use wasmrun::{instantiate, to_values, Event, Metering, RealOutcome, RecHost, VCfg};

pub struct Case {
    pub vcfg:   VCfg,
    pub table:  CostTable,
    pub module: Module,
    pub func:   usize,
    pub args:   Vec<u64>,
    /// selector for the budget variation
    pub budget_sel: u8,
    pub budget_raw: u64,
}

fn decode_case(u: &mut Unstructured, unbounded: bool, max_body: usize) -> Case {
    let vcfg = if g::boolean(u) { VCfg::V1 } else { VCfg::V0 };
    let table = if g::boolean(u) { CostTable::V1 } else { CostTable::V0 };
    let cfg = GenConfig {
        sign_ext: vcfg == VCfg::V1,
        globals_in_offsets: vcfg == VCfg::V0,
        imports: if g::ratio(u, 3, 4) { std_imports() } else { Vec::new() },
        max_body,
        unbounded,
        ..GenConfig::default()
    };
    let gen = gen_module(u, &cfg);
    let module = gen.module;
    let func = g::idx(u, module.funcs.len());
    let ty = module.types[module.funcs[func].ty as usize].clone();
    let args = gen_args(u, &ty);
    let budget_sel = g::byte(u);
    let budget_raw = g::range_u64(u, 0, 3000);
    Case { vcfg, table, module, func, args, budget_sel, budget_raw }
}

fn metering_of(t: CostTable) -> Metering {
    match t {
        CostTable::V0 => Metering::V0,
        CostTable::V1 => Metering::V1,
    }
}

fn describe(c: &Case) -> String {
    format!(
        "validation {:?}, cost table {:?}, export f{}, args {:?}, budget selector {} raw {}\n{}",
        c.vcfg,
        c.table,
        c.func,
        c.args,
        c.budget_sel,
        c.budget_raw,
        pretty(&c.module)
    )
}

struct RefRun {
    outcome: Outcome,
    stats:   wasmgen::interp::Stats,
    log:     Vec<(String, Vec<u64>)>,
    call_energy: Vec<u64>,
    grows:   Vec<(u32, u64, usize)>,
    memory_len: usize,
}

fn ref_run(m: &Module, prep: &Prepared, costs: &StaticCosts, fidx: u32, args: &[u64], budget: u64, fuel: u64) -> RefRun {
    let mut inst = Instance::new(m, prep, Some(costs));
    inst.fuel = fuel;
    inst.energy_budget = budget;
    let mut host = ModelHost::new(m);
    let outcome = inst.run(fidx, args, &mut host);
    RefRun {
        outcome,
        memory_len: inst.memory.len(),
        stats: inst.stats,
        log: host.model.log,
        call_energy: host.call_energy,
        grows: host.grows,
    }
}

struct RealRun {
    out:    RealOutcome,
    host:   RecHost,
    steps:  u64,
}

fn real_run(art: &wasmrun::OwnedArt, name: &str, args: &[concordium_wasm_value::Value], energy: u64, step_limit: u64) -> RealRun {
    let mut host = RecHost::new(energy);
    let (out, _) = wasmrun::run(art, name, args, &mut host, step_limit);
    RealRun { out, host, steps: wasmrun::steps() }
}

mod concordium_wasm_value {
    pub use wasmrun::Value;
}

fn seg_rest_at(costs: &StaticCosts, at: Option<(usize, usize)>) -> u64 {
    match at {
        Some((f, pc)) => costs.seg_rest.get(f).and_then(|v| v.get(pc)).copied().unwrap_or(0),
        None => 0,
    }
}

/// Exactness, charging before work, memory announcement, determinism, budget behaviour.
fn check_bounded(c: &Case, ctx: &mut Ctx) -> CheckResult {
    ctx.describe(|| describe(c));
    let m = &c.module;
    let Some(prep) = prepare(m) else { return Err(Violation::new("harness", "ill-nested body")) };
    let costs = static_costs(m, c.table);
    let fidx = (m.imports.len() + c.func) as u32;
    let fty = m.types[m.funcs[c.func].ty as usize].clone();
    let r = ref_run(m, &prep, &costs, fidx, &c.args, u64::MAX, 300_000);
    if r.outcome == Outcome::Trap(Trap::Fuel) {
        ctx.class("ref-out-of-fuel");
        return Ok(());
    }
    let bytes = wasmgen::encode::encode(m);
    let art = match instantiate(&bytes, c.vcfg, metering_of(c.table)) {
        Ok(a) => a,
        Err(e) => return Err(Violation::new("accepts-valid", format!("valid module rejected with metering: {e:#}"))),
    };
    let name = format!("f{}", c.func);
    let args = to_values(&fty.params, &c.args);
    let ample = u64::MAX / 4;
    let a = real_run(&art, &name, &args, ample, 200_000_000);
    let exact = r.stats.energy;
    let ticked = a.host.ticked;

    // classes
    let s = &r.stats;
    match &r.outcome {
        Outcome::Done(_) => ctx.class("done"),
        Outcome::Trap(_) => ctx.class("trap"),
    }
    if s.loop_backedges > 0 {
        ctx.class("loop-backedge");
    }
    if s.calls > 0 {
        ctx.class("call");
    }
    if s.taken_brif > 0 {
        ctx.class("brif-taken");
    }
    if s.mem_grows > 0 {
        ctx.class("memory-grow");
    }
    if s.host_calls > 0 {
        ctx.class("host-call");
    }
    let trap_rest = seg_rest_at(&costs, s.trap_at);
    if matches!(r.outcome, Outcome::Trap(_)) && trap_rest > 0 {
        ctx.class("trap-mid-segment");
    }
    if (s.loop_backedges > 0 || s.calls > 0) && a.host.tick_events >= 3 {
        ctx.nontrivial(&(m.clone(), c.func, c.args.clone(), c.table == CostTable::V0, c.vcfg == VCfg::V0));
    }
    ctx.sample(|| {
        format!(
            "{:?}/{:?} f{} args {:?}: {} instrs; reference {:?} exact energy {}; engine {} ticked {} in {} tick events, {} steps",
            c.vcfg,
            c.table,
            c.func,
            c.args,
            m.instruction_count(),
            r.outcome,
            exact,
            a.out.kind(),
            ticked,
            a.host.tick_events,
            a.steps
        )
    });

    // (1) exactness / never undercharges
    match (&r.outcome, &a.out) {
        (Outcome::Done(v), RealOutcome::Done { result, .. }) => {
            vensure!(v == result, "result", "metered run result {:?} differs from reference {:?}", result, v);
            vensure!(
                ticked == exact,
                "exact-energy",
                "trap-free run: engine ticked {} energy, schedule summed over executed instructions is {} ({:?})",
                ticked,
                exact,
                c.table
            );
        }
        (Outcome::Trap(t), RealOutcome::Trap(_)) => {
            vensure!(
                ticked >= exact,
                "undercharge",
                "run trapping with {:?}: engine ticked {} < schedule of executed instructions {}",
                t,
                ticked,
                exact
            );
            vensure!(
                ticked <= exact + trap_rest,
                "overcharge-at-trap",
                "run trapping with {:?} at {:?}: engine ticked {} > executed {} + rest of segment {}",
                t,
                s.trap_at,
                ticked,
                exact,
                trap_rest
            );
        }
        (o, real) => {
            return Err(Violation::new(
                "outcome",
                format!("with ample energy: reference {:?} (at {:?}), engine {}: {:?}", o, s.trap_at, real.kind(), match real { RealOutcome::Trap(s) => s.as_str(), _ => "" }),
            ))
        }
    }
    // host-visible events: energy charged before the work
    vensure!(r.log == a.host.model.log, "host-calls", "host call sequences differ: reference {:?} engine {:?}", r.log, a.host.model.log);
    let real_calls: Vec<(u64, usize)> = a
        .host
        .events
        .iter()
        .filter_map(|e| match e {
            Event::HostCall { ticked, mem_len, .. } => Some((*ticked, *mem_len)),
            _ => None,
        })
        .collect();
    for (i, ((t, _ml), e)) in real_calls.iter().zip(r.call_energy.iter()).enumerate() {
        vensure!(
            t == e,
            "charged-before-host-call",
            "host call #{}: engine had ticked {} when the host was called, schedule of instructions executed up to and including the call is {}",
            i,
            t,
            e
        );
    }
    let real_grows: Vec<(u32, u64, usize)> = a
        .host
        .events
        .iter()
        .filter_map(|e| match e {
            Event::MemAlloc { pages, ticked, mem_len } => Some((*pages, *ticked, *mem_len)),
            _ => None,
        })
        .collect();
    vensure!(
        real_grows.len() == r.grows.len(),
        "memory-announced",
        "reference executed {} memory.grow, host was told about {}",
        r.grows.len(),
        real_grows.len()
    );
    for (i, ((rp, rt, rl), (p, e, l))) in real_grows.iter().zip(r.grows.iter()).enumerate() {
        vensure!(rp == p, "memory-announced", "memory.grow #{}: host told {} pages, program asked {}", i, rp, p);
        vensure!(
            rl == l,
            "memory-announced-before-growth",
            "memory.grow #{}: host saw memory of {} bytes when told, reference had {} bytes before growing",
            i,
            rl,
            l
        );
        vensure!(*rt >= *e, "charged-before-memory-grow", "memory.grow #{}: ticked {} < executed {}", i, rt, e);
    }
    if let RealOutcome::Done { memory, .. } = &a.out {
        vensure!(memory.len() == r.memory_len, "memory-size", "final memory {} bytes, reference {}", memory.len(), r.memory_len);
    }
    // (a trapping indirect call may be reported to the host before its type check fails, so the
    // entry count is only compared on trap-free runs)
    vensure!(
        !matches!(r.outcome, Outcome::Done(_)) || a.host.track_calls == s.calls,
        "track-call",
        "engine reported {} function entries to the host, reference made {} calls",
        a.host.track_calls,
        s.calls
    );

    // (4) determinism
    let b = real_run(&art, &name, &args, ample, 200_000_000);
    vensure!(
        a.out == b.out && a.host.events == b.host.events && a.host.ticked == b.host.ticked && a.steps == b.steps,
        "determinism",
        "two runs of the same execution differ: ticked {} vs {}, steps {} vs {}",
        a.host.ticked,
        b.host.ticked,
        a.steps,
        b.steps
    );

    // (5) budgets
    let total = ticked;
    let budget = match c.budget_sel % 6 {
        0 => total,
        1 => total.saturating_sub(1),
        2 => total + 1,
        3 => 0,
        4 => total / 2,
        _ => total + c.budget_raw,
    };
    let d = real_run(&art, &name, &args, budget, 200_000_000);
    if budget >= total {
        ctx.class("budget-sufficient");
        vensure!(
            d.out == a.out,
            "budget-monotone",
            "budget {} (>= total {}): outcome {} differs from the ample-energy outcome {}",
            budget,
            total,
            d.out.kind(),
            a.out.kind()
        );
        vensure!(
            d.host.remaining == budget - total && d.host.events == a.host.events,
            "budget-monotone",
            "budget {}: remaining {} but total is {}",
            budget,
            d.host.remaining,
            total
        );
    } else {
        ctx.class("budget-insufficient");
        vensure!(
            d.out == RealOutcome::OutOfEnergy,
            "out-of-energy",
            "budget {} < total {}: engine outcome is {} instead of out-of-energy",
            budget,
            total,
            d.out.kind()
        );
        vensure!(d.host.ticked <= budget, "overspend", "ticked {} exceeds budget {}", d.host.ticked, budget);
        // everything the host saw is a prefix of the ample run
        vensure!(
            d.host.events.len() <= a.host.events.len() && d.host.events[..] == a.host.events[..d.host.events.len()],
            "out-of-energy-prefix",
            "events before running out of energy are not a prefix of the full run"
        );
    }
    Ok(())
}

/// Unbounded programs under small budgets: must stop within a linear number of steps.
fn check_unbounded(c: &Case, ctx: &mut Ctx) -> CheckResult {
    ctx.describe(|| describe(c));
    let m = &c.module;
    let Some(prep) = prepare(m) else { return Err(Violation::new("harness", "ill-nested body")) };
    let costs = static_costs(m, c.table);
    let fidx = (m.imports.len() + c.func) as u32;
    let fty = m.types[m.funcs[c.func].ty as usize].clone();
    let budget = match c.budget_sel % 5 {
        0 => 0,
        1 => 1,
        2 => c.budget_raw % 64,
        _ => c.budget_raw,
    };
    let bytes = wasmgen::encode::encode(m);
    let art = match instantiate(&bytes, c.vcfg, metering_of(c.table)) {
        Ok(a) => a,
        Err(e) => return Err(Violation::new("accepts-valid", format!("valid module rejected with metering: {e:#}"))),
    };
    let name = format!("f{}", c.func);
    let args = to_values(&fty.params, &c.args);
    let l = m.instruction_count() as u64 + 8;
    let bound = 16 * l * (budget + 2);
    let a = real_run(&art, &name, &args, budget, bound);
    vensure!(
        a.out != RealOutcome::StepLimit,
        "termination-bound",
        "with energy budget {} the engine was still running after {} interpreter steps (bound 16*(L+8)*(E+2), L={} source instructions)",
        budget,
        bound,
        l - 8
    );
    vensure!(a.host.ticked <= budget, "overspend", "ticked {} exceeds budget {}", a.host.ticked, budget);
    // reference with the same budget (exact energy), generous fuel
    let r = ref_run(m, &prep, &costs, fidx, &c.args, budget, 3_000_000);
    match &r.outcome {
        Outcome::Trap(Trap::Fuel) => {
            ctx.class("ref-out-of-fuel");
        }
        Outcome::Trap(Trap::Energy) => {
            ctx.class("ref-energy-exceeded");
            vensure!(
                a.out == RealOutcome::OutOfEnergy,
                "out-of-energy",
                "executed instructions cost more than the budget {} (reference stopped at {}), engine outcome {} after ticking {}",
                budget,
                r.stats.energy,
                a.out.kind(),
                a.host.ticked
            );
            if r.stats.loop_backedges > 0 {
                ctx.class("out-of-energy-in-loop");
            }
            if r.stats.loop_backedges > 0 || r.stats.calls > 0 {
                ctx.nontrivial(&(m.clone(), c.func, c.args.clone(), budget, c.table == CostTable::V0));
            }
        }
        Outcome::Done(v) => {
            ctx.class("done-within-budget");
            match &a.out {
                RealOutcome::Done { result, .. } => {
                    vensure!(result == v, "result", "result {:?} vs reference {:?}", result, v);
                    vensure!(
                        a.host.ticked == r.stats.energy,
                        "exact-energy",
                        "engine ticked {} but executed instructions cost {}",
                        a.host.ticked,
                        r.stats.energy
                    );
                }
                other => {
                    return Err(Violation::new(
                        "outcome",
                        format!("reference completes within budget {} (cost {}), engine: {}", budget, r.stats.energy, other.kind()),
                    ))
                }
            }
        }
        Outcome::Trap(t) => {
            ctx.class("trap-within-budget");
            let rest = seg_rest_at(&costs, r.stats.trap_at);
            match &a.out {
                RealOutcome::Trap(_) => {
                    vensure!(a.host.ticked >= r.stats.energy, "undercharge", "ticked {} < executed {}", a.host.ticked, r.stats.energy);
                }
                RealOutcome::OutOfEnergy => {
                    vensure!(
                        r.stats.energy + rest > budget,
                        "spurious-out-of-energy",
                        "reference traps ({:?}) having spent {} (+{} rest of segment) within budget {}, engine ran out of energy",
                        t,
                        r.stats.energy,
                        rest,
                        budget
                    );
                }
                other => {
                    return Err(Violation::new("outcome", format!("reference traps with {:?}, engine: {}", t, other.kind())))
                }
            }
        }
    }
    ctx.sample(|| {
        format!(
            "{:?}/{:?} f{} budget {}: engine {} after {} steps (bound {}), ticked {}; reference {:?}",
            c.vcfg,
            c.table,
            c.func,
            budget,
            a.out.kind(),
            a.steps,
            bound,
            a.host.ticked,
            r.outcome
        )
    });
    Ok(())
}

fn t_exact(data: &[u8], ctx: &mut Ctx) -> CheckResult {
    let mut u = Unstructured::new(data);
    let c = decode_case(&mut u, false, 120);
    check_bounded(&c, ctx)
}

fn t_unbounded(data: &[u8], ctx: &mut Ctx) -> CheckResult {
    let mut u = Unstructured::new(data);
    let c = decode_case(&mut u, true, 60);
    check_unbounded(&c, ctx)
}

/// The chain-side energy counter (`InterpreterEnergy`) that the v0/v1 hosts tick: sequences of
/// `tick_energy` and `charge_memory_alloc` against the obvious model. A budget that exactly
/// covers a charge must succeed with 0 left; one unit less must fail and leave 0; a larger
/// budget changes only the remaining energy, by exactly the difference; memory is charged
/// pages * 100 (MEMORY_COST_FACTOR as documented in constants.rs).
fn t_interpreter_energy(data: &[u8], ctx: &mut Ctx) -> CheckResult {
    use concordium_smart_contract_engine::InterpreterEnergy;
    let mut u = Unstructured::new(data);
    let n = g::range_usize(&mut u, 1, 12);
    let mut charges: Vec<(bool, u64)> = Vec::new();
    for _ in 0..n {
        if g::ratio(&mut u, 1, 4) {
            charges.push((true, *g::choose(&mut u, &[0u64, 1, 2, 31, 32, 511, 512, 65535, u32::MAX as u64])));
        } else {
            charges.push((false, match g::byte(&mut u) % 6 {
                0 => 0,
                1 => 1,
                2 => g::range_u64(&mut u, 0, 100),
                3 => g::range_u64(&mut u, 0, 100_000),
                4 => u32::MAX as u64,
                _ => g::boundary_u64(&mut u) >> 8,
            }));
        }
    }
    let cost = |c: &(bool, u64)| if c.0 { c.1 * 100 } else { c.1 };
    let total: u128 = charges.iter().map(|c| cost(c) as u128).sum();
    let budgets: Vec<u64> = {
        let t = total.min(u64::MAX as u128) as u64;
        let mut b = vec![t, t.saturating_sub(1), t.saturating_add(1), 0, t / 2, t.saturating_add(g::range_u64(&mut u, 0, 1000))];
        // exactly enough for a proper prefix
        let k = g::idx(&mut u, charges.len());
        let pre: u128 = charges[..k].iter().map(|c| cost(c) as u128).sum();
        b.push(pre.min(u64::MAX as u128) as u64);
        b
    };
    ctx.describe(|| format!("charges (is_memory_pages, amount): {:?}\nbudgets {:?}", charges, budgets));
    for b in budgets {
        let mut e = InterpreterEnergy::new(b);
        let mut model: u64 = b;
        let mut failed = false;
        for (i, c) in charges.iter().enumerate() {
            let amount = cost(c);
            let r = if c.0 { e.charge_memory_alloc(c.1 as u32) } else { e.tick_energy(amount) };
            if model >= amount {
                model -= amount;
                if model == 0 {
                    ctx.class("exact-budget-charge");
                }
                vensure!(
                    r.is_ok() && e.energy == model,
                    "energy-counter",
                    "budget {}: charge #{} of {} with {} left: result ok={} remaining {}, expected success with {} left",
                    b,
                    i,
                    amount,
                    model + amount,
                    r.is_ok(),
                    e.energy,
                    model
                );
            } else {
                vensure!(
                    r.is_err() && e.energy == 0,
                    "energy-counter",
                    "budget {}: charge #{} of {} with only {} left: result ok={} remaining {}, expected out-of-energy with 0 left",
                    b,
                    i,
                    amount,
                    model,
                    r.is_ok(),
                    e.energy
                );
                failed = true;
                break;
            }
        }
        if failed {
            ctx.class("ran-out");
        } else {
            ctx.class("sufficient");
            vensure!(
                e.energy as u128 == b as u128 - total,
                "budget-monotone",
                "budget {} minus total {} is not the remaining energy {}",
                b,
                total,
                e.energy
            );
        }
    }
    ctx.nontrivial(&charges);
    ctx.sample(|| format!("{} charges, total {}", charges.len(), total));
    Ok(())
}

pub fn property() -> Property {
    Property {
        id: "C02",
        rule: "wasmgen modules compiled with injected metering (cost V0 or V1, validation V0 or V1) and run with a recording host. Target exact: terminating programs with ample energy - the energy ticked must equal the independently transcribed cost schedule summed over the instructions the reference interpreter executed (+ per-frame locals charge + taken-br_if branch cost); at every host call the ticked energy equals the cost of everything executed so far; on a trap ticked is within [executed, executed + rest of the straight-line segment]; memory.grow is announced (with the pre-growth memory size) before it happens; two runs are identical; a budget >= total changes only the remaining energy by exactly the difference, a budget < total ends out-of-energy with a prefix of the events. Target unbounded: programs with unguarded loops/recursion under small budgets must stop within 16*(L+8)*(E+2) interpreter steps (hook step counter), never tick more than the budget, and agree with the reference run under the same budget. Target interpreter-energy: the chain-side energy counter under generated charge sequences and budgets at, one below and above the exact total. Non-trivial = run with a loop back-edge or call and >= 3 tick events (exact) / out-of-energy or completion in a program with back-edges or calls (unbounded).",
        assumptions: &[
            "the cost schedule oracle is a manual transcription of the documented V0/V1 tables (wasmgen::cost); a consistent change of both would go unnoticed",
            "the recording host charges nothing for memory pages (the chain-side charge per page is covered with the host functions, C14)",
            "step bound derived in DESIGN.md: every control-flow cycle contains a branch or call of positive cost",
        ],
        targets: vec![
            Target::new("exact", t_exact).len(64, 2048).cases(60_000, 3_000_000).floors(&[
                ("loop-backedge", 0.02),
                ("call", 0.03),
                ("trap-mid-segment", 0.02),
                ("memory-grow", 0.02),
                ("budget-insufficient", 0.2),
            ]),
            Target::new("interpreter-energy", t_interpreter_energy).len(8, 200).cases(100_000, 2_000_000).floors(&[("exact-budget-charge", 0.3)]),
            Target::new("unbounded", t_unbounded)
                .len(32, 1024)
                .cases(40_000, 2_000_000)
                .floors(&[("ref-energy-exceeded", 0.05), ("out-of-energy-in-loop", 0.003)])
                .timeout(900),
        ],
    }
}
