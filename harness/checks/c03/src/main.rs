fn main() { vcore::main(c03::property()) }
