//! C03: contract state behaves as an ordered map under every operation history.
use triecheck::{decode_history, run_history, Oracles, W_MAP};
use vcore::{CheckResult, Ctx, Property, Target, Unstructured};

fn run(data: &[u8], ctx: &mut Ctx, max_ops: usize) -> CheckResult {
    let mut u = Unstructured::new(data);
    let ops = decode_history(&mut u, max_ops, W_MAP);
    let ex = run_history(&ops, Oracles { contents: true, hash: false, locks: false }, ctx)?;
    if ex.f_removed_existing {
        ctx.class("removed-existing-key");
    }
    if ex.f_read_after_remove {
        ctx.class("read-after-remove");
    }
    if ex.f_prefix_pair {
        ctx.class("keys-sharing-prefix");
    }
    if ex.f_odd_split {
        ctx.class("odd-nibble-split");
    }
    if ex.f_rollback_after_mod {
        ctx.class("rollback-after-modification");
    }
    if ex.f_thaw_stored {
        ctx.class("thaw-of-stored-state");
    }
    if ex.f_indirect_rewritten {
        ctx.class("indirect-value-rewritten");
    }
    if ex.f_iter_after_rollback {
        ctx.class("iterator-used-after-rollback");
    }
    let nontrivial = ex.f_removed_existing && ex.f_read_after_remove && ex.f_prefix_pair;
    let n = ops.len();
    let keys = ex.model_map().len();
    ex.finish()?;
    if nontrivial {
        ctx.nontrivial(&ops);
    }
    ctx.sample(|| format!("{} operations, {} keys at the end:\n{}", n, keys, triecheck::describe(&ops[..n.min(25)])));
    Ok(())
}

fn t_history(data: &[u8], ctx: &mut Ctx) -> CheckResult { run(data, ctx, 80) }

/// The public path: MutableState handles with checkpoints (make_fresh_generation), rollbacks
/// (going back to a parent handle), and freezes.
fn t_mutable_state(data: &[u8], ctx: &mut Ctx) -> CheckResult {
    let mut u = Unstructured::new(data);
    let ops = triecheck::mstate::decode(&mut u, 40);
    let f = triecheck::mstate::run(&ops, false, ctx)?;
    if f.rollback_then_fresh {
        ctx.class("checkpoint-after-abandoned-generation");
        ctx.nontrivial(&ops);
    }
    if f.depth3 {
        ctx.class("three-nested-generations");
    }
    if f.freezes > 0 {
        ctx.class("freeze");
    }
    ctx.sample(|| format!("{} MutableState operations", ops.len()));
    Ok(())
}

fn t_long(data: &[u8], ctx: &mut Ctx) -> CheckResult { run(data, ctx, 400) }

pub fn property() -> Property {
    Property {
        id: "C03",
        rule: "Histories of 1-80 (long: 1-400) operations over keys from a 7-byte alphabet (lengths 0-12, prefixes and extensions of earlier keys, occasional keys of 30-300 bytes) and values of length 0/1/63/64/65/~1KiB: insert/overwrite, lookup, set, get_mut+write/resize, delete, delete_prefix, iter/next/delete_iter, new_generation, normalize (rollback to any older generation), freeze + store/reload/cache/serialize/migrate + thaw, full scan. Applied to the real MutableTrie/PersistentState and to a BTreeMap model with a stack of generations; every return value is compared, a full ascending scan plus point lookups of all keys ever used is compared every 16 steps, after every rollback and at the end, and the persistent state the trie was thawed from must stay unchanged. Target mutable-state drives the public MutableState API instead: a tree of handles created by make_fresh_generation (checkpoints), modifications and scans through get_inner on any live handle (which rolls back everything derived from it), and freezes, each handle compared with its own model map. Non-trivial = history that removed an existing key, read afterwards, and used keys sharing a proper prefix; distinct by operation list.",
        assumptions: &[
            "crate-private operations are driven through the guarded verif_* wrappers (hook H2), which add no logic",
            "entry handles and iterators are only used in the generation they were obtained in (the host layer guarantees this)",
        ],
        targets: vec![
            Target::new("history", t_history).len(64, 1500).cases(40_000, 2_000_000).floors(&[
                ("removed-existing-key", 0.3),
                ("odd-nibble-split", 0.2),
                ("rollback-after-modification", 0.05),
                ("thaw-of-stored-state", 0.03),
                ("indirect-value-rewritten", 0.03),
            ]),
            Target::new("long-history", t_long).len(512, 6000).cases(4_000, 300_000),
            Target::new("mutable-state", t_mutable_state)
                .len(32, 600)
                .cases(40_000, 2_000_000)
                .floors(&[("checkpoint-after-abandoned-generation", 0.1), ("three-nested-generations", 0.1)]),
        ],
    }
}
